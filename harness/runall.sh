#!/bin/bash
# runs every registered check (quick by default) and prints one line per check
T=${1:-quick}
cd /verif
for c in $(python3 -c "import json; print(' '.join(x['property_id'] for x in json.load(open('MANIFEST.json'))['checks']))"); do
  s=$(date +%s); timeout 3000 ./verif check $c $T > out/runall-$c.log 2>&1; rc=$?
  echo "$c rc=$rc $(( $(date +%s) - s ))s violations=$(grep -c '^VIOLATION' out/runall-$c.log) known=$(grep -c '^KNOWN-FINDING' out/runall-$c.log)"
done
