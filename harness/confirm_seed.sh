#!/bin/bash
# usage: confirm_seed.sh <seed dir with patch.diff demo.sh meta.json> -> prints result lines; uses a scratch worktree removed afterwards
set -u
S=$1; ID=$(basename $S); WT=/tmp/confirm-$ID
git -C /repo worktree remove --force $WT >/dev/null 2>&1; rm -rf $WT
git -C /repo worktree add -q $WT HEAD || exit 2
cd $WT && for f in configure Makefile.in config.h.in aclocal.m4 compile config.guess config.sub install-sh missing depcomp; do [ -e /repo/$f ] && cp -a /repo/$f . ; done
git apply $S/patch.diff || { echo "$ID APPLY-FAILED"; exit 2; }
(./configure -q && make -j4) > $WT/build.log 2>&1 || { echo "$ID BUILD-FAILED"; exit 2; }
(make check > $WT/check.log 2>&1; echo $? > $WT/check.rc)
CRC=$(cat $WT/check.rc); grep -q "Regression test completed with SUCCESS" $WT/check.log && CS=success || CS=nosuccess
bash $S/demo.sh /repo/snapraid > $WT/demo0.log 2>&1; D0=$?
bash $S/demo.sh $WT/snapraid > $WT/demo1.log 2>&1; D1=$?
echo "$ID make_check_rc=$CRC $CS demo_unmodified_rc=$D0 demo_modified_rc=$D1"
cd /; git -C /repo worktree remove --force $WT; rm -rf $WT
