/*
 * C18: compiles the repository's own cmdline/fnmatch.c (the implementation used on platforms
 * without a native fnmatch; on this platform config.h selects the C library's one and fnmatch.c
 * compiles to nothing) so that filter_conf can also be linked against it: the symbol "fnmatch"
 * defined here takes precedence over the C library's when linking cmdline_elem.o.
 *
 * The number of calls is exported so that the check can prove that this copy really was used.
 */
#define _GNU_SOURCE 1
#include <errno.h>
#include <ctype.h>
#include <string.h>
#include <stdlib.h>
#include <fnmatch.h> /* same flag values as cmdline/fnmatch.h; elem.o was compiled against this one */

/* enable the body of fnmatch.c: it is skipped under HAVE_FNMATCH and under glibc */
#undef HAVE_CONFIG_H
#undef __GNU_LIBRARY__
#define HAVE_FNMATCH_H 1
#define HAVE_STRING_H 1
#define STDC_HEADERS 1
#define getenv(x) 0 /* POSIXLY_CORRECT must not influence the check */
#define fnmatch c18_repo_fnmatch
#include "cmdline/fnmatch.c"
#undef fnmatch

unsigned long c18_bundled_fnmatch_calls;

int fnmatch(const char* pattern, const char* string, int flags)
{
	++c18_bundled_fnmatch_calls;
	return c18_repo_fnmatch(pattern, string, flags);
}
