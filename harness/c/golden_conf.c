/*
 * golden_conf.c - conformance harness of property C16 (vectors part), linked against the objects of the tree
 * under test (cmdline_util.o: memhash, crc32c_gen, crc32c_x86, crc32c_init; raid_*.o: raid_gen and variants).
 *
 *   golden_conf gen   <vectors.txt>      write the vector file (used ONCE, with the pinned reference build)
 *   golden_conf check <vectors.txt>      recompute every vendored vector with the linked code and compare
 *   golden_conf hash  <kind 1|2|3> <seedhex32> <file>   digest of a file's bytes (helper used to validate spooky2.py)
 *
 * Inputs are never stored: they are regenerated from SplitMix64 (documented in golden/README.md and
 * re-implemented in harness/py/goldenlib.py):
 *   state += 0x9E3779B97F4A7C15; z = state; z = (z ^ z>>30) * 0xBF58476D1CE4E5B9; z = (z ^ z>>27) * 0x94D049BB133111EB;
 *   out = z ^ z>>31; emitted as 8 little-endian bytes; the stream for `key` starts with state = key.
 *   digest/crc input for seed index s and length L : first L bytes of stream (0xC16D << 48 | s << 32 | L)
 *   hash seed 0 = 16 x 00, seed 1 = 16 x FF, seed k in {2,3} = first 16 bytes of stream (0xC165 << 48 | k)
 *   crc1 is the CRC continued from the initial value 0xC16C16C1 (crc0 from 0)
 *   raid data block of disk d (set r, nd disks, block size b): first b bytes of
 *                                               stream (0xC16A << 48 | r << 32 | nd << 16 | (b / 64) << 8 | d)
 *
 * Vector file lines:
 *   D <s> <L> <murmur3 digest> <spooky2 digest> <metro digest> <crc0> <crc1>
 *   R <c|z> <r> <nd> <b> <hex of np*b parity bytes>      c: Cauchy matrix np = 6;  z: power matrix (z-parity) np = 3
 *
 * Output protocol of `check` (stdout): FAIL <vector id> <text> (first 40 per family) / FAMILY <family> <failures> /
 * SAMPLE <json> / STAT <key> <int> / SKIP <what> / DONE.
 * Exit 0 = ran to completion; FAIL lines decide the verdict.
 */
#define _GNU_SOURCE
#include <stdio.h>
#include <stdarg.h>
#include <stdint.h>
#include <stdlib.h>
#include <string.h>

#include "portable.h"
#include "util.h"
#include "raid/raid.h"
#include "raid/internal.h"
#include "raid/cpu.h"
#include "raid/memory.h"

#define LMAX 1100
#define NSEED 4
#define NPMAX 6
#define NDMAX 251
#define BMAX 256

/* defined in snapraid.c (the only object not linked: it holds main) */
volatile int global_interrupt;

static const int ND_SET[] = { 1, 2, 3, 5, 8, 33, 64, 251 };
static const int B_SET[] = { 64, 128, 192, 256 };
#define NR 2

static void die(const char *fmt, ...)
{
	va_list ap;

	va_start(ap, fmt);
	fprintf(stderr, "golden_conf: ");
	vfprintf(stderr, fmt, ap);
	fprintf(stderr, "\n");
	va_end(ap);
	exit(2);
}

/* ---- SplitMix64 */
static uint64_t sm_next(uint64_t *s)
{
	uint64_t z = (*s += 0x9E3779B97F4A7C15ULL);

	z = (z ^ (z >> 30)) * 0xBF58476D1CE4E5B9ULL;
	z = (z ^ (z >> 27)) * 0x94D049BB133111EBULL;
	return z ^ (z >> 31);
}

static void sm_fill(unsigned char *buf, size_t n, uint64_t key)
{
	uint64_t s = key;
	size_t i = 0;

	while (i < n) {
		uint64_t w = sm_next(&s);
		int k;

		for (k = 0; k < 8 && i < n; ++k, ++i)
			buf[i] = (unsigned char)(w >> (8 * k));
	}
}

static void hash_seed(int s, unsigned char *seed)
{
	if (s == 0)
		memset(seed, 0x00, 16);
	else if (s == 1)
		memset(seed, 0xFF, 16);
	else
		sm_fill(seed, 16, (0xC165ULL << 48) | (uint64_t)s);
}

static uint64_t digest_key(int s, int len)
{
	return (0xC16DULL << 48) | ((uint64_t)s << 32) | (uint64_t)len;
}

static uint64_t raid_key(int r, int nd, int b, int d)
{
	return (0xC16AULL << 48) | ((uint64_t)r << 32) | ((uint64_t)nd << 16) | ((uint64_t)(b / 64) << 8) | (uint64_t)d;
}

#define CRC1_INIT 0xC16C16C1U

static void hex(char *out, const unsigned char *p, size_t n)
{
	static const char *d = "0123456789abcdef";
	size_t i;

	for (i = 0; i < n; ++i) {
		out[2 * i] = d[p[i] >> 4];
		out[2 * i + 1] = d[p[i] & 15];
	}
	out[2 * n] = 0;
}

static int unhex(const char *s, unsigned char *out, size_t n)
{
	size_t i;

	if (strlen(s) != 2 * n)
		return -1;
	for (i = 0; i < n; ++i) {
		unsigned v;

		if (sscanf(s + 2 * i, "%2x", &v) != 1)
			return -1;
		out[i] = (unsigned char)v;
	}
	return 0;
}

/* ---- raid buffers */
static void **rv;          /* NDMAX + NPMAX aligned blocks of BMAX bytes */
static void *rv_free;

static void raid_setup(void)
{
	rv = raid_malloc_vector(NDMAX, NDMAX + NPMAX, BMAX, &rv_free);
	if (!rv)
		die("no memory");
}

static void raid_load(int r, int nd, int b)
{
	int d;

	for (d = 0; d < nd; ++d)
		sm_fill(rv[d], b, raid_key(r, nd, b, d));
}

/* ---- generator variants called directly */
typedef void gen_f(int nd, size_t size, void **vv);
enum { NEED_NONE, NEED_SSE2, NEED_SSSE3, NEED_AVX2 };

static int cpu_has(int need)
{
	switch (need) {
	case NEED_NONE: return 1;
#ifdef CONFIG_X86
	case NEED_SSE2: return raid_cpu_has_sse2();
	case NEED_SSSE3: return raid_cpu_has_ssse3();
	case NEED_AVX2: return raid_cpu_has_avx2();
#endif
	}
	return 0;
}

static const struct genvar {
	const char *name;
	gen_f *f;
	int np;
	int mode; /* 0 Cauchy rows, 1 power rows */
	int need;
} genvars[] = {
	{ "gen1_int32", raid_gen1_int32, 1, 0, NEED_NONE },
	{ "gen1_int64", raid_gen1_int64, 1, 0, NEED_NONE },
	{ "gen2_int32", raid_gen2_int32, 2, 0, NEED_NONE },
	{ "gen2_int64", raid_gen2_int64, 2, 0, NEED_NONE },
	{ "genz_int32", raid_genz_int32, 3, 1, NEED_NONE },
	{ "genz_int64", raid_genz_int64, 3, 1, NEED_NONE },
	{ "gen3_int8", raid_gen3_int8, 3, 0, NEED_NONE },
	{ "gen4_int8", raid_gen4_int8, 4, 0, NEED_NONE },
	{ "gen5_int8", raid_gen5_int8, 5, 0, NEED_NONE },
	{ "gen6_int8", raid_gen6_int8, 6, 0, NEED_NONE },
#ifdef CONFIG_X86
#ifdef CONFIG_SSE2
	{ "gen1_sse2", raid_gen1_sse2, 1, 0, NEED_SSE2 },
	{ "gen2_sse2", raid_gen2_sse2, 2, 0, NEED_SSE2 },
	{ "genz_sse2", raid_genz_sse2, 3, 1, NEED_SSE2 },
#ifdef CONFIG_X86_64
	{ "gen2_sse2ext", raid_gen2_sse2ext, 2, 0, NEED_SSE2 },
	{ "genz_sse2ext", raid_genz_sse2ext, 3, 1, NEED_SSE2 },
#endif
#endif
#ifdef CONFIG_SSSE3
	{ "gen3_ssse3", raid_gen3_ssse3, 3, 0, NEED_SSSE3 },
	{ "gen4_ssse3", raid_gen4_ssse3, 4, 0, NEED_SSSE3 },
	{ "gen5_ssse3", raid_gen5_ssse3, 5, 0, NEED_SSSE3 },
	{ "gen6_ssse3", raid_gen6_ssse3, 6, 0, NEED_SSSE3 },
#ifdef CONFIG_X86_64
	{ "gen3_ssse3ext", raid_gen3_ssse3ext, 3, 0, NEED_SSSE3 },
	{ "gen4_ssse3ext", raid_gen4_ssse3ext, 4, 0, NEED_SSSE3 },
	{ "gen5_ssse3ext", raid_gen5_ssse3ext, 5, 0, NEED_SSSE3 },
	{ "gen6_ssse3ext", raid_gen6_ssse3ext, 6, 0, NEED_SSSE3 },
#endif
#endif
#ifdef CONFIG_AVX2
	{ "gen1_avx2", raid_gen1_avx2, 1, 0, NEED_AVX2 },
	{ "gen2_avx2", raid_gen2_avx2, 2, 0, NEED_AVX2 },
#ifdef CONFIG_X86_64
	{ "genz_avx2ext", raid_genz_avx2ext, 3, 1, NEED_AVX2 },
	{ "gen3_avx2ext", raid_gen3_avx2ext, 3, 0, NEED_AVX2 },
	{ "gen4_avx2ext", raid_gen4_avx2ext, 4, 0, NEED_AVX2 },
	{ "gen5_avx2ext", raid_gen5_avx2ext, 5, 0, NEED_AVX2 },
	{ "gen6_avx2ext", raid_gen6_avx2ext, 6, 0, NEED_AVX2 },
#endif
#endif
#endif
};

#define NGENVAR ((int)(sizeof(genvars) / sizeof(genvars[0])))

/* ---- gen */
static int have_x86crc(void)
{
#if HAVE_SSE42
	return raid_cpu_has_crc32();
#else
	return 0;
#endif
}

static uint32_t crc_x86_or_gen(uint32_t crc, const unsigned char *p, unsigned n)
{
#if HAVE_SSE42
	if (raid_cpu_has_crc32())
		return crc32c_x86(crc, p, n);
#endif
	return crc32c_gen(crc, p, n);
}

static int do_gen(const char *path)
{
	FILE *f = fopen(path, "w");
	unsigned char *buf = malloc_nofail_align(LMAX + 64, &(void *){ 0 });
	unsigned char seed[16], dg[3][16];
	char hx[3][33];
	char *phex = malloc(2 * NPMAX * BMAX + 1);
	unsigned char *par = malloc(NPMAX * BMAX);
	int s, len, r, i, j, l, mode;

	if (!f)
		die("cannot write %s", path);
	if (!have_x86crc())
		die("reference generation needs a CPU with SSE4.2 crc32 (both CRC variants are compared)");
	fprintf(f, "# C16 golden vectors. See golden/README.md. Inputs regenerated from SplitMix64, never stored.\n");
	fprintf(f, "# D <seed index> <length> <murmur3> <spooky2> <metro> <crc32c init 0> <crc32c init c16c16c1>\n");
	fprintf(f, "# R <c: Cauchy np=6 | z: power np=3> <set> <nd> <block size> <parity blocks, level 0 first>\n");
	for (s = 0; s < NSEED; ++s) {
		hash_seed(s, seed);
		for (len = 0; len <= LMAX; ++len) {
			uint32_t c0, c1;

			sm_fill(buf, len, digest_key(s, len));
			for (i = 0; i < 3; ++i) {
				memhash(i + 1, seed, dg[i], buf, len);
				hex(hx[i], dg[i], 16);
			}
			c0 = crc32c_gen(0, buf, len);
			c1 = crc32c_gen(CRC1_INIT, buf, len);
			if (c0 != crc32c_x86(0, buf, len) || c1 != crc32c_x86(CRC1_INIT, buf, len))
				die("reference crc32c_gen and crc32c_x86 disagree at s=%d L=%d", s, len);
			fprintf(f, "D %d %d %s %s %s %08x %08x\n", s, len, hx[0], hx[1], hx[2], c0, c1);
		}
	}
	raid_setup();
	for (mode = 0; mode < 2; ++mode) {
		int np = mode ? 3 : 6;

		raid_mode(mode ? RAID_MODE_VANDERMONDE : RAID_MODE_CAUCHY);
		for (r = 0; r < NR; ++r)
			for (i = 0; i < (int)(sizeof(ND_SET) / sizeof(ND_SET[0])); ++i)
				for (j = 0; j < (int)(sizeof(B_SET) / sizeof(B_SET[0])); ++j) {
					int nd = ND_SET[i], b = B_SET[j];

					raid_load(r, nd, b);
					for (l = 0; l < np; ++l)
						memset(rv[nd + l], 0xA5, b);
					raid_gen(nd, np, b, rv);
					for (l = 0; l < np; ++l)
						memcpy(par + l * b, rv[nd + l], b);
					/* the reference must be self consistent over its variants */
					{
						int k;

						for (k = 0; k < NGENVAR; ++k) {
							const struct genvar *g = &genvars[k];

							if (g->mode != mode && g->np > 2)
								continue;
							if (g->np > np || !cpu_has(g->need))
								continue;
							for (l = 0; l < g->np; ++l)
								memset(rv[nd + l], 0x5A, b);
							g->f(nd, b, rv);
							for (l = 0; l < g->np; ++l)
								if (memcmp(rv[nd + l], par + l * b, b) != 0)
									die("reference variant %s disagrees with raid_gen (nd=%d b=%d)", g->name, nd, b);
						}
					}
					hex(phex, par, np * b);
					fprintf(f, "R %c %d %d %d %s\n", mode ? 'z' : 'c', r, nd, b, phex);
				}
	}
	if (fclose(f) != 0)
		die("write error");
	return 0;
}

/* ---- check */
static long n_fail, n_cmp, n_items, n_samples;

/* failures are counted per family (first path component of the vector id, two for parity); the first 40 of
 * each family are written out, the totals follow as FAMILY lines */
#define NFAM 32
#define FAIL_PRINT_MAX 40
static struct { char name[48]; long n; } fam[NFAM];

static void fail(const char *id, const char *fmt, ...)
{
	va_list ap;
	char name[48];
	const char *p = strchr(id, '/');
	int k;

	if (p && strncmp(id, "parity/", 7) == 0)
		p = strchr(p + 1, '/');
	snprintf(name, sizeof(name), "%.*s", p ? (int)(p - id) : (int)strlen(id), id);
	for (k = 0; k < NFAM - 1 && fam[k].name[0] && strcmp(fam[k].name, name) != 0; ++k)
		;
	if (!fam[k].name[0])
		strcpy(fam[k].name, name);
	++fam[k].n;
	++n_fail;
	if (fam[k].n > FAIL_PRINT_MAX)
		return;
	printf("FAIL %s ", id);
	va_start(ap, fmt);
	vprintf(fmt, ap);
	va_end(ap);
	printf("\n");
}

static void cmp_digest(const char *kind, int kindno, int s, int len, const unsigned char *seed,
	const unsigned char *buf, const char *expect_hex)
{
	unsigned char dg[16];
	char got[33], id[64];

	memset(dg, 0, 16);
	memhash(kindno, seed, dg, buf, len);
	hex(got, dg, 16);
	++n_cmp;
	if (strcmp(got, expect_hex) != 0) {
		snprintf(id, sizeof(id), "%s/s%d/L%d", kind, s, len);
		fail(id, "memhash(%s) seed index %d length %d: reference %s current %s", kind, s, len, expect_hex, got);
	}
}

static void cmp_crc(const char *variant, uint32_t (*fn)(uint32_t, const unsigned char *, unsigned), int s, int len,
	const unsigned char *buf, uint32_t init, uint32_t expect)
{
	uint32_t got = fn(init, buf, len);
	char id[64];

	++n_cmp;
	if (got != expect) {
		snprintf(id, sizeof(id), "%s/i%08x/s%d/L%d", variant, init, s, len);
		fail(id, "%s(init %08x) seed index %d length %d: reference %08x current %08x", variant, init, s, len, expect, got);
	}
}

static void cmp_parity(const char *who, char modec, int r, int nd, int b, int np, const unsigned char *expect)
{
	int l;
	char id[96];

	for (l = 0; l < np; ++l) {
		++n_cmp;
		if (memcmp(rv[nd + l], expect + l * b, b) != 0) {
			int k = 0;

			while (((unsigned char *)rv[nd + l])[k] == expect[l * b + k])
				++k;
			snprintf(id, sizeof(id), "parity/%c/%s/r%d/nd%d/b%d/np%d/level%d", modec, who, r, nd, b, np, l);
			fail(id, "%s mode %c nd %d block %d np %d: parity level %d differs from the reference at byte %d "
				"(reference %02x current %02x)", who, modec, nd, b, np, l, k, expect[l * b + k],
				((unsigned char *)rv[nd + l])[k]);
		}
	}
}

static int do_check(const char *path)
{
	FILE *f = fopen(path, "r");
	size_t cap = 2 * NPMAX * BMAX + 256;
	char *line = malloc(cap);
	unsigned char *buf = malloc_nofail_align(LMAX + 64, &(void *){ 0 });
	unsigned char *par = malloc(NPMAX * BMAX);
	unsigned char seed[16];
	long nD = 0, nR = 0;
	int x86 = have_x86crc();
	int k;

	if (!f)
		die("cannot read %s", path);
	raid_setup();
	if (!x86)
		printf("SKIP crc32c_x86 cpu without sse4.2\n");
	for (k = 0; k < NGENVAR; ++k)
		if (!cpu_has(genvars[k].need))
			printf("SKIP %s cpu\n", genvars[k].name);
	while (fgets(line, cap, f)) {
		if (line[0] == '#' || line[0] == '\n')
			continue;
		if (line[0] == 'D') {
			int s, len;
			char h1[40], h2[40], h3[40];
			unsigned c0, c1;

			if (sscanf(line, "D %d %d %32s %32s %32s %8x %8x", &s, &len, h1, h2, h3, &c0, &c1) != 7
				|| s < 0 || s >= NSEED || len < 0 || len > LMAX)
				die("bad D line: %s", line);
			hash_seed(s, seed);
			sm_fill(buf, len, digest_key(s, len));
			cmp_digest("murmur3", HASH_MURMUR3, s, len, seed, buf, h1);
			cmp_digest("spooky2", HASH_SPOOKY2, s, len, seed, buf, h2);
			cmp_digest("metro", HASH_METRO, s, len, seed, buf, h3);
			cmp_crc("crc32c_gen", crc32c_gen, s, len, buf, 0, c0);
			cmp_crc("crc32c_gen", crc32c_gen, s, len, buf, CRC1_INIT, c1);
			if (x86) {
				cmp_crc("crc32c_x86", crc_x86_or_gen, s, len, buf, 0, c0);
				cmp_crc("crc32c_x86", crc_x86_or_gen, s, len, buf, CRC1_INIT, c1);
			}
			cmp_crc("crc32c_dispatch", crc32c, s, len, buf, 0, c0);
			n_items += 5;
			++nD;
			if (n_samples < 2 && len == 517) {
				printf("SAMPLE {\"kind\":\"digest\",\"seed_index\":%d,\"length\":%d,\"murmur3\":\"%s\",\"spooky2\":\"%s\","
					"\"crc32c\":\"%08x\"}\n", s, len, h1, h2, c0);
				++n_samples;
			}
		} else if (line[0] == 'R') {
			char modec;
			int r, nd, b, np, pos, l, kk;
			char *hx;

			if (sscanf(line, "R %c %d %d %d %n", &modec, &r, &nd, &b, &pos) != 4
				|| (modec != 'c' && modec != 'z') || nd < 1 || nd > NDMAX || b < 64 || b > BMAX || b % 64)
				die("bad R line");
			np = modec == 'z' ? 3 : 6;
			hx = line + pos;
			hx[strcspn(hx, "\r\n")] = 0;
			if (unhex(hx, par, (size_t)np * b) != 0)
				die("bad R hex (nd %d b %d)", nd, b);
			raid_load(r, nd, b);
			raid_mode(modec == 'z' ? RAID_MODE_VANDERMONDE : RAID_MODE_CAUCHY);
			/* the dispatcher for every parity count: the first n levels are the first n rows */
			for (kk = 1; kk <= np; ++kk) {
				for (l = 0; l < NPMAX; ++l)
					memset(rv[nd + l], 0xA5, b);
				raid_gen(nd, kk, b, rv);
				cmp_parity("raid_gen", modec, r, nd, b, kk, par);
			}
			for (k = 0; k < NGENVAR; ++k) {
				const struct genvar *g = &genvars[k];

				if ((g->np > 2 && g->mode != (modec == 'z')) || g->np > np || !cpu_has(g->need))
					continue;
				for (l = 0; l < NPMAX; ++l)
					memset(rv[nd + l], 0x5A, b);
				g->f(nd, b, rv);
				cmp_parity(g->name, modec, r, nd, b, g->np, par);
			}
			n_items += np;
			++nR;
			if (n_samples < 4 && nd == 5 && b == 64) {
				char ph[2 * 64 + 1];

				hex(ph, par + (np - 1) * b, 64);
				printf("SAMPLE {\"kind\":\"parity\",\"mode\":\"%c\",\"set\":%d,\"nd\":%d,\"block\":%d,\"last_level\":\"%s\"}\n",
					modec, r, nd, b, ph);
				++n_samples;
			}
		} else {
			die("unknown line: %.40s", line);
		}
	}
	fclose(f);
	printf("STAT digest_lines %ld\n", nD);
	printf("STAT parity_lines %ld\n", nR);
	printf("STAT reference_items %ld\n", n_items);
	printf("STAT comparisons %ld\n", n_cmp);
	printf("STAT failures %ld\n", n_fail);
	for (k = 0; k < NFAM && fam[k].name[0]; ++k)
		printf("FAMILY %s %ld\n", fam[k].name, fam[k].n);
	printf("STAT crc_x86 %d\n", x86);
	printf("DONE\n");
	return 0;
}

static int do_hash(int kind, const char *seedhex, const char *path)
{
	unsigned char seed[16], dg[16];
	char hx[33];
	FILE *f = fopen(path, "rb");
	unsigned char *buf = malloc_nofail_align(1 << 20, &(void *){ 0 });
	size_t n;

	if (!f || unhex(seedhex, seed, 16) != 0)
		die("bad args");
	n = fread(buf, 1, 1 << 20, f);
	fclose(f);
	memhash(kind, seed, dg, buf, n);
	hex(hx, dg, 16);
	printf("%s\n", hx);
	return 0;
}

int main(int argc, char **argv)
{
	setvbuf(stdout, 0, _IOLBF, 0);
	raid_init();
	crc32c_init();
	if (argc == 3 && strcmp(argv[1], "gen") == 0)
		return do_gen(argv[2]);
	if (argc == 3 && strcmp(argv[1], "check") == 0)
		return do_check(argv[2]);
	if (argc == 5 && strcmp(argv[1], "hash") == 0)
		return do_hash(atoi(argv[2]), argv[3], argv[4]);
	die("usage: golden_conf gen|check <vectors.txt> | hash <kind> <seedhex> <file>");
	return 2;
}
