/*
 * C18 conformance harness: executes every case emitted by TLC from spec/Filter.tla against the
 * real filter functions of the implementation (objects rebuilt from the repository's working tree).
 *
 * usage: filter_conf CASES.ndjson [SHARD NSHARDS]
 *        filter_conf --probe NOHIDDEN PATH [include|exclude PATTERN]...
 *
 * Input (written by TLC):
 *   one header line  {"names":[..],"patterns":[..],"small":[..],"paths":[..],"content":[..],"select":[..]}
 *   one line per rule list  {"r":[rule numbers],"h":0|1,"v":[code per path]}
 *     rule number r: pattern (r-1)/2 (0-based), include if r is odd, exclude if even
 *     code bits: 1 FlatFile  2 EnterDir  4 SelectDir  8 TreeFile  16 TreeDir
 *
 * What is called for each kind of entry is what cmdline/scan.c (scan_sub) and cmdline/state.c
 * (state_filter) call for that kind:
 *   file, link     filter_path()                       (scan.c REG and LNK branches, state_filter)
 *   directory      filter_subdir()                     (scan.c DIR branch)
 *   empty dir      filter_emptydir()                   (state_filter)
 *   every entry    filter_hidden(), filter_content()   (scan.c, before the type is known)
 * and the walk enters a directory only if filter_subdir() accepted it, exactly like scan_sub().
 *
 * Output: lines "MISMATCH {json}" (at most MAXREPORT) and a last line "SUMMARY {json}".
 * Exit code 0 = ran to the end (mismatches or not), 2 = cannot parse / tool problem.
 */
#include "portable.h"

#include "elem.h"
#include "support.h"
#include "util.h"

#define MAXREPORT 40
#define DISKDIR "/array/d1/"
#define DISKNAME "d1"

/* ------------------------------------------------------------------------------------- */
/* minimal JSON reader */

enum jt { J_NULL, J_BOOL, J_NUM, J_STR, J_ARR, J_OBJ };
struct jv {
	enum jt t;
	long num;
	char* str;
	struct jv** item; /* array items or object values */
	char** key; /* object keys */
	int n;
};

static const char* jp;
static void jfail(const char* what)
{
	fprintf(stderr, "filter_conf: JSON parse error: %s near '%.40s'\n", what, jp);
	exit(2);
}
static void jws(void)
{
	while (*jp == ' ' || *jp == '\t' || *jp == '\n' || *jp == '\r')
		++jp;
}
static char* jstring(void)
{
	char* out;
	size_t n = 0;
	if (*jp != '"')
		jfail("string expected");
	++jp;
	out = malloc(strlen(jp) + 1);
	while (*jp != '"') {
		if (*jp == 0)
			jfail("unterminated string");
		if (*jp == '\\') {
			++jp;
			switch (*jp) {
			case 'n' : out[n++] = '\n'; break;
			case 't' : out[n++] = '\t'; break;
			case 'r' : out[n++] = '\r'; break;
			case 'b' : out[n++] = '\b'; break;
			case 'f' : out[n++] = '\f'; break;
			case 'u' : {
				unsigned v = 0;
				int k;
				for (k = 1; k <= 4; ++k) {
					char c = jp[k];
					v = v * 16 + (c >= 'a' ? c - 'a' + 10 : c >= 'A' ? c - 'A' + 10 : c - '0');
				}
				if (v > 127)
					jfail("non ascii escape");
				out[n++] = (char)v;
				jp += 4;
			} break;
			default : out[n++] = *jp; break; /* \" \\ \/ */
			}
			++jp;
		} else {
			out[n++] = *jp++;
		}
	}
	++jp;
	out[n] = 0;
	return out;
}
static struct jv* jvalue(void)
{
	struct jv* v = calloc(1, sizeof(*v));
	int cap = 0;
	jws();
	if (*jp == '{' || *jp == '[') {
		int obj = *jp == '{';
		char close = obj ? '}' : ']';
		v->t = obj ? J_OBJ : J_ARR;
		++jp;
		jws();
		while (*jp != close) {
			if (v->n == cap) {
				cap = cap ? cap * 2 : 8;
				v->item = realloc(v->item, cap * sizeof(*v->item));
				if (obj)
					v->key = realloc(v->key, cap * sizeof(*v->key));
			}
			if (obj) {
				jws();
				v->key[v->n] = jstring();
				jws();
				if (*jp != ':')
					jfail("colon expected");
				++jp;
			}
			v->item[v->n] = jvalue();
			++v->n;
			jws();
			if (*jp == ',') {
				++jp;
				jws();
			} else if (*jp != close) {
				jfail("comma expected");
			}
		}
		++jp;
	} else if (*jp == '"') {
		v->t = J_STR;
		v->str = jstring();
	} else if (strncmp(jp, "true", 4) == 0) {
		v->t = J_BOOL; v->num = 1; jp += 4;
	} else if (strncmp(jp, "false", 5) == 0) {
		v->t = J_BOOL; v->num = 0; jp += 5;
	} else if (strncmp(jp, "null", 4) == 0) {
		v->t = J_NULL; jp += 4;
	} else if (*jp == '-' || (*jp >= '0' && *jp <= '9')) {
		char* e;
		v->t = J_NUM;
		v->num = strtol(jp, &e, 10);
		jp = e;
	} else {
		jfail("value expected");
	}
	return v;
}
static void jfree(struct jv* v)
{
	int i;
	for (i = 0; i < v->n; ++i) {
		jfree(v->item[i]);
		if (v->key)
			free(v->key[i]);
	}
	free(v->item);
	free(v->key);
	free(v->str);
	free(v);
}
static struct jv* jget(struct jv* o, const char* key)
{
	int i;
	if (o->t != J_OBJ)
		return 0;
	for (i = 0; i < o->n; ++i)
		if (strcmp(o->key[i], key) == 0)
			return o->item[i];
	return 0;
}
static struct jv* jneed(struct jv* o, const char* key, enum jt t)
{
	struct jv* v = jget(o, key);
	if (!v || v->t != t) {
		fprintf(stderr, "filter_conf: missing or mistyped key '%s'\n", key);
		exit(2);
	}
	return v;
}
static void jprint_str(FILE* f, const char* s)
{
	fputc('"', f);
	for (; *s; ++s) {
		if (*s == '"' || *s == '\\')
			fputc('\\', f);
		fputc(*s, f);
	}
	fputc('"', f);
}

/* ------------------------------------------------------------------------------------- */
/* universe from the header */

static int npat;
static char** pattern;
static int npath;
static char** path; /* relative to the disk root, no leading slash */
static int* parent; /* index of the parent directory path, -1 at top level */
static char** lastname; /* last component */

static unsigned long n_lines, n_cases, n_mismatch, n_calls, n_ambiguous;

/* defined by bundled_fnmatch.c when the harness is linked against the repository's own fnmatch.c */
extern unsigned long c18_bundled_fnmatch_calls __attribute__((weak));

struct kindname {
	int bit;
	const char* name;
};

static void report(struct jv* r, int h, int e, const char* kind, const char* fn, int expected, int got)
{
	int i;
	++n_mismatch;
	if (n_mismatch > MAXREPORT)
		return;
	printf("MISMATCH {\"rules\":[");
	for (i = 0; i < r->n; ++i) {
		long rr = r->item[i]->num;
		if (i)
			printf(",");
		printf("[\"%s\",", (rr % 2) ? "include" : "exclude");
		jprint_str(stdout, pattern[(rr - 1) / 2]);
		printf("]");
	}
	printf("],\"nohidden\":%d,\"path\":", h);
	jprint_str(stdout, path[e]);
	printf(",\"kind\":\"%s\",\"call\":\"%s\",\"model_included\":%s,\"impl_included\":%s}\n", kind, fn,
		expected ? "true" : "false", got ? "true" : "false");
}

/* ------------------------------------------------------------------------------------- */
/* the walk of scan_sub() over the universe: every path is tried as a file, a link and a directory */

static tommy_list filterlist;
static tommy_list contentlist;
static int opt_hidden;
static unsigned char* got_treefile;
static unsigned char* got_treelink;
static unsigned char* got_treedir;
static int** children;
static int* nchildren;
static int* top;
static int ntop;

static void walk(const int* kids, int nkids)
{
	int k;
	for (k = 0; k < nkids; ++k) {
		int e = kids[k];
		struct dirent dd;
		char path_next[PATH_MAX];
		struct snapraid_filter* reason = 0;

		memset(&dd, 0, sizeof(dd));
		snprintf(dd.d_name, sizeof(dd.d_name), "%s", lastname[e]);
		snprintf(path_next, sizeof(path_next), "%s%s", DISKDIR, path[e]);

		/* exclude hidden files even before calling lstat() */
		++n_calls;
		if (filter_hidden(opt_hidden, &dd) != 0)
			continue;

		/* exclude content files even before calling lstat() */
		++n_calls;
		if (filter_content(&contentlist, path_next) != 0)
			continue;

		/* REG */
		++n_calls;
		if (filter_path(&filterlist, &reason, DISKNAME, path[e]) == 0)
			got_treefile[e] = 1;
		/* LNK */
		++n_calls;
		if (filter_path(&filterlist, &reason, DISKNAME, path[e]) == 0)
			got_treelink[e] = 1;
		/* DIR */
		++n_calls;
		if (filter_subdir(&filterlist, &reason, DISKNAME, path[e]) == 0) {
			got_treedir[e] = 1;
			walk(children[e], nchildren[e]);
		}
	}
}

static void run_case(struct jv* line)
{
	struct jv* r = jneed(line, "r", J_ARR);
	struct jv* v = jneed(line, "v", J_ARR);
	int h = (int)jneed(line, "h", J_NUM)->num;
	int i, e;
	tommy_node* n;

	if (v->n != npath) {
		fprintf(stderr, "filter_conf: verdict vector of %d entries, %d paths\n", v->n, npath);
		exit(2);
	}

	/* the rule list, built as state_config() and the -f option do */
	tommy_list_init(&filterlist);
	for (i = 0; i < r->n; ++i) {
		long rr = r->item[i]->num;
		struct snapraid_filter* filter;
		if (rr < 1 || rr > 2 * npat) {
			fprintf(stderr, "filter_conf: rule number out of range\n");
			exit(2);
		}
		filter = filter_alloc_file((rr % 2) ? 1 : -1, pattern[(rr - 1) / 2]);
		if (!filter) {
			/* a documented pattern form refused by the implementation */
			report(r, h, 0, "pattern", "filter_alloc_file", 1, 0);
			goto bail;
		}
		tommy_list_insert_tail(&filterlist, &filter->node, filter);
	}

	opt_hidden = h;
	memset(got_treefile, 0, npath);
	memset(got_treelink, 0, npath);
	memset(got_treedir, 0, npath);
	walk(top, ntop);

	for (e = 0; e < npath; ++e) {
		int code = (int)v->item[e]->num;
		struct snapraid_filter* reason = 0;
		int got;

		/* file and link judged directly, as state_filter() does with -f (and scan for a top level entry) */
		got = filter_path(&filterlist, &reason, DISKNAME, path[e]) == 0;
		++n_calls; ++n_cases;
		if (got != ((code & 1) != 0))
			report(r, h, e, "file", "filter_path", (code & 1) != 0, got);
		got = filter_path(&filterlist, 0, DISKNAME, path[e]) == 0;
		++n_calls; ++n_cases;
		if (got != ((code & 1) != 0))
			report(r, h, e, "link", "filter_path", (code & 1) != 0, got);

		/* directory met by the scan */
		got = filter_subdir(&filterlist, &reason, DISKNAME, path[e]) == 0;
		++n_calls; ++n_cases;
		if (got != ((code & 2) != 0))
			report(r, h, e, "dir", "filter_subdir", (code & 2) != 0, got);

		/* empty directory under the selection of check/fix */
		got = filter_emptydir(&filterlist, 0, DISKNAME, path[e]) == 0;
		++n_calls; ++n_cases;
		if (got != ((code & 4) != 0))
			report(r, h, e, "emptydir", "filter_emptydir", (code & 4) != 0, got);

		/* files for which the literal reading of the manual and the walk differ (reported, see Filter.tla) */
		if (!h && (code & 1) && !(code & 8))
			++n_ambiguous;

		/* what the walk of the scan takes */
		++n_cases;
		if (got_treefile[e] != ((code & 8) != 0))
			report(r, h, e, "file", "scan walk", (code & 8) != 0, got_treefile[e]);
		++n_cases;
		if (got_treelink[e] != ((code & 8) != 0))
			report(r, h, e, "link", "scan walk", (code & 8) != 0, got_treelink[e]);
		++n_cases;
		if (got_treedir[e] != ((code & 16) != 0))
			report(r, h, e, "dir", "scan walk", (code & 16) != 0, got_treedir[e]);
	}

bail:
	for (n = tommy_list_head(&filterlist); n != 0;) {
		tommy_node* next = n->next;
		filter_free(n->data);
		n = next;
	}
}

/* the tool's own files: filter_content() as called by scan_sub() with the absolute path */
static void run_content(struct jv* hdr)
{
	struct jv* cc = jneed(hdr, "content", J_ARR);
	int i, j;
	for (i = 0; i < cc->n; ++i) {
		struct jv* c = cc->item[i];
		struct jv* set = jneed(c, "contents", J_ARR);
		const char* probe = jneed(c, "path", J_STR)->str;
		int own = (int)jneed(c, "own", J_BOOL)->num;
		char abs[PATH_MAX];
		tommy_list list;
		tommy_node* n;
		int got;

		tommy_list_init(&list);
		for (j = 0; j < set->n; ++j) {
			struct snapraid_content* content;
			snprintf(abs, sizeof(abs), "%s%s", DISKDIR, set->item[j]->str);
			content = content_alloc(abs, 1);
			tommy_list_insert_tail(&list, &content->node, content);
		}
		snprintf(abs, sizeof(abs), "%s%s", DISKDIR, probe);
		got = filter_content(&list, abs) != 0;
		++n_calls; ++n_cases;
		if (got != own) {
			++n_mismatch;
			if (n_mismatch <= MAXREPORT) {
				printf("MISMATCH {\"contents\":[");
				for (j = 0; j < set->n; ++j) {
					if (j)
						printf(",");
					jprint_str(stdout, set->item[j]->str);
				}
				printf("],\"path\":");
				jprint_str(stdout, probe);
				printf(",\"kind\":\"own file\",\"call\":\"filter_content\",\"model_excluded\":%s,\"impl_excluded\":%s}\n",
					own ? "true" : "false", got ? "true" : "false");
			}
		}
		for (n = tommy_list_head(&list); n != 0;) {
			tommy_node* next = n->next;
			content_free(n->data);
			n = next;
		}
	}
}

static void setup(struct jv* hdr)
{
	struct jv* pp = jneed(hdr, "patterns", J_ARR);
	struct jv* pa = jneed(hdr, "paths", J_ARR);
	int i, j;

	npat = pp->n;
	pattern = malloc(npat * sizeof(char*));
	for (i = 0; i < npat; ++i)
		pattern[i] = strdup(pp->item[i]->str);

	npath = pa->n;
	path = malloc(npath * sizeof(char*));
	parent = malloc(npath * sizeof(int));
	lastname = malloc(npath * sizeof(char*));
	children = calloc(npath, sizeof(int*));
	nchildren = calloc(npath, sizeof(int));
	top = malloc(npath * sizeof(int));
	got_treefile = malloc(npath);
	got_treelink = malloc(npath);
	got_treedir = malloc(npath);
	for (i = 0; i < npath; ++i)
		path[i] = strdup(pa->item[i]->str);
	for (i = 0; i < npath; ++i) {
		char* slash = strrchr(path[i], '/');
		parent[i] = -1;
		lastname[i] = slash ? slash + 1 : path[i];
		if (slash) {
			size_t len = slash - path[i];
			for (j = 0; j < npath; ++j)
				if (strlen(path[j]) == len && memcmp(path[j], path[i], len) == 0)
					parent[i] = j;
			if (parent[i] < 0) {
				fprintf(stderr, "filter_conf: path '%s' has no parent in the universe\n", path[i]);
				exit(2);
			}
		}
	}
	for (i = 0; i < npath; ++i) {
		if (parent[i] < 0) {
			top[ntop++] = i;
		} else {
			int p = parent[i];
			children[p] = realloc(children[p], (nchildren[p] + 1) * sizeof(int));
			children[p][nchildren[p]++] = i;
		}
	}

	/* the content files of the walk: one on the disk root (no path of the universe has this name) */
	tommy_list_init(&contentlist);
	{
		struct snapraid_content* content = content_alloc(DISKDIR "content", 1);
		tommy_list_insert_tail(&contentlist, &content->node, content);
	}
}

/*
 * filter_conf --probe NOHIDDEN PATH [include|exclude PATTERN]...
 * prints what the implementation answers for one path (used by the replay of a recorded mismatch)
 */
static int probe(int argc, char* argv[])
{
	tommy_list list;
	struct snapraid_filter* reason = 0;
	int h = atoi(argv[2]);
	const char* sub = argv[3];
	char prefix[PATH_MAX];
	int i, reached = 1;
	size_t k;

	tommy_list_init(&list);
	tommy_list_init(&contentlist);
	for (i = 4; i + 1 < argc; i += 2) {
		struct snapraid_filter* filter = filter_alloc_file(strcmp(argv[i], "include") == 0 ? 1 : -1, argv[i + 1]);
		if (!filter) {
			printf("{\"rejected_pattern\":\"%s\"}\n", argv[i + 1]);
			return 0;
		}
		tommy_list_insert_tail(&list, &filter->node, filter);
	}
	/* the walk down to the entry, as scan_sub() */
	for (k = 0; reached; ++k) {
		if (sub[k] == '/' || sub[k] == 0) {
			struct dirent dd;
			const char* slash;
			memcpy(prefix, sub, k);
			prefix[k] = 0;
			slash = strrchr(prefix, '/');
			memset(&dd, 0, sizeof(dd));
			snprintf(dd.d_name, sizeof(dd.d_name), "%s", slash ? slash + 1 : prefix);
			if (filter_hidden(h, &dd) != 0)
				reached = 0;
			else if (sub[k] == '/' && filter_subdir(&list, &reason, DISKNAME, prefix) != 0)
				reached = 0;
			if (sub[k] == 0)
				break;
		}
	}
	printf("{\"file\":%s,\"dir\":%s,\"emptydir\":%s,\"walk_file\":%s,\"walk_dir\":%s}\n",
		filter_path(&list, &reason, DISKNAME, sub) == 0 ? "true" : "false",
		filter_subdir(&list, &reason, DISKNAME, sub) == 0 ? "true" : "false",
		filter_emptydir(&list, &reason, DISKNAME, sub) == 0 ? "true" : "false",
		reached && filter_path(&list, &reason, DISKNAME, sub) == 0 ? "true" : "false",
		reached && filter_subdir(&list, &reason, DISKNAME, sub) == 0 ? "true" : "false");
	return 0;
}

int main(int argc, char* argv[])
{
	FILE* f;
	char* buf = 0;
	size_t cap = 0;
	ssize_t len;
	unsigned long shard = 0, nshards = 1, idx = 0;
	int have_header = 0;

	if (argc >= 4 && strcmp(argv[1], "--probe") == 0)
		return probe(argc, argv);

	if (argc != 2 && argc != 4) {
		fprintf(stderr, "usage: filter_conf CASES.ndjson [SHARD NSHARDS]\n");
		return 2;
	}
	if (argc == 4) {
		shard = strtoul(argv[2], 0, 10);
		nshards = strtoul(argv[3], 0, 10);
		if (nshards == 0 || shard >= nshards)
			return 2;
	}
	f = fopen(argv[1], "r");
	if (!f) {
		perror(argv[1]);
		return 2;
	}

	/* first pass: the header may be anywhere (TLC writes it first, but do not depend on it) */
	while ((len = getline(&buf, &cap, f)) >= 0) {
		if (strstr(buf, "\"patterns\"") != 0) {
			struct jv* hdr;
			jp = buf;
			hdr = jvalue();
			setup(hdr);
			if (shard == 0)
				run_content(hdr);
			jfree(hdr);
			have_header = 1;
			break;
		}
	}
	if (!have_header) {
		fprintf(stderr, "filter_conf: no header line\n");
		return 2;
	}
	rewind(f);

	while ((len = getline(&buf, &cap, f)) >= 0) {
		struct jv* line;
		if (len <= 1)
			continue;
		if (strstr(buf, "\"patterns\"") != 0)
			continue;
		++idx;
		if ((idx - 1) % nshards != shard)
			continue;
		jp = buf;
		line = jvalue();
		run_case(line);
		jfree(line);
		++n_lines;
	}
	fclose(f);

	printf("SUMMARY {\"lines\":%lu,\"cases\":%lu,\"calls\":%lu,\"mismatches\":%lu,\"ambiguous\":%lu,\"patterns\":%d,\"paths\":%d,\"bundled_fnmatch_calls\":%ld}\n",
		n_lines, n_cases, n_calls, n_mismatch, n_ambiguous, npat, npath,
		&c18_bundled_fnmatch_calls ? (long)c18_bundled_fnmatch_calls : -1L);
	return 0;
}
