/*
 * raid_conf.c - conformance harness for properties C02 and C03, linked against the objects of the
 * current working tree of the repository (raid_*.o built by harness/build.sh).
 *
 * The ONLY oracle is the witness blob (exp, log, inv, mul, cauchy 6x251, power 3x251) that TLC has checked
 * against spec/GF256.tla and spec/RaidCode.tla; nothing of raid/tables.c is used to form an expectation.
 *
 *   raid_conf tables  <witness.bin>
 *   raid_conf gen     <witness.bin> <quick|thorough> <seed> <shard> <nshards>
 *   raid_conf rec     <witness.bin> <cases.txt> <quick|thorough> <seed> <shard> <nshards> [vectors.txt]
 *   raid_conf minors  <witness.bin> <lead_cols> <full_maxk> <shard> <nshards>
 *
 * Output protocol (stdout, one record per line):
 *   FAIL <kind> <free text with all parameters needed to replay>
 *   SAMPLE <text>          a few cases written out for the evidence file
 *   STAT <key> <integer>
 *   SKIP <variant> <reason>
 *   DONE                   last line of a complete run
 * Exit code 0 = ran to completion (FAIL lines decide the verdict), 3 = the code under test crashed
 * (a FAIL crash line has been written), anything else = harness problem.
 */
#define _GNU_SOURCE
#include <stdio.h>
#include <stdarg.h>
#include <signal.h>
#include <unistd.h>

#include "raid/internal.h"
#ifdef CONFIG_X86
#include "raid/cpu.h"
#endif

/* ------------------------------------------------------------------------------------------------- */
/* witness */

#define ND_MAX 251
#define NP_MAX 6

static struct {
	uint8_t exp[256], log[256], inv[256];
	uint8_t mul[256][256];
	uint8_t cauchy[NP_MAX][ND_MAX];
	uint8_t power[3][ND_MAX];
} W;

static void die(const char *fmt, ...)
{
	va_list ap;

	va_start(ap, fmt);
	fprintf(stderr, "raid_conf: ");
	vfprintf(stderr, fmt, ap);
	fprintf(stderr, "\n");
	va_end(ap);
	exit(2);
}

static void load_witness(const char *path)
{
	FILE *f = fopen(path, "rb");
	char magic[4];

	if (!f)
		die("cannot open %s", path);
	if (fread(magic, 1, 4, f) != 4 || memcmp(magic, "GFW1", 4) != 0)
		die("bad witness magic");
	if (fread(W.exp, 1, 256, f) != 256 || fread(W.log, 1, 256, f) != 256 || fread(W.inv, 1, 256, f) != 256
		|| fread(W.mul, 1, 65536, f) != 65536
		|| fread(W.cauchy, 1, NP_MAX * ND_MAX, f) != NP_MAX * ND_MAX
		|| fread(W.power, 1, 3 * ND_MAX, f) != 3 * ND_MAX)
		die("short witness");
	if (fgetc(f) != EOF)
		die("long witness");
	fclose(f);
}

/* coefficient of the documented matrix: mode 0 = Cauchy, 1 = power ("vandermonde", z) */
static inline uint8_t Aw(int mode, int p, int d)
{
	return mode ? W.power[p][d] : W.cauchy[p][d];
}

/* ------------------------------------------------------------------------------------------------- */
/* reporting */

static long n_fail;
static long fail_print_limit = 25;
static char ctx[1024]; /* what is being executed right now (for the crash handler) */

static void fail(const char *kind, const char *fmt, ...)
{
	va_list ap;

	++n_fail;
	if (n_fail > fail_print_limit)
		return;
	va_start(ap, fmt);
	printf("FAIL %s ", kind);
	vprintf(fmt, ap);
	printf("\n");
	va_end(ap);
	fflush(stdout);
}

static void on_crash(int sig)
{
	char buf[1400];
	int n;

	n = snprintf(buf, sizeof(buf), "FAIL crash signal=%d while %s\n", sig, ctx);
	if (n > 0) {
		ssize_t r = write(1, buf, (size_t)n);
		(void)r;
	}
	_exit(3);
}

static void install_crash_handler(void)
{
	static char altstack[65536];
	stack_t ss;
	struct sigaction sa;
	int sigs[] = { SIGSEGV, SIGBUS, SIGILL, SIGFPE, SIGABRT };
	unsigned i;

	ss.ss_sp = altstack;
	ss.ss_size = sizeof(altstack);
	ss.ss_flags = 0;
	sigaltstack(&ss, 0);
	memset(&sa, 0, sizeof(sa));
	sa.sa_handler = on_crash;
	sa.sa_flags = SA_ONSTACK | SA_RESETHAND;
	for (i = 0; i < sizeof(sigs) / sizeof(sigs[0]); ++i)
		sigaction(sigs[i], &sa, 0);
}

/* distinct-case accounting: every executed case contributes a 64 bit key; unique keys are counted at the end */
static uint64_t *keys;
static size_t nkeys, capkeys;

static inline uint64_t mix64(uint64_t x)
{
	x ^= x >> 30; x *= 0xbf58476d1ce4e5b9ULL;
	x ^= x >> 27; x *= 0x94d049bb133111ebULL;
	x ^= x >> 31;
	return x;
}

static void key_add(uint64_t k)
{
	if (nkeys == capkeys) {
		capkeys = capkeys ? capkeys * 2 : 1 << 16;
		keys = realloc(keys, capkeys * sizeof(uint64_t));
		if (!keys)
			die("out of memory");
	}
	keys[nkeys++] = k;
}

static int cmp_u64(const void *a, const void *b)
{
	uint64_t x = *(const uint64_t *)a, y = *(const uint64_t *)b;

	return x < y ? -1 : x > y;
}

static long keys_distinct(void)
{
	size_t i;
	long n = 0;

	if (!nkeys)
		return 0;
	qsort(keys, nkeys, sizeof(uint64_t), cmp_u64);
	for (i = 0; i < nkeys; ++i)
		if (i == 0 || keys[i] != keys[i - 1])
			++n;
	return n;
}

/* ------------------------------------------------------------------------------------------------- */
/* random bytes (own generator, seeded from VERIF_SEED through argv) */

static uint64_t rng_s;

static inline uint64_t rng_next(void)
{
	rng_s += 0x9e3779b97f4a7c15ULL;
	return mix64(rng_s);
}

static void rng_fill(uint8_t *p, size_t n)
{
	size_t i;

	for (i = 0; i + 8 <= n; i += 8) {
		uint64_t r = rng_next();

		memcpy(p + i, &r, 8);
	}
	for (; i < n; ++i)
		p[i] = (uint8_t)rng_next();
}

/* ------------------------------------------------------------------------------------------------- */
/* arena: nb blocks of bsize bytes, 256-aligned, separated by guard zones that are checked after every call */

#define GUARD 256

struct arena {
	uint8_t *raw, *base;
	int nb;
	size_t bsize, slot;
};

static uint8_t guard_pat[GUARD];

static void arena_init(struct arena *a, int nb, size_t bsize)
{
	size_t total;
	int i;

	if (bsize % 256)
		bsize += 256 - bsize % 256;
	a->nb = nb;
	a->bsize = bsize;
	a->slot = GUARD + bsize;
	total = a->slot * nb + GUARD + 256;
	a->raw = malloc(total);
	if (!a->raw)
		die("out of memory");
	a->base = __align_ptr(a->raw, 256);
	for (i = 0; i < GUARD; ++i)
		guard_pat[i] = (uint8_t)(0xC3 ^ (i * 7));
	for (i = 0; i <= nb; ++i)
		memcpy(a->base + a->slot * i, guard_pat, GUARD);
}

static inline uint8_t *arena_block(struct arena *a, int i)
{
	return a->base + a->slot * i + GUARD;
}

/*
 * Guards around blocks 0..nb-1 for a block length of 'size' (size <= bsize): the zone before each block,
 * the zone behind the last, and the unused tail size..bsize of every block which is kept at the tail pattern.
 */
static void arena_tail_set(struct arena *a, size_t size)
{
	int i;

	for (i = 0; i < a->nb; ++i)
		if (size < a->bsize)
			memset(arena_block(a, i) + size, 0xE7, a->bsize - size);
}

static int arena_check(struct arena *a, size_t size)
{
	int i;
	size_t k;

	for (i = 0; i <= a->nb; ++i)
		if (memcmp(a->base + a->slot * i, guard_pat, GUARD) != 0)
			return i + 1;
	if (size < a->bsize) {
		size_t n = a->bsize - size;

		if (n > 256)
			n = 256; /* the first 256 bytes behind the block are enough to see an overrun */
		for (i = 0; i < a->nb; ++i) {
			const uint8_t *t = arena_block(a, i) + size;

			for (k = 0; k < n; ++k)
				if (t[k] != 0xE7)
					return 1000 + i;
		}
	}
	return 0;
}

/* after a detected overrun: repaint guards and tails so that later cases are judged on their own */
static void arena_repair(struct arena *a, size_t size)
{
	int i;

	for (i = 0; i <= a->nb; ++i)
		memcpy(a->base + a->slot * i, guard_pat, GUARD);
	arena_tail_set(a, size);
}

static void arena_free(struct arena *a)
{
	free(a->raw);
}

/* ------------------------------------------------------------------------------------------------- */
/* CPU features (from raid/cpu.h, so a missing feature skips, never fails) */

enum { NEED_NONE, NEED_SSE2, NEED_SSSE3, NEED_AVX2 };

static int cpu_ok(int need)
{
#ifdef CONFIG_X86
	switch (need) {
	case NEED_NONE: return 1;
#ifdef CONFIG_SSE2
	case NEED_SSE2: return raid_cpu_has_sse2();
#endif
#ifdef CONFIG_SSSE3
	case NEED_SSSE3: return raid_cpu_has_ssse3();
#endif
#ifdef CONFIG_AVX2
	case NEED_AVX2: return raid_cpu_has_avx2();
#endif
	}
	return 0;
#else
	return need == NEED_NONE;
#endif
}

static const char *need_name(int need)
{
	static const char *n[] = { "none", "sse2", "ssse3", "avx2" };

	return n[need];
}

/* ------------------------------------------------------------------------------------------------- */
/* tables of raid/tables.c against the witness (C02 part 1) */

static long n_table_entries;

static void do_tables(void)
{
	int a, b, p, d, k;

	for (a = 0; a < 256; ++a)
		for (b = 0; b < 256; ++b) {
			++n_table_entries;
			if (raid_gfmul[a][b] != W.mul[a][b])
				fail("table", "raid_gfmul[%d][%d]=0x%02x expected 0x%02x", a, b, raid_gfmul[a][b], W.mul[a][b]);
		}
	for (a = 0; a < 256; ++a) {
		++n_table_entries;
		if (raid_gfexp[a] != W.exp[a])
			fail("table", "raid_gfexp[%d]=0x%02x expected 0x%02x", a, raid_gfexp[a], W.exp[a]);
	}
	for (a = 0; a < 256; ++a) {
		++n_table_entries;
		if (raid_gfinv[a] != W.inv[a])
			fail("table", "raid_gfinv[%d]=0x%02x expected 0x%02x", a, raid_gfinv[a], W.inv[a]);
	}
	for (p = 0; p < 3; ++p)
		for (d = 0; d < ND_MAX; ++d) {
			++n_table_entries;
			if (raid_gfvandermonde[p][d] != W.power[p][d])
				fail("table", "raid_gfvandermonde[%d][%d]=0x%02x expected 0x%02x", p, d,
					raid_gfvandermonde[p][d], W.power[p][d]);
		}
	for (p = 0; p < NP_MAX; ++p)
		for (d = 0; d < ND_MAX; ++d) {
			++n_table_entries;
			if (raid_gfcauchy[p][d] != W.cauchy[p][d])
				fail("table", "raid_gfcauchy[%d][%d]=0x%02x expected 0x%02x", p, d,
					raid_gfcauchy[p][d], W.cauchy[p][d]);
		}
#ifdef CONFIG_X86
	/* pshufb tables: [d][p-2][0][k] = A[p][d]*k, [d][p-2][1][k] = A[p][d]*(k<<4) */
	for (d = 0; d < ND_MAX; ++d)
		for (p = 2; p < NP_MAX; ++p)
			for (k = 0; k < 16; ++k) {
				uint8_t lo = W.mul[W.cauchy[p][d]][k];
				uint8_t hi = W.mul[W.cauchy[p][d]][k << 4];

				n_table_entries += 2;
				if (raid_gfcauchypshufb[d][p - 2][0][k] != lo)
					fail("table", "raid_gfcauchypshufb[%d][%d][0][%d]=0x%02x expected 0x%02x", d, p - 2, k,
						raid_gfcauchypshufb[d][p - 2][0][k], lo);
				if (raid_gfcauchypshufb[d][p - 2][1][k] != hi)
					fail("table", "raid_gfcauchypshufb[%d][%d][1][%d]=0x%02x expected 0x%02x", d, p - 2, k,
						raid_gfcauchypshufb[d][p - 2][1][k], hi);
			}
	for (a = 0; a < 256; ++a)
		for (k = 0; k < 16; ++k) {
			n_table_entries += 2;
			if (raid_gfmulpshufb[a][0][k] != W.mul[a][k])
				fail("table", "raid_gfmulpshufb[%d][0][%d]=0x%02x expected 0x%02x", a, k,
					raid_gfmulpshufb[a][0][k], W.mul[a][k]);
			if (raid_gfmulpshufb[a][1][k] != W.mul[a][k << 4])
				fail("table", "raid_gfmulpshufb[%d][1][%d]=0x%02x expected 0x%02x", a, k,
					raid_gfmulpshufb[a][1][k], W.mul[a][k << 4]);
		}
#endif
	printf("STAT table_entries %ld\n", n_table_entries);
}

/* ------------------------------------------------------------------------------------------------- */
/* generator variants (C02 part 2) */

typedef void gen_f(int nd, size_t size, void **vv);

struct genvar {
	const char *name;
	gen_f *f;
	int np;
	int mode; /* 0 Cauchy rows, 1 power rows */
	int need;
};

static const struct genvar genvars[] = {
	{ "gen1_int32", raid_gen1_int32, 1, 0, NEED_NONE },
	{ "gen1_int64", raid_gen1_int64, 1, 0, NEED_NONE },
	{ "gen2_int32", raid_gen2_int32, 2, 0, NEED_NONE },
	{ "gen2_int64", raid_gen2_int64, 2, 0, NEED_NONE },
	{ "genz_int32", raid_genz_int32, 3, 1, NEED_NONE },
	{ "genz_int64", raid_genz_int64, 3, 1, NEED_NONE },
	{ "gen3_int8", raid_gen3_int8, 3, 0, NEED_NONE },
	{ "gen4_int8", raid_gen4_int8, 4, 0, NEED_NONE },
	{ "gen5_int8", raid_gen5_int8, 5, 0, NEED_NONE },
	{ "gen6_int8", raid_gen6_int8, 6, 0, NEED_NONE },
#ifdef CONFIG_X86
#ifdef CONFIG_SSE2
	{ "gen1_sse2", raid_gen1_sse2, 1, 0, NEED_SSE2 },
	{ "gen2_sse2", raid_gen2_sse2, 2, 0, NEED_SSE2 },
	{ "genz_sse2", raid_genz_sse2, 3, 1, NEED_SSE2 },
#ifdef CONFIG_X86_64
	{ "gen2_sse2ext", raid_gen2_sse2ext, 2, 0, NEED_SSE2 },
	{ "genz_sse2ext", raid_genz_sse2ext, 3, 1, NEED_SSE2 },
#endif
#endif
#ifdef CONFIG_SSSE3
	{ "gen3_ssse3", raid_gen3_ssse3, 3, 0, NEED_SSSE3 },
	{ "gen4_ssse3", raid_gen4_ssse3, 4, 0, NEED_SSSE3 },
	{ "gen5_ssse3", raid_gen5_ssse3, 5, 0, NEED_SSSE3 },
	{ "gen6_ssse3", raid_gen6_ssse3, 6, 0, NEED_SSSE3 },
#ifdef CONFIG_X86_64
	{ "gen3_ssse3ext", raid_gen3_ssse3ext, 3, 0, NEED_SSSE3 },
	{ "gen4_ssse3ext", raid_gen4_ssse3ext, 4, 0, NEED_SSSE3 },
	{ "gen5_ssse3ext", raid_gen5_ssse3ext, 5, 0, NEED_SSSE3 },
	{ "gen6_ssse3ext", raid_gen6_ssse3ext, 6, 0, NEED_SSSE3 },
#endif
#endif
#ifdef CONFIG_AVX2
	{ "gen1_avx2", raid_gen1_avx2, 1, 0, NEED_AVX2 },
	{ "gen2_avx2", raid_gen2_avx2, 2, 0, NEED_AVX2 },
#ifdef CONFIG_X86_64
	{ "genz_avx2ext", raid_genz_avx2ext, 3, 1, NEED_AVX2 },
	{ "gen3_avx2ext", raid_gen3_avx2ext, 3, 0, NEED_AVX2 },
	{ "gen4_avx2ext", raid_gen4_avx2ext, 4, 0, NEED_AVX2 },
	{ "gen5_avx2ext", raid_gen5_avx2ext, 5, 0, NEED_AVX2 },
	{ "gen6_avx2ext", raid_gen6_avx2ext, 6, 0, NEED_AVX2 },
#endif
#endif
#endif
};

#define NGENVAR ((int)(sizeof(genvars) / sizeof(genvars[0])))

#define BASIS_SIZE 16384 /* 256 byte values x 64 lane positions */
#define GEN_BSIZE 16384

static long n_gen_runs, n_gen_bytes, n_samples;

struct genctx {
	struct arena ar;        /* nd data blocks, 6 parity blocks */
	struct arena mr;        /* master copy of the data blocks + 6 expected parities */
	void *v[ND_MAX + NP_MAX + 2];
	void *vcopy[ND_MAX + NP_MAX + 2];
	int nd;
};

/*
 * One call of a variant and every check the property asks for.
 * data_master(d) gives the expected (unchanged) content of data block d; exp[j] the expected parity j.
 */
static void gen_run(struct genctx *g, const struct genvar *gv, size_t size, const char *what, int disk,
	uint8_t **exp, uint8_t prefill)
{
	int nd = g->nd;
	int j, d, r;

	for (j = 0; j < NP_MAX; ++j)
		memset(arena_block(&g->ar, nd + j), prefill, size);

	snprintf(ctx, sizeof(ctx), "raid_%s(nd=%d,size=%zu) data=%s disk=%d", gv->name, nd, size, what, disk);
	raid_mode(gv->mode ? RAID_MODE_VANDERMONDE : RAID_MODE_CAUCHY);
	gv->f(nd, size, g->v);

	++n_gen_runs;
	n_gen_bytes += (long)size * nd;
	key_add(mix64(((uint64_t)(gv - genvars) << 48) ^ ((uint64_t)nd << 40) ^ ((uint64_t)size << 20)
		^ mix64((uint64_t)(disk + 2) * 0x1234567ULL ^ (uint64_t)what[0] << 8 ^ (uint64_t)what[1])));

	/* parity blocks the variant must write */
	for (j = 0; j < gv->np; ++j) {
		const uint8_t *got = arena_block(&g->ar, nd + j);

		if (memcmp(got, exp[j], size) != 0) {
			size_t i;

			for (i = 0; i < size && got[i] == exp[j][i]; ++i)
				;
			fail("gen-parity", "%s: parity %d differs from the definition at byte %zu: got 0x%02x expected 0x%02x",
				ctx, j, i, got[i], exp[j][i]);
		}
	}
	/* parity blocks the variant must not write */
	for (j = gv->np; j < NP_MAX; ++j) {
		const uint8_t *got = arena_block(&g->ar, nd + j);
		size_t i;

		for (i = 0; i < size; ++i)
			if (got[i] != prefill) {
				fail("gen-extra-write", "%s: parity buffer %d (not computed by this variant) modified at byte %zu",
					ctx, j, i);
				break;
			}
	}
	/* data untouched */
	for (d = 0; d < nd; ++d)
		if (memcmp(arena_block(&g->ar, d), arena_block(&g->mr, d), size) != 0) {
			fail("gen-data-modified", "%s: data block %d modified", ctx, d);
			memcpy(arena_block(&g->ar, d), arena_block(&g->mr, d), size);
		}
	/* nothing outside the blocks */
	r = arena_check(&g->ar, size);
	if (r) {
		fail("gen-overrun", "%s: write outside the %zu-byte blocks (guard %d)", ctx, size, r);
		arena_repair(&g->ar, size);
	}
	if (memcmp(g->v, g->vcopy, sizeof(void *) * (nd + NP_MAX + 2)) != 0) {
		fail("gen-vector", "%s: pointer vector modified", ctx);
		memcpy(g->v, g->vcopy, sizeof(g->v));
	}
}

/* expected parities of the master data by the definition: row j = xor over disks of mul[A[j][d]][byte] */
static void oracle_parity(struct genctx *g, int mode, int np, size_t size, uint8_t **exp)
{
	int j, d;
	size_t i;

	for (j = 0; j < np; ++j) {
		uint8_t *e = exp[j];

		memset(e, 0, size);
		for (d = 0; d < g->nd; ++d) {
			const uint8_t *row = W.mul[Aw(mode, j, d)];
			const uint8_t *src = arena_block(&g->mr, d);

			for (i = 0; i < size; ++i)
				e[i] ^= row[src[i]];
		}
	}
}

static void gen_job(const struct genvar *gv, int nd, int thorough)
{
	struct genctx *g = calloc(1, sizeof(*g));
	uint8_t *exp[NP_MAX];
	uint8_t *basis;
	int d, j, i;
	size_t p, size;
	static const size_t quick_sizes[] = { 64, 128, 192, 256, 1024, 4096 };
	static const uint8_t consts[] = { 0xff, 0x80, 0x01, 0x8e, 0x1d };

	if (!g)
		die("out of memory");
	g->nd = nd;
	arena_init(&g->ar, nd + NP_MAX, GEN_BSIZE);
	arena_init(&g->mr, nd + NP_MAX, GEN_BSIZE);
	for (d = 0; d < nd + NP_MAX; ++d)
		g->v[d] = g->vcopy[d] = arena_block(&g->ar, d);
	/* two sentinel entries behind the vector: never to be touched */
	g->v[nd + NP_MAX] = g->vcopy[nd + NP_MAX] = (void *)(uintptr_t)0x5a5a5a5a00ULL;
	g->v[nd + NP_MAX + 1] = g->vcopy[nd + NP_MAX + 1] = (void *)(uintptr_t)0xa5a5a5a500ULL;
	for (j = 0; j < NP_MAX; ++j)
		exp[j] = arena_block(&g->mr, nd + j);

	/* (a) complete byte basis: disk i holds every byte value b in every lane position 0..63, all other
	 * disks are zero; parity j must be mul[A[j][i]][b] at those positions */
	size = BASIS_SIZE;
	basis = malloc(size);
	for (p = 0; p < size; ++p)
		basis[p] = (uint8_t)(p >> 6);
	for (d = 0; d < nd; ++d) {
		memset(arena_block(&g->ar, d), 0, size);
		memset(arena_block(&g->mr, d), 0, size);
	}
	arena_tail_set(&g->ar, size);
	for (i = 0; i < nd; ++i) {
		memcpy(arena_block(&g->ar, i), basis, size);
		memcpy(arena_block(&g->mr, i), basis, size);
		for (j = 0; j < gv->np; ++j) {
			const uint8_t *row = W.mul[Aw(gv->mode, j, i)];

			for (p = 0; p < size; ++p)
				exp[j][p] = row[basis[p]];
		}
		gen_run(g, gv, size, "basis", i, exp, (uint8_t)(0x5a + i));
		memset(arena_block(&g->ar, i), 0, size);
		memset(arena_block(&g->mr, i), 0, size);
	}
	free(basis);

	/* (b) dense seeded data, all sizes of the tier */
	{
		int ns = thorough ? 64 : (int)(sizeof(quick_sizes) / sizeof(quick_sizes[0]));
		int s;

		for (s = 0; s < ns; ++s) {
			size = thorough ? (size_t)(s + 1) * 64 : quick_sizes[s];
			for (d = 0; d < nd; ++d) {
				rng_fill(arena_block(&g->mr, d), size);
				memcpy(arena_block(&g->ar, d), arena_block(&g->mr, d), size);
			}
			arena_tail_set(&g->ar, size);
			oracle_parity(g, gv->mode, gv->np, size, exp);
			gen_run(g, gv, size, "dense", s, exp, (uint8_t)(0xa5 ^ s));
			if (n_samples < 2 && nd > 1) {
				++n_samples;
				printf("SAMPLE {\"kind\":\"gen-dense\",\"variant\":\"%s\",\"nd\":%d,\"size\":%zu,"
					"\"data0_first_bytes\":[%d,%d,%d,%d],\"data1_first_bytes\":[%d,%d,%d,%d],"
					"\"expected_last_parity_first_bytes\":[%d,%d,%d,%d]}\n", gv->name, nd, size,
					arena_block(&g->mr, 0)[0], arena_block(&g->mr, 0)[1], arena_block(&g->mr, 0)[2],
					arena_block(&g->mr, 0)[3], arena_block(&g->mr, 1)[0], arena_block(&g->mr, 1)[1],
					arena_block(&g->mr, 1)[2], arena_block(&g->mr, 1)[3],
					exp[gv->np - 1][0], exp[gv->np - 1][1], exp[gv->np - 1][2], exp[gv->np - 1][3]);
			}
		}
	}

	/* (c) constant blocks that stress the multiply/divide-by-two bit tricks (top and bottom bits everywhere) */
	for (i = 0; i < (int)sizeof(consts); ++i) {
		size = 256;
		for (d = 0; d < nd; ++d) {
			memset(arena_block(&g->mr, d), consts[i], size);
			memcpy(arena_block(&g->ar, d), arena_block(&g->mr, d), size);
		}
		arena_tail_set(&g->ar, size);
		oracle_parity(g, gv->mode, gv->np, size, exp);
		gen_run(g, gv, size, "const", consts[i], exp, 0x33);
	}

	arena_free(&g->ar);
	arena_free(&g->mr);
	free(g);
}

static const int quick_nd[] = { 1, 2, 3, 4, 5, 8, 16, 31, 32, 33, 64, 127, 128, 129, 250, 251 };

static void do_gen(int thorough, int shard, int nshards)
{
	int vi, k, job = 0;
	int nds[ND_MAX], nnd = 0;

	if (thorough)
		for (k = ND_MAX; k >= 1; --k)
			nds[nnd++] = k;
	else
		for (k = (int)(sizeof(quick_nd) / sizeof(quick_nd[0])) - 1; k >= 0; --k)
			nds[nnd++] = quick_nd[k];

	for (vi = 0; vi < NGENVAR; ++vi)
		if (!cpu_ok(genvars[vi].need) && shard == 0)
			printf("SKIP %s cpu lacks %s\n", genvars[vi].name, need_name(genvars[vi].need));

	/* jobs ordered by decreasing nd (cost ~ nd^2), dealt round-robin to the shards */
	for (k = 0; k < nnd; ++k)
		for (vi = 0; vi < NGENVAR; ++vi) {
			if (!cpu_ok(genvars[vi].need))
				continue;
			if (job++ % nshards != shard)
				continue;
			gen_job(&genvars[vi], nds[k], thorough);
		}

	printf("STAT gen_runs %ld\n", n_gen_runs);
	printf("STAT gen_data_bytes %ld\n", n_gen_bytes);
	{
		int nv = 0;

		for (vi = 0; vi < NGENVAR; ++vi)
			nv += cpu_ok(genvars[vi].need);
		printf("STAT gen_variants_known %d\n", NGENVAR);
		printf("STAT gen_variants_run %d\n", nv);
	}
	printf("STAT gen_nd_values %d\n", nnd);
	printf("STAT distinct %ld\n", keys_distinct());
}

/* ------------------------------------------------------------------------------------------------- */
/* the same variants called from several threads at once, each on buffers of its own (C02: the parity a call writes is a
 * function of the data of THAT call only, nothing is read or kept anywhere else) */

#include <pthread.h>

#define MT_THREADS 4
#define MT_ND 5
#define MT_SIZE 8192
#define MT_ROUNDS 120

struct mtjob {
	const struct genvar *gv;
	uint64_t seed;
	long bad_round;   /* first round whose parity differs, -1 if none */
	int bad_parity;
	pthread_barrier_t *bar;
};

static void *mt_worker(void *arg)
{
	struct mtjob *j = arg;
	uint8_t *blk[MT_ND + NP_MAX];
	uint8_t *exp[NP_MAX];
	void *v[MT_ND + NP_MAX];
	uint64_t x = j->seed;
	int d, p, r;
	size_t i;

	for (d = 0; d < MT_ND + NP_MAX; ++d) {
		if (posix_memalign((void **)&blk[d], 256, MT_SIZE) != 0)
			return 0;
		v[d] = blk[d];
	}
	for (p = 0; p < NP_MAX; ++p)
		exp[p] = malloc(MT_SIZE);
	for (d = 0; d < MT_ND; ++d)
		for (i = 0; i < MT_SIZE; ++i) {
			x ^= x << 13; x ^= x >> 7; x ^= x << 17;
			blk[d][i] = (uint8_t)(x >> 24);
		}
	for (p = 0; p < j->gv->np; ++p) {
		memset(exp[p], 0, MT_SIZE);
		for (d = 0; d < MT_ND; ++d) {
			const uint8_t *row = W.mul[Aw(j->gv->mode, p, d)];

			for (i = 0; i < MT_SIZE; ++i)
				exp[p][i] ^= row[blk[d][i]];
		}
	}
	pthread_barrier_wait(j->bar);
	for (r = 0; r < MT_ROUNDS && j->bad_round < 0; ++r) {
		for (p = 0; p < j->gv->np; ++p)
			memset(blk[MT_ND + p], 0xA5, MT_SIZE);
		j->gv->f(MT_ND, MT_SIZE, v);
		for (p = 0; p < j->gv->np; ++p)
			if (memcmp(blk[MT_ND + p], exp[p], MT_SIZE) != 0) {
				j->bad_round = r;
				j->bad_parity = p;
				break;
			}
	}
	for (d = 0; d < MT_ND + NP_MAX; ++d)
		free(blk[d]);
	for (p = 0; p < NP_MAX; ++p)
		free(exp[p]);
	return 0;
}

static void do_genmt(uint64_t seed)
{
	int vi, t;
	long runs = 0;

	for (vi = 0; vi < NGENVAR; ++vi) {
		struct mtjob jobs[MT_THREADS];
		pthread_t th[MT_THREADS];
		pthread_barrier_t bar;

		if (!cpu_ok(genvars[vi].need))
			continue;
		raid_mode(genvars[vi].mode ? RAID_MODE_VANDERMONDE : RAID_MODE_CAUCHY);
		snprintf(ctx, sizeof(ctx), "raid_%s called from %d threads at once (nd=%d,size=%d)", genvars[vi].name, MT_THREADS, MT_ND, MT_SIZE);
		pthread_barrier_init(&bar, 0, MT_THREADS);
		for (t = 0; t < MT_THREADS; ++t) {
			jobs[t].gv = &genvars[vi];
			jobs[t].seed = mix64(seed + (uint64_t)vi * 131 + (uint64_t)t) | 1;
			jobs[t].bad_round = -1;
			jobs[t].bad_parity = -1;
			jobs[t].bar = &bar;
			if (pthread_create(&th[t], 0, mt_worker, &jobs[t]) != 0)
				die("pthread_create");
		}
		for (t = 0; t < MT_THREADS; ++t)
			pthread_join(th[t], 0);
		pthread_barrier_destroy(&bar);
		for (t = 0; t < MT_THREADS; ++t) {
			runs += MT_ROUNDS;
			if (jobs[t].bad_round >= 0)
				fail("gen-concurrent", "%s: thread %d, call %ld: parity %d differs from the definition for the data of this call",
					ctx, t, jobs[t].bad_round, jobs[t].bad_parity);
		}
	}
	printf("STAT genmt_calls %ld\n", runs);
}

/* ------------------------------------------------------------------------------------------------- */
/* recovery (C03) */

typedef void rec_f(int nr, int *id, int *ip, int nd, size_t size, void **vv);

struct recfam {
	const char *name;
	rec_f *r1, *r2, *rx;
	int need;
};

static const struct recfam recfams[] = {
	{ "int8", raid_rec1_int8, raid_rec2_int8, raid_recX_int8, NEED_NONE },
#ifdef CONFIG_X86
#ifdef CONFIG_SSSE3
	{ "ssse3", raid_rec1_ssse3, raid_rec2_ssse3, raid_recX_ssse3, NEED_SSSE3 },
#endif
#ifdef CONFIG_AVX2
	{ "avx2", raid_rec1_avx2, raid_rec2_avx2, raid_recX_avx2, NEED_AVX2 },
#endif
#endif
};

#define NRECFAM ((int)(sizeof(recfams) / sizeof(recfams[0])))

struct genfam {
	const char *name;
	gen_f *g[NP_MAX]; /* gen1, gen2, gen3, gen4, gen5, gen6 */
	gen_f *gz;
	int need;
};

static const struct genfam genfams[] = {
	{ "int32", { raid_gen1_int32, raid_gen2_int32, raid_gen3_int8, raid_gen4_int8, raid_gen5_int8, raid_gen6_int8 },
		raid_genz_int32, NEED_NONE },
	{ "int64", { raid_gen1_int64, raid_gen2_int64, raid_gen3_int8, raid_gen4_int8, raid_gen5_int8, raid_gen6_int8 },
		raid_genz_int64, NEED_NONE },
#ifdef CONFIG_X86
#if defined(CONFIG_SSE2) && defined(CONFIG_SSSE3)
	{ "sse", { raid_gen1_sse2, raid_gen2_sse2, raid_gen3_ssse3, raid_gen4_ssse3, raid_gen5_ssse3, raid_gen6_ssse3 },
		raid_genz_sse2, NEED_SSSE3 },
#ifdef CONFIG_X86_64
	{ "sseext", { raid_gen1_sse2, raid_gen2_sse2ext, raid_gen3_ssse3ext, raid_gen4_ssse3ext, raid_gen5_ssse3ext,
		raid_gen6_ssse3ext }, raid_genz_sse2ext, NEED_SSSE3 },
#endif
#endif
#if defined(CONFIG_AVX2) && defined(CONFIG_X86_64)
	{ "avx2", { raid_gen1_avx2, raid_gen2_avx2, raid_gen3_avx2ext, raid_gen4_avx2ext, raid_gen5_avx2ext,
		raid_gen6_avx2ext }, raid_genz_avx2ext, NEED_AVX2 },
#endif
#endif
};

#define NGENFAM ((int)(sizeof(genfams) / sizeof(genfams[0])))

static void set_family(const struct recfam *rf, const struct genfam *gf, int mode)
{
	int i;

	for (i = 0; i < NP_MAX; ++i)
		raid_gen_ptr[i] = gf->g[i];
	raid_gen3_ptr = gf->g[2];
	raid_genz_ptr = gf->gz;
	raid_rec_ptr[0] = rf->r1;
	raid_rec_ptr[1] = rf->r2;
	for (i = 2; i < NP_MAX; ++i)
		raid_rec_ptr[i] = rf->rx;
	raid_mode(mode ? RAID_MODE_VANDERMONDE : RAID_MODE_CAUCHY);
}

#define REC_BSIZE 1024

/* stripe of one geometry: master (consistent by the oracle) and work copy */
struct stripe {
	int nd, np, mode;
	size_t size;
	struct arena mr;   /* master: nd data + 6 parity */
	struct arena wr;   /* work: nd data + 6 parity + zero + trap */
	uint8_t *pre;      /* content of the work blocks before the call (for garbage blocks): (nd+6) * size */
	void *v[ND_MAX + NP_MAX + 2];
	void *vcopy[ND_MAX + NP_MAX + 2];
	uint8_t kind[ND_MAX + NP_MAX]; /* 0 master content, 1 garbage */
	int valid;
};

static struct stripe S;
static long n_rec_calls, n_check_calls, n_scan_calls, n_rec_cases, n_rec_nontrivial;
static long n_oracle_vectors;

static void stripe_setup(int nd, int np, int mode, size_t size)
{
	int d, j;
	size_t i;

	if (S.valid && S.nd == nd && S.mode == mode && S.size == size) {
		S.np = np;
		return;
	}
	if (S.valid) {
		arena_free(&S.mr);
		arena_free(&S.wr);
		free(S.pre);
	}
	S.nd = nd;
	S.np = np;
	S.mode = mode;
	S.size = size;
	S.valid = 1;
	arena_init(&S.mr, nd + NP_MAX, REC_BSIZE);
	arena_init(&S.wr, nd + NP_MAX + 2, REC_BSIZE);
	S.pre = malloc((size_t)(nd + NP_MAX) * size);
	for (d = 0; d < nd; ++d)
		rng_fill(arena_block(&S.mr, d), size);
	/* parity by the definition, with the witness tables; in z mode only 3 rows exist */
	for (j = 0; j < NP_MAX; ++j) {
		uint8_t *e = arena_block(&S.mr, nd + j);

		memset(e, 0, size);
		if (mode && j >= 3)
			continue;
		for (d = 0; d < nd; ++d) {
			const uint8_t *row = W.mul[Aw(mode, j, d)];
			const uint8_t *src = arena_block(&S.mr, d);

			for (i = 0; i < size; ++i)
				e[i] ^= row[src[i]];
		}
	}
	for (d = 0; d < nd + NP_MAX; ++d) {
		memcpy(arena_block(&S.wr, d), arena_block(&S.mr, d), size);
		S.kind[d] = 0;
	}
	memset(arena_block(&S.wr, nd + NP_MAX), 0, size);        /* the zero block */
	memset(arena_block(&S.wr, nd + NP_MAX + 1), 0x77, size); /* trap block for vector entries out of contract */
	arena_tail_set(&S.wr, size);
	raid_zero(arena_block(&S.wr, nd + NP_MAX));
}

/* fill block b of the work stripe with garbage that differs from the master in every byte */
static void garble(int b)
{
	uint8_t *w = arena_block(&S.wr, b);
	const uint8_t *m = arena_block(&S.mr, b);
	size_t i;

	rng_fill(w, S.size);
	for (i = 0; i < S.size; ++i)
		if (w[i] == m[i])
			w[i] ^= 0x5b;
	S.kind[b] = 1;
}

static void restore_all(void)
{
	int b;

	for (b = 0; b < S.nd + NP_MAX; ++b)
		if (S.kind[b]) {
			memcpy(arena_block(&S.wr, b), arena_block(&S.mr, b), S.size);
			S.kind[b] = 0;
		}
}

static void snapshot(void)
{
	int b;

	for (b = 0; b < S.nd + NP_MAX; ++b)
		if (S.kind[b])
			memcpy(S.pre + (size_t)b * S.size, arena_block(&S.wr, b), S.size);
}

/*
 * After a call: blocks in 'must' (nmust entries) must equal the master; every other block must be
 * byte-identical to what it held before the call; zero block, trap block, guards, vector untouched.
 */
static void verify_after(const int *must, int nmust, int nvec)
{
	int b, k, r;

	for (b = 0; b < S.nd + NP_MAX; ++b) {
		int is_must = 0;
		const uint8_t *got = arena_block(&S.wr, b);

		for (k = 0; k < nmust; ++k)
			if (must[k] == b)
				is_must = 1;
		if (is_must) {
			if (memcmp(got, arena_block(&S.mr, b), S.size) != 0) {
				size_t i;

				for (i = 0; i < S.size && got[i] == arena_block(&S.mr, b)[i]; ++i)
					;
				fail("rec-wrong", "%s: block %d (%s %d) not restored: byte %zu is 0x%02x, original 0x%02x", ctx, b,
					b < S.nd ? "data" : "parity", b < S.nd ? b : b - S.nd, i, got[i], arena_block(&S.mr, b)[i]);
			}
		} else {
			const uint8_t *want = S.kind[b] ? S.pre + (size_t)b * S.size : arena_block(&S.mr, b);

			if (memcmp(got, want, S.size) != 0) {
				fail("rec-touched", "%s: block %d (%s %d) was not to be rebuilt but has been modified", ctx, b,
					b < S.nd ? "data" : "parity", b < S.nd ? b : b - S.nd);
				/* put it back so that the following cases are judged on their own */
				memcpy(arena_block(&S.wr, b), want, S.size);
			}
		}
	}
	{
		const uint8_t *z = arena_block(&S.wr, S.nd + NP_MAX);
		const uint8_t *t = arena_block(&S.wr, S.nd + NP_MAX + 1);
		size_t i;

		for (i = 0; i < S.size; ++i)
			if (z[i] != 0) {
				fail("rec-zero", "%s: the zero block has been written", ctx);
				memset(arena_block(&S.wr, S.nd + NP_MAX), 0, S.size);
				break;
			}
		for (i = 0; i < S.size; ++i)
			if (t[i] != 0x77) {
				fail("rec-trap", "%s: a block behind the end of the vector given by the contract has been written", ctx);
				memset(arena_block(&S.wr, S.nd + NP_MAX + 1), 0x77, S.size);
				break;
			}
	}
	r = arena_check(&S.wr, S.size);
	if (r) {
		fail("rec-overrun", "%s: write outside the %zu-byte blocks (guard %d)", ctx, S.size, r);
		arena_repair(&S.wr, S.size);
	}
	if (memcmp(S.v, S.vcopy, sizeof(void *) * nvec) != 0) {
		fail("rec-vector", "%s: pointer vector not restored", ctx);
		memcpy(S.v, S.vcopy, sizeof(S.v));
	}
}

static void set_vector(int nvalid)
{
	int b;

	for (b = 0; b < S.nd + NP_MAX + 2; ++b) {
		if (b < nvalid)
			S.v[b] = arena_block(&S.wr, b);
		else
			S.v[b] = arena_block(&S.wr, S.nd + NP_MAX + 1); /* trap */
		S.vcopy[b] = S.v[b];
	}
}

static char *fmt_set(char *buf, const int *s, int n)
{
	int i, o = 0;

	o += sprintf(buf + o, "[");
	for (i = 0; i < n; ++i)
		o += sprintf(buf + o, "%s%d", i ? "," : "", s[i]);
	sprintf(buf + o, "]");
	return buf;
}

/* --- independent consistency oracle for raid_check / raid_scan ------------------------------------ */

/*
 * Is there a code word that differs from the work stripe only inside the candidate set cand[0..nc-1] ?
 * Unknowns: the data blocks of the candidate; equations: the parities not in the candidate.
 * Generic Gauss elimination with pivot search (no assumption on the matrix), witness tables only.
 */
static int oracle_consistent(const int *cand, int nc)
{
	int nd = S.nd, np = S.np, mode = S.mode;
	int ud[NP_MAX], nu = 0;     /* unknown data disks */
	int eq[NP_MAX], ne = 0;     /* parities usable as equations */
	uint8_t G[NP_MAX][NP_MAX];  /* ne x nu */
	uint8_t T[NP_MAX][NP_MAX];  /* ne x ne, accumulates the row operations */
	int isfail[ND_MAX + NP_MAX];
	int i, j, k, r, rank;
	size_t pos;

	memset(isfail, 0, sizeof(isfail));
	for (i = 0; i < nc; ++i)
		isfail[cand[i]] = 1;
	for (i = 0; i < nd; ++i)
		if (isfail[i])
			ud[nu++] = i;
	for (j = 0; j < np; ++j)
		if (!isfail[nd + j])
			eq[ne++] = j;
	for (j = 0; j < ne; ++j) {
		for (k = 0; k < nu; ++k)
			G[j][k] = Aw(mode, eq[j], ud[k]);
		for (k = 0; k < ne; ++k)
			T[j][k] = j == k;
	}
	rank = 0;
	for (k = 0; k < nu && rank < ne; ++k) {
		uint8_t f;

		for (r = rank; r < ne && G[r][k] == 0; ++r)
			;
		if (r == ne)
			continue;
		if (r != rank)
			for (i = 0; i < NP_MAX; ++i) {
				uint8_t t;

				t = G[r][i]; G[r][i] = G[rank][i]; G[rank][i] = t;
				t = T[r][i]; T[r][i] = T[rank][i]; T[rank][i] = t;
			}
		f = W.inv[G[rank][k]];
		for (i = 0; i < nu; ++i)
			G[rank][i] = W.mul[f][G[rank][i]];
		for (i = 0; i < ne; ++i)
			T[rank][i] = W.mul[f][T[rank][i]];
		for (r = 0; r < ne; ++r) {
			if (r == rank || G[r][k] == 0)
				continue;
			f = G[r][k];
			for (i = 0; i < nu; ++i)
				G[r][i] ^= W.mul[f][G[rank][i]];
			for (i = 0; i < ne; ++i)
				T[r][i] ^= W.mul[f][T[rank][i]];
		}
		++rank;
	}
	/* rows rank..ne-1 of T span the left null space of G: the syndrome must be orthogonal to them */
	if (rank == ne)
		return 1;
	for (pos = 0; pos < S.size; ++pos) {
		uint8_t s[NP_MAX];

		for (j = 0; j < ne; ++j)
			s[j] = arena_block(&S.wr, nd + eq[j])[pos];
		for (i = 0; i < nd; ++i) {
			uint8_t b;

			if (isfail[i])
				continue;
			b = arena_block(&S.wr, i)[pos];
			for (j = 0; j < ne; ++j)
				s[j] ^= W.mul[Aw(mode, eq[j], i)][b];
		}
		for (r = rank; r < ne; ++r) {
			uint8_t acc = 0;

			for (j = 0; j < ne; ++j)
				acc ^= W.mul[T[r][j]][s[j]];
			if (acc)
				return 0;
		}
	}
	return 1;
}

static int next_comb(int r, int n, int *c)
{
	int i = r - 1;

	while (i >= 0 && c[i] == n - r + i)
		--i;
	if (i < 0)
		return 0;
	++c[i];
	for (++i; i < r; ++i)
		c[i] = c[i - 1] + 1;
	return 1;
}

/* smallest cardinality of a consistent candidate (< np), -1 if none */
static int oracle_scan_min(void)
{
	int c[NP_MAX], r, i;

	if (oracle_consistent(c, 0))
		return 0;
	for (r = 1; r < S.np; ++r) {
		for (i = 0; i < r; ++i)
			c[i] = i;
		do {
			if (oracle_consistent(c, r))
				return r;
		} while (next_comb(r, S.nd + S.np, c));
	}
	return -1;
}

static int subset_of(const int *a, int na, const int *b, int nb)
{
	int i, j;

	for (i = 0; i < na; ++i) {
		for (j = 0; j < nb && b[j] != a[i]; ++j)
			;
		if (j == nb)
			return 0;
	}
	return 1;
}

static int union_size(const int *a, int na, const int *b, int nb)
{
	int i, j, n = nb;

	for (i = 0; i < na; ++i) {
		for (j = 0; j < nb && b[j] != a[i]; ++j)
			;
		if (j == nb)
			++n;
	}
	return n;
}

static void sort_ints(int *a, int n)
{
	int i, j;

	for (i = 1; i < n; ++i) {
		int t = a[i];

		for (j = i; j > 0 && a[j - 1] > t; --j)
			a[j] = a[j - 1];
		a[j] = t;
	}
}

static double binom_sum(int n, int r)
{
	double s = 1, t = 1;
	int k;

	for (k = 1; k <= r; ++k) {
		t = t * (n - k + 1) / k;
		s += t;
	}
	return s;
}

/* one raid_check call on the candidate, compared with the oracle and with the rule of the contract */
static void check_candidate(const int *C, int nC, int *cand, int nc)
{
	char b1[64], b2[64];
	int want, got;
	int copy[NP_MAX];

	memcpy(copy, cand, sizeof(int) * nc);
	want = oracle_consistent(cand, nc) ? 0 : -1;
	/* the two directions the contract fixes regardless of the data */
	if (subset_of(C, nC, cand, nc) && want != 0)
		die("oracle inconsistent with the contract (accept) nd=%d np=%d", S.nd, S.np);
	if (!subset_of(C, nC, cand, nc) && union_size(C, nC, cand, nc) <= S.np && want != -1)
		die("oracle inconsistent with the contract (reject) nd=%d np=%d", S.nd, S.np);
	snprintf(ctx, sizeof(ctx), "raid_check(nr=%d,ir=%s,nd=%d,np=%d,size=%zu) mode=%s corrupted=%s", nc,
		fmt_set(b1, cand, nc), S.nd, S.np, S.size, S.mode ? "z" : "cauchy", fmt_set(b2, C, nC));
	got = raid_check(nc, copy, S.nd, S.np, S.size, S.v);
	++n_check_calls;
	if (got != want)
		fail("check-verdict", "%s: returned %d, expected %d (%s)", ctx, got, want,
			want == 0 ? "every corrupted block is listed" : "a corrupted block is not listed");
	verify_after(0, 0, S.nd + NP_MAX + 2);
}

static void check_and_scan(const int *C, int nC, int thorough, int do_scan, long caseno)
{
	int nd = S.nd, np = S.np, n = nd + np;
	int cand[NP_MAX + 1];
	int i, k, o, r;
	char b1[64], b2[64];

	for (i = 0; i < nC; ++i)
		garble(C[i]);
	snapshot();
	set_vector(nd + np);

	/* the true set */
	memcpy(cand, C, sizeof(int) * nC);
	check_candidate(C, nC, cand, nC);

	if (nd <= 3) {
		/* small geometry: every admissible candidate */
		for (r = 0; r < np; ++r) {
			for (i = 0; i < r; ++i)
				cand[i] = i;
			do {
				check_candidate(C, nC, cand, r);
			} while (r > 0 && next_comb(r, n, cand));
		}
	} else {
		/* neighbours of the true set */
		int others[3], no = 0;

		for (o = 0; o < n && no < 1; ++o)
			if (!subset_of(&o, 1, C, nC))
				others[no++] = o;
		for (o = n - 1; o >= 0 && no < 2; --o)
			if (!subset_of(&o, 1, C, nC) && (no == 0 || others[0] != o))
				others[no++] = o;
		o = (int)(mix64((uint64_t)caseno * 77 + 5) % (unsigned)n);
		if (!subset_of(&o, 1, C, nC))
			others[no++] = o;
		/* one corrupted block left out */
		for (k = 0; k < nC; ++k) {
			int m = 0;

			for (i = 0; i < nC; ++i)
				if (i != k)
					cand[m++] = C[i];
			check_candidate(C, nC, cand, m);
			/* left out and replaced by a good block */
			for (o = 0; o < no; ++o) {
				cand[m] = others[o];
				sort_ints(cand, m + 1);
				check_candidate(C, nC, cand, m + 1);
				m = 0;
				for (i = 0; i < nC; ++i)
					if (i != k)
						cand[m++] = C[i];
			}
		}
		/* a good block listed in addition */
		if (nC + 1 < np)
			for (o = 0; o < no; ++o) {
				memcpy(cand, C, sizeof(int) * nC);
				cand[nC] = others[o];
				sort_ints(cand, nC + 1);
				check_candidate(C, nC, cand, nC + 1);
			}
	}

	/* raid_scan: cost is sum_{r<=|C|} binom(n, r) raid_check calls */
	if (do_scan && (nd <= 3 || binom_sum(n, nC) <= (thorough ? 40000 : 1500))) {
		int ir[NP_MAX + 2];
		int got;

		for (i = 0; i < NP_MAX + 2; ++i)
			ir[i] = -7;
		snprintf(ctx, sizeof(ctx), "raid_scan(nd=%d,np=%d,size=%zu) mode=%s corrupted=%s", nd, np, S.size,
			S.mode ? "z" : "cauchy", fmt_set(b1, C, nC));
		got = raid_scan(ir, nd, np, S.size, S.v);
		++n_scan_calls;
		if (2 * nC <= np) {
			/* within the unique-decoding radius: the answer is exactly the corrupted set */
			if (got != nC || memcmp(ir, C, sizeof(int) * nC) != 0)
				fail("scan-result", "%s: returned %d %s, expected exactly the corrupted set", ctx, got,
					got > 0 && got <= NP_MAX ? fmt_set(b2, ir, got) : "");
		} else if (got != nC || memcmp(ir, C, sizeof(int) * nC) != 0) {
			/* beyond it another consistent set of minimal size is possible in principle: ask the oracle */
			int min = oracle_scan_min();

			if (got != min || got < 0 || !oracle_consistent(ir, got))
				fail("scan-result", "%s: returned %d %s, but the minimal consistent set has %d elements", ctx, got,
					got > 0 && got <= NP_MAX ? fmt_set(b2, ir, got) : "", min);
		}
		/* "it must have space for at least np - 1 values": entry np-1 is not raid_scan's to write */
		if (ir[np - 1] != -7)
			fail("scan-overrun", "%s: wrote more than np-1 entries of ir", ctx);
		verify_after(0, 0, S.nd + NP_MAX + 2);
	}
	restore_all();
}

/* --- the cases ------------------------------------------------------------------------------------ */

struct rcase {
	char op; /* 'R' raid_rec (+check/scan), 'D' raid_data / direct decoder */
	int nd, np, chk;
	int nr, ir[NP_MAX];
	int nu, used[NP_MAX];
	int ni, ign[NP_MAX];
	int ip[NP_MAX]; /* D */
};

static int parse_case(char *line, struct rcase *c)
{
	char *tok, *save = 0;
	int vals[64], n = 0;

	memset(c, 0, sizeof(*c));
	tok = strtok_r(line, " \n", &save);
	if (!tok)
		return 0;
	c->op = tok[0];
	while ((tok = strtok_r(0, " \n", &save)) != 0 && n < 64)
		vals[n++] = atoi(tok);
	if (c->op == 'R') {
		int k = 0, i;

		c->nd = vals[k++]; c->np = vals[k++]; c->chk = vals[k++];
		c->nr = vals[k++];
		for (i = 0; i < c->nr; ++i) c->ir[i] = vals[k++];
		c->nu = vals[k++];
		for (i = 0; i < c->nu; ++i) c->used[i] = vals[k++];
		c->ni = vals[k++];
		for (i = 0; i < c->ni; ++i) c->ign[i] = vals[k++];
		if (k != n)
			die("bad R case");
		return 1;
	}
	if (c->op == 'D') {
		int k = 0, i;

		c->nd = vals[k++]; c->np = vals[k++];
		c->nr = vals[k++];
		for (i = 0; i < c->nr; ++i) c->ir[i] = vals[k++];
		for (i = 0; i < c->nr; ++i) c->ip[i] = vals[k++];
		if (k != n)
			die("bad D case");
		return 1;
	}
	die("bad case line");
	return 0;
}

static void run_rec_case(const struct rcase *c, int mode, size_t size, int thorough, int do_scan, long caseno)
{
	int rf, gf, pass, i;
	char b1[64], b2[64];
	int ir[NP_MAX], ip[NP_MAX];

	stripe_setup(c->nd, c->np, mode, size);

	for (rf = 0; rf < NRECFAM; ++rf) {
		if (!cpu_ok(recfams[rf].need))
			continue;
		for (gf = 0; gf < NGENFAM; ++gf) {
			if (!cpu_ok(genfams[gf].need))
				continue;
			/* big geometry, quick tier: decoders with their natural generator family and the portable one */
			if (!thorough && c->nd > 16 && !(gf == 0 || gf == NGENFAM - 1
				|| strcmp(genfams[gf].name, rf == 1 ? "sseext" : "-") == 0))
				continue;
			set_family(&recfams[rf], &genfams[gf], mode);

			if (c->op == 'R') {
				/* pass 0: ignored parities hold their correct content; pass 1: they hold garbage */
				for (pass = 0; pass < (c->ni ? 2 : 1); ++pass) {
					for (i = 0; i < c->nr; ++i)
						garble(c->ir[i]);
					if (pass)
						for (i = 0; i < c->ni; ++i)
							garble(c->nd + c->ign[i]);
					snapshot();
					set_vector(c->nd + c->np);
					memcpy(ir, c->ir, sizeof(ir));
					snprintf(ctx, sizeof(ctx), "raid_rec(nr=%d,ir=%s,nd=%d,np=%d,size=%zu) mode=%s rec=%s gen=%s "
						"ignored_parities=%s", c->nr, fmt_set(b1, c->ir, c->nr), c->nd, c->np, size,
						mode ? "z" : "cauchy", recfams[rf].name, genfams[gf].name,
						pass ? fmt_set(b2, c->ign, c->ni) : "intact");
					raid_rec(c->nr, ir, c->nd, c->np, size, S.v);
					++n_rec_calls;
					verify_after(c->ir, c->nr, c->nd + NP_MAX + 2);
					restore_all();
				}
			} else {
				/* raid_data contract: the vector ends at parity ip[nr-1]; unused parities hold garbage */
				int last = c->ip[c->nr - 1];
				int p, which;

				for (which = 0; which < 2; ++which) {
					rec_f *f = c->nr == 1 ? recfams[rf].r1 : c->nr == 2 ? recfams[rf].r2 : recfams[rf].rx;

					for (i = 0; i < c->nr; ++i)
						garble(c->ir[i]);
					for (p = 0; p < NP_MAX; ++p) {
						int usedp = 0;

						for (i = 0; i < c->nr; ++i)
							if (c->ip[i] == p)
								usedp = 1;
						if (!usedp && !(mode && p >= 3))
							garble(c->nd + p);
					}
					snapshot();
					set_vector(c->nd + last + 1);
					memcpy(ir, c->ir, sizeof(ir));
					memcpy(ip, c->ip, sizeof(ip));
					snprintf(ctx, sizeof(ctx), "%s(nr=%d,id=%s,ip=%s,nd=%d,size=%zu) mode=%s rec=%s gen=%s",
						which ? "raid_data" : (c->nr == 1 ? "raid_rec1" : c->nr == 2 ? "raid_rec2" : "raid_recX"),
						c->nr, fmt_set(b1, c->ir, c->nr), fmt_set(b2, c->ip, c->nr), c->nd, size,
						mode ? "z" : "cauchy", recfams[rf].name, genfams[gf].name);
					if (which)
						raid_data(c->nr, ir, ip, c->nd, size, S.v);
					else
						f(c->nr, ir, ip, c->nd, size, S.v);
					++n_rec_calls;
					verify_after(c->ir, c->nr, c->nd + NP_MAX + 2);
					restore_all();
				}
			}
		}
	}

	/* raid_check / raid_scan do not depend on the SIMD families */
	if (c->op == 'R' && c->chk) {
		set_family(&recfams[0], &genfams[0], mode);
		check_and_scan(c->ir, c->nr, thorough, do_scan, caseno);
	}
}

/* the table-driven oracle must reproduce the parities TLC computed with ParityOf for the sample columns */
static void check_vectors(const char *path)
{
	FILE *f = fopen(path, "r");
	int s, n, r, v;

	if (!f)
		die("cannot open %s", path);
	while (fscanf(f, "%d", &s) == 1) {
		uint8_t d[ND_MAX];
		uint8_t pc[NP_MAX], pp[3];

		for (n = 0; n < ND_MAX; ++n) {
			if (fscanf(f, "%d", &v) != 1) die("bad vectors");
			d[n] = (uint8_t)v;
		}
		for (r = 0; r < NP_MAX; ++r) {
			if (fscanf(f, "%d", &v) != 1) die("bad vectors");
			pc[r] = (uint8_t)v;
		}
		for (r = 0; r < 3; ++r) {
			if (fscanf(f, "%d", &v) != 1) die("bad vectors");
			pp[r] = (uint8_t)v;
		}
		for (r = 0; r < NP_MAX; ++r) {
			uint8_t acc = 0;

			for (n = 0; n < ND_MAX; ++n)
				acc ^= W.mul[W.cauchy[r][n]][d[n]];
			if (acc != pc[r])
				die("harness oracle disagrees with TLC ParityOf (cauchy row %d of sample %d)", r, s);
			++n_oracle_vectors;
		}
		for (r = 0; r < 3; ++r) {
			uint8_t acc = 0;

			for (n = 0; n < ND_MAX; ++n)
				acc ^= W.mul[W.power[r][n]][d[n]];
			if (acc != pp[r])
				die("harness oracle disagrees with TLC ParityOf (power row %d of sample %d)", r, s);
			++n_oracle_vectors;
		}
	}
	fclose(f);
}

static void do_rec(const char *cases, int thorough, int shard, int nshards)
{
	FILE *f = fopen(cases, "r");
	char line[512], keep[512];
	long lineno = 0;
	struct rcase c;
	static const size_t quick_sizes[] = { 64, 192 };
	static const size_t thorough_sizes[] = { 64, 128, 192, 1024 };
	int rf, gf;

	if (!f)
		die("cannot open %s", cases);
	if (shard == 0) {
		for (rf = 0; rf < NRECFAM; ++rf)
			if (!cpu_ok(recfams[rf].need))
				printf("SKIP rec_%s cpu lacks %s\n", recfams[rf].name, need_name(recfams[rf].need));
		for (gf = 0; gf < NGENFAM; ++gf)
			if (!cpu_ok(genfams[gf].need))
				printf("SKIP genfam_%s cpu lacks %s\n", genfams[gf].name, need_name(genfams[gf].need));
	}
	while (fgets(line, sizeof(line), f)) {
		const size_t *sizes = thorough ? thorough_sizes : quick_sizes;
		int ns = thorough ? 4 : 2, s, mode;

		if (lineno++ % nshards != shard)
			continue;
		strcpy(keep, line);
		if (!parse_case(line, &c))
			continue;
		++n_rec_cases;
		if (c.nr > 0)
			++n_rec_nontrivial;
		key_add(mix64((uint64_t)lineno));
		for (mode = 0; mode < 2; ++mode) {
			if (mode && c.np > 3)
				continue;
			for (s = 0; s < ns; ++s) {
				/* the big geometry runs the longest size only in the thorough tier */
				if (c.nd > 16 && sizes[s] > 192 && c.nr < 2)
					continue;
				run_rec_case(&c, mode, sizes[s], thorough, s == 0, lineno);
			}
		}
		if (n_samples < 3 && c.nr >= 2 && lineno % 97 == 5) {
			++n_samples;
			keep[strcspn(keep, "\n")] = 0;
			printf("SAMPLE {\"kind\":\"erasure-case\",\"line\":\"%s\",\"format\":\"%s\"}\n", keep,
				c.op == 'R' ? "R nd np check nr ir.. nused used.. nignored ignored.."
				: "D nd np nr id.. ip..");
		}
	}
	fclose(f);
	printf("STAT rec_cases %ld\n", n_rec_cases);
	printf("STAT rec_cases_nontrivial %ld\n", n_rec_nontrivial);
	printf("STAT rec_calls %ld\n", n_rec_calls);
	printf("STAT check_calls %ld\n", n_check_calls);
	printf("STAT scan_calls %ld\n", n_scan_calls);
	printf("STAT oracle_vectors %ld\n", n_oracle_vectors);
	printf("STAT distinct %ld\n", keys_distinct());
}

/* ------------------------------------------------------------------------------------------------- */
/* native brute force over the minors of the EXPORTED matrices (cross-check of the TLC evaluation) */

static long n_minors, n_singular;

/*
 * Depth-first over increasing column sets; T[t][mask] = determinant of (rows in mask) x (the t chosen columns)
 * for every row mask of t bits, obtained from the previous level by expansion along the new column.
 */
static void minors_dfs(const uint8_t (*M)[256], const char *name, int nrows, int maxk, int ncols, int first_lo,
	int first_hi)
{
	static uint8_t T[NP_MAX + 1][64];
	int cols[NP_MAX + 1];
	int t, c0, mask, r;

	for (c0 = first_lo; c0 < first_hi; ++c0) {
		/* iterative DFS with explicit stack of columns */
		t = 1;
		cols[0] = c0;
		for (;;) {
			int c = cols[t - 1];
			int singular = 0;

			/* compute level t from level t-1 with new column c */
			for (mask = 1; mask < (1 << nrows); ++mask) {
				uint8_t acc = 0;

				if (__builtin_popcount(mask) != t)
					continue;
				if (t == 1) {
					acc = M[__builtin_ctz(mask)][c];
				} else {
					for (r = 0; r < nrows; ++r)
						if (mask & (1 << r))
							acc ^= W.mul[M[r][c]][T[t - 1][mask ^ (1 << r)]];
				}
				T[t][mask] = acc;
				++n_minors;
				if (acc == 0) {
					++n_singular;
					singular = 1;
				}
			}
			if (singular) {
				char b[64];

				fail("singular-minor", "%s: a %dx%d sub-matrix with columns %s is singular", name, t, t,
					fmt_set(b, cols, t));
			}
			/* descend or advance */
			if (t < maxk && t < nrows && c + 1 < ncols) {
				cols[t] = c + 1;
				++t;
				continue;
			}
			/* advance the deepest column that can move */
			while (t > 1 && cols[t - 1] + 1 >= ncols)
				--t;
			if (t == 1)
				break;
			++cols[t - 1];
		}
	}
}

static void do_minors(int lead_cols, int full_maxk, int shard, int nshards)
{
	int c0;

	/* all minors of the leading block (all sizes), first column dealt to the shards */
	for (c0 = 0; c0 < lead_cols; ++c0)
		if (c0 % nshards == shard)
			minors_dfs(raid_gfcauchy, "raid_gfcauchy(lead)", NP_MAX, NP_MAX, lead_cols, c0, c0 + 1);
	/* all minors up to full_maxk over all 251 columns */
	for (c0 = 0; c0 < ND_MAX; ++c0)
		if (c0 % nshards == shard) {
			minors_dfs(raid_gfcauchy, "raid_gfcauchy(full)", NP_MAX, full_maxk, ND_MAX, c0, c0 + 1);
			minors_dfs(raid_gfvandermonde, "raid_gfvandermonde", 3, 3, ND_MAX, c0, c0 + 1);
		}
	printf("STAT native_minors %ld\n", n_minors);
	printf("STAT native_singular %ld\n", n_singular);
}

/* ------------------------------------------------------------------------------------------------- */

int main(int argc, char **argv)
{
	setvbuf(stdout, 0, _IOLBF, 0);
	if (argc < 3)
		die("usage");
	load_witness(argv[2]);
	install_crash_handler();
	raid_init();

	if (strcmp(argv[1], "tables") == 0) {
		strcpy(ctx, "comparing tables");
		do_tables();
	} else if (strcmp(argv[1], "gen") == 0 && argc == 7) {
		rng_s = mix64((uint64_t)atoll(argv[4]) * 1000003ULL + (uint64_t)atoi(argv[5]));
		do_gen(strcmp(argv[3], "thorough") == 0, atoi(argv[5]), atoi(argv[6]));
	} else if (strcmp(argv[1], "genmt") == 0 && argc == 4) {
		do_genmt((uint64_t)atoll(argv[3]));
	} else if (strcmp(argv[1], "rec") == 0 && argc >= 8) {
		rng_s = mix64((uint64_t)atoll(argv[5]) * 1000033ULL + (uint64_t)atoi(argv[6]));
		if (argc > 8)
			check_vectors(argv[8]);
		do_rec(argv[3], strcmp(argv[4], "thorough") == 0, atoi(argv[6]), atoi(argv[7]));
	} else if (strcmp(argv[1], "minors") == 0 && argc == 7) {
		do_minors(atoi(argv[3]), atoi(argv[4]), atoi(argv[5]), atoi(argv[6]));
	} else {
		die("usage");
	}
	printf("STAT failures %ld\n", n_fail);
	printf("DONE\n");
	return 0;
}
