"""Command-level trace recorder (DESIGN.md 5 (B1)): executes abstract actions on a real array and writes
one ndjson line per action with the full projected state in the vocabulary of spec/ArrayTrace.tla."""
import json, os
import arr, observer
from arr import BS, BASE_TIME


def vs(v):
    """value key -> spec string"""
    if v == 'Z':
        return "Z"
    if isinstance(v, int):
        return "v%d" % v
    if isinstance(v, (list, tuple)):
        if v[0] == 's':
            return "s%d" % v[1]
        if v[0] == 'J':
            return "J" + v[1]
        if v[0] == 'U':
            return "U" + v[1]
        if v[0] == 'P':
            return "P:" + vs(v[1])
    return str(v)


def _range(flags):
    fl = [str(x) for x in flags]
    bs = int(fl[fl.index("-S") + 1]) if "-S" in fl else 0
    bc = int(fl[fl.index("-B") + 1]) if "-B" in fl else 0
    return {"bstart": bs, "bcount": bc}


class Recorder:
    def __init__(self, a, obs=None):
        self.a = a
        self.obs = obs or observer.Observer(a)
        self.lines = []
        self.vlen = {}
        self.names = set()
        self.D = [str(d) for d in range(a.conf.nd)]
        self.inomode = bool(getattr(a.conf, "inomode", False))
        self.last = None
        self.lines.append({"e": "Reset", "state": self.state()})

    # ---- state in spec vocabulary
    def note_val(self, v):
        key = observer.vt(v)
        s = vs(v)
        if isinstance(key, tuple):
            if key[0] == 's':
                self.vlen[s] = self.a.slen(key[1])
            elif key[0] == 'J':
                n = self.a.jlen.get(key[1], BS)
                if n != BS:
                    self.vlen[s] = n
        return s

    def state(self):
        pr = self.obs.project()
        self.last = pr
        st = {"fs": {}, "cf": {}, "del": {}, "info": [], "par": []}
        st["lk"], st["dr"], st["clk"], st["cdr"], st["dra"] = {}, {}, {}, {}, {}
        for d in self.D:
            fl, lk, dr, dra = {}, {}, [], []
            # names sharing an inode: the first in scan (alphabetical) order is the file, the others are hard links to it
            byino = {}
            for name, f in sorted(pr["fs"].get(d, {}).items(), key=lambda x: x[0].encode("latin1")):
                if f["k"] == "f" and f.get("nl", 1) > 1:
                    byino.setdefault(f["ino"], []).append(name)
            hard = {n: v[0] for v in byino.values() for n in v[1:]}
            for name, f in pr["fs"].get(d, {}).items():
                if f["k"] == "l":
                    lk[name] = ["sym", f["to"]]
                elif f["k"] == "d":
                    dr.append(name)
                elif f["k"] == "D":
                    dra.append(name)
                elif name in hard:
                    lk[name] = ["hard", hard[name]]
                else:
                    self.names.add(name)
                    fl[name] = {"b": [self.note_val(v) for v in f["b"]], "mt": f["mt"], "sz": f["sz"]}
                    if self.inomode:
                        fl[name]["ino"] = "i%d" % f["ino"]
            st["fs"][d] = fl
            st["lk"][d] = lk
            st["dr"][d] = sorted(dr)
            st["dra"][d] = sorted(dra)
        c = pr["cont"][0]
        if not isinstance(c, dict):
            # snapraid loads the first copy that exists
            c = next((x for x in pr["cont"] if isinstance(x, dict)), None)
        cs = self._cstate(c)
        st["cf"], st["del"], st["info"] = cs["cf"], cs["del"], cs["info"]
        for d in self.D:
            st["clk"][d] = dict(c["links"].get(d, {})) if c else {}
            st["cdr"][d] = list(c["dirs"].get(d, [])) if c else []
        st["alts"] = [(self._cstate(x) if isinstance(x, dict) else {"cf": {}, "del": {}, "info": [], "bad": x})
                      for x in pr["cont"]]
        for l in range(self.a.conf.np):
            row = []
            for cell in (pr["par"][l] if l < len(pr["par"]) else []):
                if cell in ("JUNK", "TOOMANY"):
                    row.append([])
                else:
                    row.append([{d: (self.note_val(w[d]) if d in w else "Z") for d in self.D} for w in cell])
            st["par"].append(row)
        st["sha"] = self.digests()
        st["copies"] = [("ok" if isinstance(x, dict) else x) for x in pr["cont"]]
        st["nbad"] = sum(1 for x in pr["cont"] if not isinstance(x, dict) and x != "MISSING")
        st["copies_equal"] = all(x == pr["cont"][0] for x in pr["cont"])
        return st

    def _cstate(self, c):
        out = {"cf": {}, "del": {}, "info": []}
        bmax = c["bmax"] if c else 0
        info = c["info"] if c else []

        def kind_ok(pos, h):
            """while a hash migration is in progress a hash recorded at a marked position is one of the previous hash function
            (the observer tags it P), at any other position one of the current function; anything else is junk"""
            rh = pos < len(info) and info[pos] is not None and info[pos]["rh"]
            if isinstance(h, list) and h and h[0] == "P":
                return h[1] if rh else ["U", "prevkind-" + vs(h[1])]
            if rh and not isinstance(h, str) and not (isinstance(h, list) and h and h[0] == "U"):
                return ["U", "newkind-" + vs(h)]
            return h

        def stale(st, h):
            """the hash of past data (changed or deleted block) that no known content has: left over from the previous hash
            function after the migration of its stripe; it can never match anything again"""
            return "STALE" if st in ("CHG", "DEL") and h.startswith("U") else h

        for d in self.D:
            cf = {}
            dl = ["NONE"] * bmax
            if c and d in c["files"]:
                for name, f in c["files"][d].items():
                    self.names.add(name)
                    cf[name] = {"sz": f["sz"], "mt": f["mt"],
                                "bl": [{"pos": p, "st": s, "h": stale(s, self.hs(kind_ok(p, h)))} for p, s, h in f["bl"]]}
                    if self.inomode:
                        cf[name]["ino"] = "i%d" % f["ino"]
                for p, h in c["del"][d].items():
                    dl[int(p)] = stale("DEL", self.hs(kind_ok(int(p), h)))
            out["cf"][d] = cf
            out["del"][d] = dl
        if c:
            for e in c["info"]:
                if e is None:
                    out["info"].append({"p": False, "t": 0, "bad": False, "js": False})
                else:
                    rec = {"p": True, "t": e["t"] - BASE_TIME, "bad": e["bad"], "js": e["js"]}
                    if e.get("rh"):
                        rec["rh"] = True
                    out["info"].append(rec)
        return out

    def digests(self):
        """byte-level digests for the frame conditions (C12): data trees, parity streams, content copies, and
        the list of files that are none of these (allowed: the lock file beside the first content copy)"""
        import hashlib
        a = self.a
        h = hashlib.sha1()
        for d in range(a.conf.nd):
            snap = a.snapshot_tree(a.conf.disk_names[d])
            for k in sorted(snap):
                h.update(repr((k, snap[k][0], snap[k][1], snap[k][2], snap[k][4])).encode())
        def fsha(p):
            if not os.path.exists(p):
                return "none"
            with open(p, "rb") as f:
                b = f.read()
            return "empty" if not b else hashlib.sha1(b).hexdigest()[:16]
        ps = ["+".join(fsha(a.pfile(l, s)) for s in range(a.conf.splits[l])) for l in range(a.conf.np)]
        cs = [fsha(a.cfile(c)) for c in range(a.conf.copies)]
        extra = []
        for top in sorted(os.listdir(a.root)):
            p = os.path.join(a.root, top)
            if top in a.conf.disk_names or top in ("snapraid.conf", "urandom") or top.startswith(("log.", "trace.")):
                continue
            if os.path.isdir(p):
                for dp, dn, fn in os.walk(p):
                    for n in fn:
                        rel = os.path.relpath(os.path.join(dp, n), a.root)
                        role = a.role(os.path.join(dp, n))
                        if role.startswith(("parity:", "content:")) or (role == "lock" and rel == "c0/content.lock"):
                            continue
                        extra.append(rel)
            else:
                extra.append(top)
        return {"f": h.hexdigest()[:16], "p": ps, "c": cs, "x": sorted(extra)}

    def hs(self, h):
        if isinstance(h, str):
            return h
        return self.note_val(h)

    # ---- events
    def env(self, what, damage=False):
        self.lines.append({"e": "Env", "what": what, "dmg": damage, "state": self.state()})

    def now(self):
        return self.a.clock - BASE_TIME

    def trusted(self):
        """disks whose recorded inode numbers the next scan trusts: the UUID recorded for the disk is the one it reports now
        (--test-fake-uuid: 'fake-uuid-2' for the first data disk of the configuration, 'fake-uuid-1' for the second)"""
        if not self.inomode or getattr(self.a, "nouuid", False):
            return []
        res = []
        c = next((x for x in (self.last or {}).get("cont", []) if isinstance(x, dict)), None)
        if not c:
            return res
        nd = self.a.conf.nd
        order = list(reversed(range(nd))) if getattr(self.a, "data_reversed", False) else list(range(nd))
        for k, d in enumerate(order[:2]):
            if c.get("uuid", {}).get(str(d)) == "fake-uuid-%d" % (2 - k):
                res.append(str(d))
        return sorted(res)

    def sync(self, *flags, midrun=None, rules=None, extra_args=()):
        """midrun: shell command run after the scan and before the stripes are read (--test-run)"""
        opts = {"force_full": "-F" in flags, "force_empty": "-E" in flags, "force_zero": "-Z" in flags,
                "nocopy": "--force-nocopy" in flags,
                "kill_after": "--test-kill-after-sync" in flags}
        opts.update(_range(list(flags) + list(extra_args)))
        opts["v3"] = self.a.conf.hash_size != 16 or any(x > 1 for x in self.a.conf.splits)
        opts["prehash"] = "-h" in flags
        opts["force_realloc"] = "-R" in flags
        pre_fs = self.last["fs"]
        trusted = self.trusted()
        args = list(flags) + list(extra_args)
        if midrun:
            args = ["--test-run", midrun] + args
        r = self.a.run("sync", *args, rules=rules)
        self.last_result = r
        st = self.state()
        srcs = {d: {} for d in self.D}
        for t in r.tag("scan"):
            if len(t) >= 6 and t[1] == "copy":
                sd = str(self.a.conf.disk_names.index(t[2]))
                dd = str(self.a.conf.disk_names.index(t[4]))
                srcs[dd][t[5]] = [sd, t[3]]
        summ = {}
        for t in r.tag("summary"):
            summ.setdefault(t[1], []).append(t[2] if len(t) > 2 else "")
        ran = "error_file" in summ
        if r.rc == 0:
            ex = "ok"
        elif ran:
            ex = "error"
        else:
            ex = "stopped"
        out = {"exit": ex, "rc": r.rc, "err": int(summ.get("error_file", ["0"])[0]),
               "silent": int(summ.get("error_data", ["0"])[0]), "io": int(summ.get("error_io", ["0"])[0])}
        sg = [t for t in r.tag("sigint") if len(t) > 1 and t[1].isdigit()]
        opts["stop"] = int(sg[0][1]) + 1 if sg else 0
        line = {"e": "Sync", "args": {"opts": opts, "now": self.now(), "srcs": srcs, "flags": list(flags), "rules": rules or []},
                "state": st, "out": out}
        if self.inomode:
            line["args"]["trusted"] = trusted
        if midrun:
            line["fs1"] = st["fs"]
        self.lines.append(line)
        return r, out

    def sync_killed(self, rules, *flags, autosave_at=None):
        """sync with an injected SIGKILL (shim rules); logs the state that is left on disk"""
        opts = {"force_full": "-F" in flags, "force_empty": "-E" in flags, "force_zero": "-Z" in flags,
                "nocopy": "--force-nocopy" in flags, "kill_after": False}
        r = self.a.run("sync", *flags, rules=rules)
        self.last_result = r
        st = self.state()
        srcs = {d: {} for d in self.D}
        args = {"opts": opts, "now": self.now(), "srcs": srcs, "rules": rules, "flags": list(flags)}
        if autosave_at is not None:
            args["autosave_at"] = autosave_at
        self.lines.append({"e": "SyncKilled", "args": args, "state": st, "out": {"rc": r.rc}})
        return r

    def present_levels(self):
        res = []
        for l in range(self.a.conf.np):
            if all(os.path.exists(self.a.pfile(l, s)) for s in range(self.a.conf.splits[l])):
                res.append(l + 1)
        return res

    def _derr(self, r):
        de, pe = set(), set()
        for t in r.tag("error"):
            if len(t) >= 4 and t[1].isdigit():
                de.add((int(t[1]), str(self.a.conf.disk_names.index(t[2]))))
        for t in r.tag("parity_error"):
            if len(t) >= 4 and t[1].isdigit() and "/" not in t[2] and \
                    (t[3].startswith(" Data error") or t[3].startswith(" Read error")):
                pe.add((int(t[1]), arr.LEVELS.index(t[2]) + 1 if t[2] in arr.LEVELS else 3))
        return sorted(de), sorted(pe)

    def _exit(self, r):
        ex = [t[2] for t in r.tag("summary") if len(t) > 2 and t[1] == "exit"]
        return ex[-1] if ex else ("ok" if r.rc == 0 else "none")

    def check(self, *flags, rules=None, filt=None):
        present = self.present_levels()
        frec = None
        if filt:
            fargv, frec, pex = self.filter_args(filt)
            flags = tuple(flags) + tuple(fargv)
        r = self.a.run("check", *flags, rules=rules)
        self.last_result = r
        de, pe = self._derr(r)
        out = {"exit": self._exit(r), "rc": r.rc, "derr": [list(x) for x in de], "perr": [list(x) for x in pe]}
        args = {"audit": "-a" in flags, "present": present, "flags": list(flags), "range": _range(flags)}
        if frec:
            args["flt"] = frec
        self.lines.append({"e": "Check", "args": args, "state": self.state(), "out": out})
        return r, out

    def project_import(self, imp_stamp=None, imp_content=None):
        """what an import directory offers: file records (for -i) and block values (for --test-import-content)"""
        ext = {"stamp": [], "blocks": []}
        for kind, base in (("stamp", imp_stamp), ("blocks", imp_content)):
            if not base:
                continue
            for dp, dn, fn in os.walk(base):
                for n in fn:
                    p = os.path.join(dp, n)
                    st = os.lstat(p)
                    with open(p, "rb") as f:
                        data = f.read()
                    vals = [self.note_val(observer.vkey(self.a.classify(data[i:i + BS]))) for i in range(0, len(data), BS)]
                    if kind == "stamp":
                        ext["stamp"].append({"b": vals, "sz": len(data),
                                             "mt": [st.st_mtime_ns // 10**9 - BASE_TIME, st.st_mtime_ns % 10**9]})
                    else:
                        ext["blocks"] += vals
        return ext

    @staticmethod
    def filter_match(patterns, name):
        """-f patterns without glob characters: NAME (base name of a file), /PATH (whole path), DIR/ (any directory on the path)"""
        import re as _re
        parts = name.split("/")

        def glob(pat, text):
            # fnmatch with FNM_PATHNAME: * and ? never match a slash
            rx = "".join("[^/]*" if c == "*" else "[^/]" if c == "?" else _re.escape(c) for c in pat)
            return _re.fullmatch(rx, text) is not None
        for p in patterns:
            if "*" in p or "?" in p:
                if p.startswith("/"):
                    if glob(p[1:], name):
                        return True
                elif glob(p, parts[-1]):
                    return True
                continue
            if p.endswith("/"):
                if p[:-1] in parts[:-1]:
                    return True
            elif p.startswith("/"):
                if p[1:] == name:
                    return True
            elif p == parts[-1]:
                return True
        return False

    def filter_args(self, filt):
        """command line and the record handed to the specification for the filters of check and fix"""
        from arr import LEVELS
        pre = self.lines[-1]["state"]["cf"]
        filt = dict(filt)
        disks = [str(d) for d in filt.get("disks", [])]
        plevels = list(filt.get("plevels", []))
        pats = list(filt.get("names", []))
        argv = []
        for d in disks:
            argv += ["-d", self.a.conf.disk_names[int(d)]]
        for l in plevels:
            argv += ["-d", LEVELS[l - 1]]
        for p in pats:
            argv += ["-f", p]
        if filt.get("missing"):
            argv.append("-m")
        bad = filt.get("bad", "no")
        if bad != "no":
            argv.append("-e" if bad == "file" else "-b")
        rec = {"disks": disks, "plevels": plevels, "usenames": bool(pats),
               "names": {d: sorted(n for n in pre[d] if self.filter_match(pats, n)) for d in self.D},
               "missing": bool(filt.get("missing")),
               "exists": {d: sorted(n for n in pre[d] if os.path.lexists(self.a.path(int(d), n))) for d in self.D},
               "bad": bad, "patterns": pats}
        pex = (set(range(1, self.a.conf.np + 1)) - set(plevels)) if (disks or plevels) else \
            (set(range(1, self.a.conf.np + 1)) if (pats or filt.get("missing")) else set())
        return argv, rec, pex

    def fix(self, *flags, sel=None, imp_stamp=None, imp_content=None, filt=None):
        ext = self.project_import(imp_stamp, imp_content)
        extra = (["-i", imp_stamp] if imp_stamp else []) + (["--test-import-content", imp_content] if imp_content else [])
        present = list(range(1, self.a.conf.np + 1))
        frec = None
        if filt:
            fargv, frec, pex = self.filter_args(filt)
            extra += fargv
            # parity files that the filters exclude are only read: a missing one is not there for this run
            here = self.present_levels()
            present = [l for l in present if l not in pex or l in here]
        r = self.a.run("fix", *flags, *extra)
        self.last_result = r
        st = self.state()
        pre = self.lines[-1]["state"]["cf"]          # only recorded files (directories and links are reported too)
        rec = sorted((str(self.a.conf.disk_names.index(t[2])), t[3]) for t in r.tag("status")
                     if t[1] == "recovered" and t[3] in pre.get(str(self.a.conf.disk_names.index(t[2])), {}))
        unr = sorted((str(self.a.conf.disk_names.index(t[2])), t[3]) for t in r.tag("status")
                     if t[1] == "unrecoverable" and t[3] in pre.get(str(self.a.conf.disk_names.index(t[2])), {}))
        out = {"exit": self._exit(r), "rc": r.rc, "recovered": [list(x) for x in rec], "unrec": [list(x) for x in unr],
               # observation O1: fix stops (failing status, nothing reported) when a file that is a candidate of its search by size
               # and time stamp was renamed, removed or cut by fix itself ("file ... disappeared" / "Error reading file": search.c)
               "disappeared": ("disappeared" in r.err) or ("Error reading file" in r.err and self._exit(r) == "none")}
        if sel is None:
            sel = {d: sorted(self.lines[-1]["state"]["cf"][d].keys()) for d in self.D}
        args = {"present": present, "sel": sel, "flags": list(flags), "range": _range(flags), "ext": ext}
        if frec:
            args["flt"] = frec
        self.lines.append({"e": "Fix", "args": args, "state": st, "out": out})
        return r, out

    def _fault_info(self, r, st):
        """kind and stripe position of the injected fault, from the shim trace of the faulted run"""
        ev = [e for e in r.trace if e.get("inj") in ("eio", "enospc")]
        if not ev:
            return "none", -1
        e = ev[0]
        role = self.a.role(e["path"])
        blk = e["off"] // BS if e["off"] >= 0 else -1
        if role.startswith("parity:"):
            return ("parity-write" if e["c"] == "pwrite" else "parity-read"), blk
        if role.startswith("data:"):
            d = role.split(":")[1]
            name = os.path.relpath(e["path"], self.a.ddir(int(d)))
            f = st["cf"].get(d, {}).get(name)
            if f and 0 <= blk < len(f["bl"]):
                return "data-read", f["bl"][blk]["pos"]
            return "data-read", -1
        return "other", -1

    def sync_fault(self, rules, *flags):
        opts = {"force_full": "-F" in flags, "force_empty": "-E" in flags, "force_zero": "-Z" in flags,
                "nocopy": False, "kill_after": False, "stop": 0, "prehash": "-h" in flags,
                "v3": self.a.conf.hash_size != 16 or any(x > 1 for x in self.a.conf.splits)}
        opts.update(_range(list(flags)))
        r = self.a.run("sync", *flags, rules=rules, trace=True)
        self.last_result = r
        st = self.state()
        kind, pos = self._fault_info(r, st)
        summ = {t[1]: t[2] for t in r.tag("summary") if len(t) > 2}
        srcs = {d: {} for d in self.D}
        for t in r.tag("scan"):
            if len(t) >= 6 and t[1] == "copy":
                srcs[str(self.a.conf.disk_names.index(t[4]))][t[5]] = [str(self.a.conf.disk_names.index(t[2])), t[3]]
        self.lines.append({"e": "SyncFault", "args": {"opts": opts, "now": self.now(), "rules": rules, "flags": list(flags), "srcs": srcs,
                                                       "fkind": kind, "fpos": pos},
                           "state": st, "out": {"rc": r.rc, "io": int(summ.get("error_io", "0") or 0)}})
        return r, kind, pos

    def scrub_fault(self, rules, plan="full", *flags):
        present = self.present_levels()
        r = self.a.run("scrub", "-p", plan, *flags, rules=rules, trace=True, trace_reads=False)
        self.last_result = r
        st = self.state()
        kind, pos = self._fault_info(r, st)
        summ = {t[1]: t[2] for t in r.tag("summary") if len(t) > 2}
        self.lines.append({"e": "ScrubFault", "args": {"now": self.now(), "rules": rules, "flags": list(flags), "plan": plan, "present": present,
                                                        "fkind": kind, "fpos": pos},
                           "state": st, "out": {"rc": r.rc, "io": int(summ.get("error_io", "0") or 0)}})
        return r, kind, pos

    def refused(self, cmd, trigger, *args, conf=None, result=None):
        """a command that is expected to be refused (C14); logs rc and the state left behind"""
        r = result if result is not None else self.a.run(cmd, *args, conf=conf)
        self.last_result = r
        self.lines.append({"e": "Refused", "args": {"cmd": cmd, "trigger": trigger, "flags": [str(x) for x in args]},
                           "state": self.state(), "out": {"rc": r.rc, "err": r.err.strip().splitlines()[-2:]}})
        return r

    def fix_killed(self, rules, *flags):
        r = self.a.run("fix", *flags, rules=rules)
        self.last_result = r
        self.lines.append({"e": "FixKilled", "args": {"rules": rules, "flags": list(flags)}, "state": self.state(),
                           "out": {"rc": r.rc}})
        return r

    def scrub(self, plan="full", *flags, rules=None):
        present = self.present_levels()
        # pct100: the percentage plan with everything selected (-p 100 -o 0)
        pargs = ["-p", "100", "-o", "0"] if plan == "pct100" else ["-p", plan]
        r = self.a.run("scrub", *pargs, *flags, rules=rules)
        self.last_result = r
        de, pe = self._derr(r)
        out = {"exit": self._exit(r), "rc": r.rc, "derr": [list(x) for x in de], "perr": [list(x) for x in pe]}
        self.lines.append({"e": "Scrub", "args": {"plan": plan, "now": self.now(), "present": present, "flags": list(flags)},
                           "state": self.state(), "out": out})
        return r, out

    def list(self):
        r = self.a.run("list")
        self.last_result = r
        files = [[str(self.a.conf.disk_names.index(t[1])), t[2], int(t[3]), int(t[4]) - BASE_TIME, int(t[5])]
                 for t in r.tags if t[0] == "file" and len(t) >= 6]
        links = [[str(self.a.conf.disk_names.index(t[1])), t[2], t[0][5:], t[3]] for t in r.tags
                 if t[0] in ("link_symlink", "link_hardlink") and len(t) >= 4]
        out = {"rc": r.rc, "files": files, "links": links}
        self.lines.append({"e": "List", "args": {}, "state": self.state(), "out": out})
        return r, out

    def rehash(self):
        """snapraid rehash, run without the option that pins the hash function of the array (so that the best one of the
        platform differs from the one in use)"""
        c = next((x for x in self.last["cont"] if isinstance(x, dict)), None)
        best = c is None or c["hk"] == "spooky2"
        r = self.a.run("rehash", hashflag=False)
        self.last_result = r
        self.lines.append({"e": "Rehash", "args": {"best": best}, "state": self.state(), "out": {"rc": r.rc}})
        return r, {"exit": "ok" if r.rc == 0 else "rc%d" % r.rc}

    def touch(self):
        r = self.a.run("touch")
        self.last_result = r
        self.lines.append({"e": "Touch", "args": {}, "state": self.state(), "out": {"rc": r.rc}})
        return r, {"exit": "ok" if r.rc == 0 else "rc%d" % r.rc}

    def diff(self):
        trusted = self.trusted()
        r = self.a.run("diff")
        ex = [t[2] for t in r.tag("summary") if len(t) > 2 and t[1] == "exit"]
        out = {"exit": "equal" if r.rc == 0 else ("diff" if r.rc == 2 else "rc%d" % r.rc), "rc": r.rc,
               "scan": ex[-1] if ex else "none"}
        self.lines.append({"e": "Diff", "args": ({"trusted": trusted} if self.inomode else {}), "state": self.state(), "out": out})
        return r, out

    # ---- output
    def header(self):
        return {"D": self.D, "NP": self.a.conf.np, "BS": BS, "vlen": self.vlen, "names": sorted(self.names),
                "hs": self.a.conf.hash_size}


def write_traces(path, recs, known=None):
    """several executions (same nd, np) in one file; header constants are the union over executions"""
    vlen, names = {}, set()
    for r in recs:
        vlen.update(r.vlen)
        names |= r.names
    hdr = dict(recs[0].header())
    hdr["vlen"] = vlen if vlen else {"__none__": 0}
    hdr["names"] = sorted(names, key=lambda s: s.encode("latin1"))
    if known:
        hdr["known"] = [list(k) for k in known]
    n = 0
    with open(path, "w") as f:
        for i, r in enumerate(recs):
            for j, line in enumerate(r.lines):
                o = dict(line)
                if i == 0 and j == 0:
                    o.update(hdr)
                f.write(json.dumps(o) + "\n")
                n += 1
    return n
