"""Kill-point enumeration for sync (C07, C09b): every state-changing system call of a real sync is a kill point
(before / after / short write).  Each experiment runs on a clone of a prepared array and is recorded as its own
execution: Reset(base) ; SyncKilled(rule) ; Sync (resume) ; Check ; [lose a device ; Fix ; Check]."""
import os, random
import arr, recorder, scen, observer, vlib


def prepare(seed, conf, pending="mixed", presteps=10):
    """a Gen whose array has been synced and then has pending changes of the requested kind"""
    g = scen.Gen(seed, conf=conf, profile="syncheavy")
    rng = g.rng
    if pending == "tiny":
        # one stripe only (the spare file of every disk): every stripe a scrub processes can be made to fail
        g.rec.sync("-E"); g.steps.append("sync -E")
        return g
    for _ in range(presteps):
        d = rng.choice([g.op_add, g.op_add, g.op_delete, g.op_touch])()
        if d:
            g.rec.env(d); g.steps.append(d)
    g.rec.sync("-E"); g.steps.append("sync -E")
    if pending == "holes":
        # files are deleted and the deletion is synced, so that new files fit into the holes without growing the parity
        for d in range(conf.nd):
            fl = [f for f in g.files(d) if f != "zz"]
            for f in fl[:max(1, len(fl) // 2)]:
                g.a.remove(d, f); g.rec.env("delete %d/%s" % (d, f)); g.steps.append("delete %d/%s" % (d, f))
        g.a.write_file(0, "TAIL", g.content(3), mtime=g.stamp()); g.rec.env("write 0/TAIL"); g.steps.append("write 0/TAIL")
        g.a.clock += 10
        g.rec.sync("-E"); g.steps.append("sync -E")
    if pending == "partial":
        # a synced multi-block file is rewritten with the same bytes except its first block: all its stripes are gone through
        # by the next sync, only the first needs a parity write; plus one new file on another disk
        big = list(range(900, 906))
        g.a.write_file(0, "BIG", big, mtime=g.stamp()); g.rec.env("write 0/BIG"); g.steps.append("write 0/BIG %r" % big)
        g.a.clock += 10
        g.rec.sync("-E"); g.steps.append("sync -E")
        g.a.write_file(0, "BIG", [950] + big[1:], mtime=g.stamp()); g.rec.env("rewrite the first block of 0/BIG")
        g.steps.append("rewrite the first block of 0/BIG")
        return g
    if pending == "rehash":
        # a hash migration is scheduled over the synced array, then a long file of disk 0 (reaching beyond the allocation of the
        # other disks) is rewritten: the next sync goes through all its stripes, re-hashing the synced blocks of the other disks
        big = list(range(900, 910))
        g.a.write_file(0, "BIG", big, mtime=g.stamp()); g.rec.env("write 0/BIG"); g.steps.append("write 0/BIG %r" % big)
        g.a.clock += 10
        g.rec.sync("-E"); g.steps.append("sync -E")
        g.rec.rehash(); g.steps.append("rehash")
        g.a.clock += 10
        g.a.write_file(0, "BIG", list(range(950, 960)), mtime=g.stamp()); g.rec.env("rewrite 0/BIG")
        g.steps.append("rewrite 0/BIG")
        return g
    if pending == "emptydisk":
        # the last disk holds one long file only, from position 0 to beyond the allocation of the other disks; then it loses it
        last = conf.nd - 1
        for f in g.files(last):
            g.a.remove(last, f)
        big = [g.val() for _ in range(rng.randint(5, 7))]
        g.a.write_file(last, "LONG", big, mtime=g.stamp()); g.rec.env("disk %d holds LONG only" % last); g.steps.append("disk %d: only LONG %r" % (last, big))
        for d in range(last):
            for f in [x for x in g.files(d) if x != "zz"][1:]:
                g.a.remove(d, f)
        g.rec.env("the other disks keep one file each"); g.steps.append("the other disks keep zz and one file")
        g.a.clock += 10
        g.rec.sync("-E"); g.steps.append("sync -E")
        g.a.remove(last, "LONG")
        g.rec.env("delete LONG"); g.steps.append("delete %d/LONG" % last)
        return g
    if pending == "deletes":
        # only deletions are pending (of files that are fully synced)
        k = 0
        for d in range(conf.nd):
            fl = [f for f in g.files(d) if f != "zz"]
            for f in fl[:1 + (seed + d) % 2]:
                g.a.remove(d, f); g.rec.env("delete %d/%s" % (d, f)); g.steps.append("delete %d/%s" % (d, f)); k += 1
        if k:
            return g
    n = 0
    while n < 3:
        if pending in ("adds", "holes"):
            # only new names
            d = rng.randrange(conf.nd) if pending == "adds" else (1 + n) % conf.nd
            name = "N%d" % n
            vals = g.content(rng.randint(1, 3) if pending == "adds" else 1)
            g.a.write_file(d, name, vals, mtime=g.stamp())
            desc = "write %d/%s %r" % (d, name, vals)
        else:
            desc = rng.choice([g.op_add, g.op_add, g.op_delete, g.op_touch])()
        if desc:
            g.rec.env(desc); g.steps.append(desc)
            n += 1
    return g


def state_changing_calls(a, *flags):
    """number of state-changing calls of a sync run on a clone (the array itself is not touched)"""
    c = a.clone()
    try:
        r = c.run("sync", *flags, trace=True)
        calls = [e for e in r.trace if e["c"] not in ("pread", "read", "openw") and c.role(e["path"]) != "log"]
        return len(calls), [(e["c"], c.role(e["path"])) for e in calls]
    finally:
        c.destroy()


def _vals(hs):
    out = []
    for h in hs:
        if h.startswith("v") and h[1:].isdigit():
            out.append(int(h[1:]))
        elif h.startswith("s") and h[1:].isdigit():
            out.append(("s", int(h[1:])))
        else:
            return None
    return out


def experiment(g, rule, flags=(), lose=None, seed=0, restore=False):
    """one kill experiment on a clone; returns a Recorder-like record (lines etc.) and a description.
    restore: after the kill the user puts back (same bytes, same time stamp) the files whose deletion was pending"""
    c = g.a.clone()
    try:
        rec = recorder.Recorder(c, obs=g.rec.obs.clone_for(c))
        rec.vlen.update(g.rec.vlen); rec.names |= g.rec.names
        desc = ["base seed %s" % seed, "kill rule " + rule]
        pre = g.rec.lines[-1]["state"]
        r = rec.sync_killed([rule], *flags)
        desc.append("sync killed rc=%s" % r.rc)
        if restore:
            back = []
            for d in rec.D:
                for n, f in pre["cf"][d].items():
                    vals = _vals([b["h"] for b in f["bl"]])
                    if n not in pre["fs"][d] and not os.path.lexists(c.path(int(d), n)) and vals is not None and f["mt"][0] >= 0 \
                            and all(b["st"] == "BLK" for b in f["bl"]):
                        c.write_file(int(d), n, vals, mtime=f["mt"][0], mtime_ns=f["mt"][1])
                        back.append("%s/%s" % (d, n))
            if back:
                rec.env("restore " + " ".join(back)); desc.append("restore (same bytes and stamp) " + " ".join(back))
        c.clock += 10
        r2, out = rec.sync(*flags); desc.append("resume sync -> %s" % out["exit"])
        resumed = out["exit"] == "ok"          # a refused resume (e.g. parity already cut, files put back) is judged by C14
        r3, out = rec.check(); desc.append("check -> %s" % out["exit"])
        checked_clean = out["exit"] == "ok"    # (if not, that check step is where C07 - or a recorded finding met on the way - is reported)
        if resumed:
            rec.lines[-1]["args"]["expect_clean"] = True      # "running sync again completes and re-establishes the full guarantee"
        if lose is not None:
            kind, i = lose
            if kind == "d":
                c.lose_disk(i)
            else:
                c.lose_parity(i)
            rec.env("lose %s%d" % (kind, i), damage=True); desc.append("lose %s%d" % (kind, i))
            r4, out = rec.fix(); desc.append("fix -> %s" % out["exit"])
            if resumed and checked_clean:
                rec.lines[-1]["args"]["expect_c01"] = True
            r5, out = rec.check(); desc.append("check -> %s" % out["exit"])
        return rec, desc
    finally:
        c.destroy()


def fix_experiment(g, damage, rule, seed=0):
    """kill a fix at a chosen call, run fix again, and compare with an uninterrupted fix on a twin"""
    res = {}
    finals = []
    for variant in ("killed", "twin"):
        c = g.a.clone()
        try:
            rec = recorder.Recorder(c, obs=g.rec.obs.clone_for(c))
            rec.vlen.update(g.rec.vlen); rec.names |= g.rec.names
            desc = ["fix experiment %s rule %s" % (variant, rule)]
            for kind, i in damage:
                if kind == "d":
                    c.lose_disk(i)
                else:
                    c.lose_parity(i)
                rec.env("lose %s%d" % (kind, i), damage=True); desc.append("lose %s%d" % (kind, i))
            if variant == "killed":
                r = rec.fix_killed([rule]); desc.append("fix killed rc=%s" % r.rc)
            r, out = rec.fix(); desc.append("fix -> %s" % out["exit"])
            final = {d: {n: (tuple(f["b"]), f["sz"], tuple(f["mt"])) for n, f in rec.lines[-1]["state"]["fs"][d].items()}
                     for d in rec.D}
            r, out = rec.check(); desc.append("check -> %s" % out["exit"])
            finals.append(final)
            if variant == "killed":
                res = {"rec": rec, "desc": desc}
        finally:
            c.destroy()
    # same file contents; only the mtime of a file whose rewrite was cut short may differ
    diffs = []
    k, t = finals
    for d in t:
        for n in set(t[d]) | set(k[d]):
            if n not in k[d] or n not in t[d]:
                diffs.append((d, n, "presence"))
            elif k[d][n][:2] != t[d][n][:2]:
                diffs.append((d, n, "content"))
            elif k[d][n][2] != t[d][n][2]:
                diffs.append((d, n, "mtime"))
    res["diffs"] = diffs
    return res


def fix_sigint_experiment(g, seed=0):
    """fix interrupted gracefully (SIGINT) after a write into one of the files it repairs, with only SOME files of a disk lost
    (the others stay intact next to the re-created ones); fix again; compared with an uninterrupted fix on a twin"""
    import random
    rng = random.Random(seed)
    st = g.rec.lines[-1]["state"]
    lost = []
    for d in g.rec.D:
        names = sorted(n for n in st["cf"][d] if n in st["fs"][d] and st["cf"][d][n]["bl"])
        if len(names) >= 2:
            lost.append((int(d), names[0]))            # the first file of the disk (scan order) is lost, later ones stay
    if not lost:
        return None
    lost = lost[:max(1, len(st["par"]))]
    finals, res, removed = [], {}, []
    for variant in ("interrupted", "twin"):
        c = g.a.clone()
        try:
            rec = recorder.Recorder(c, obs=g.rec.obs.clone_for(c))
            rec.vlen.update(g.rec.vlen); rec.names |= g.rec.names
            desc = ["fix experiment %s" % variant]
            for d, n in lost:
                c.remove(d, n)
            rec.env("lose " + " ".join("%d/%s" % x for x in lost), damage=True); desc.append("lose " + " ".join("%d/%s" % x for x in lost))
            if variant == "interrupted":
                # the signal arrives while fix reads an intact file that follows a re-created one on the same disk (or, every
                # other time, after one of its first writes)
                d0, n0 = lost[0]
                later = sorted((n for n in st["cf"][str(d0)] if n in st["fs"][str(d0)] and n != n0 and st["cf"][str(d0)][n]["bl"]
                                and st["cf"][str(d0)][n]["bl"][0]["pos"] > st["cf"][str(d0)][n0]["bl"][0]["pos"]),
                               key=lambda n: -len(st["cf"][str(d0)][n]["bl"]))
                if later and seed % 2 == 0:
                    rule = "pread,%s,1,sigint" % os.path.join(os.path.basename(c.ddir(d0)), later[0])
                else:
                    rule = "pwrite,%s/,%d,sigint" % (os.path.basename(c.ddir(d0)), rng.randint(1, 3))
                before = {d: dict(st["fs"][d]) for d in rec.D}
                r = rec.fix_killed([rule]); desc.append("fix stopped by SIGINT (%s) rc=%s" % (rule, r.rc))
                # whatever the moment of the interruption, a file that was intact before the fix is still there with its bytes
                after = rec.lines[-1]["state"]["fs"]
                def intact(d, n, f):
                    r_ = st["cf"][d].get(n)
                    return r_ is not None and r_["sz"] == f["sz"] and r_["mt"] == f["mt"] and [b["h"] for b in r_["bl"]] == f["b"]
                gone = [(d, n) for d in rec.D for n, f in before[d].items()
                        if (int(d), n) not in lost and intact(d, n, f) and (n not in after[d] or after[d][n]["b"] != f["b"])]
                removed = gone
            r, out = rec.fix(); desc.append("fix -> %s" % out["exit"])
            final = {d: {n: (tuple(f["b"]), f["sz"]) for n, f in rec.lines[-1]["state"]["fs"][d].items()} for d in rec.D}
            r, out = rec.check(); desc.append("check -> %s" % out["exit"])
            finals.append(final)
            if variant == "interrupted":
                res = {"rec": rec, "desc": desc}
        finally:
            c.destroy()
    res["diffs"] = [(d, n) for d in finals[1] for n in set(finals[0][d]) | set(finals[1][d]) if finals[0][d].get(n) != finals[1][d].get(n)]
    res["diffs"] += [("intact file removed or changed by the interrupted fix",) + tuple(x) for x in removed]
    return res


def fix_calls(g, damage):
    c = g.a.clone()
    try:
        for kind, i in damage:
            if kind == "d":
                c.lose_disk(i)
            else:
                c.lose_parity(i)
        r = c.run("fix", trace=True)
        calls = [e for e in r.trace if e["c"] not in ("pread", "read", "openw") and c.role(e["path"]) != "log"]
        return len(calls), [(e["c"], c.role(e["path"])) for e in calls]
    finally:
        c.destroy()
