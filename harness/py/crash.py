"""Kill-point enumeration for sync (C07, C09b): every state-changing system call of a real sync is a kill point
(before / after / short write).  Each experiment runs on a clone of a prepared array and is recorded as its own
execution: Reset(base) ; SyncKilled(rule) ; Sync (resume) ; Check ; [lose a device ; Fix ; Check]."""
import os, random
import arr, recorder, scen, observer, vlib


def prepare(seed, conf, pending="mixed", presteps=10):
    """a Gen whose array has been synced and then has pending changes of the requested kind"""
    g = scen.Gen(seed, conf=conf, profile="syncheavy")
    rng = g.rng
    for _ in range(presteps):
        d = rng.choice([g.op_add, g.op_add, g.op_delete, g.op_touch])()
        if d:
            g.rec.env(d); g.steps.append(d)
    g.rec.sync("-E"); g.steps.append("sync -E")
    n = 0
    while n < 3:
        if pending == "adds":
            # only new names
            d = rng.randrange(conf.nd)
            name = "N%d" % n
            vals = g.content(rng.randint(1, 3))
            g.a.write_file(d, name, vals, mtime=g.stamp())
            desc = "write %d/%s %r" % (d, name, vals)
        else:
            desc = rng.choice([g.op_add, g.op_add, g.op_delete, g.op_touch])()
        if desc:
            g.rec.env(desc); g.steps.append(desc)
            n += 1
    return g


def state_changing_calls(a, *flags):
    """number of state-changing calls of a sync run on a clone (the array itself is not touched)"""
    c = a.clone()
    try:
        r = c.run("sync", *flags, trace=True)
        calls = [e for e in r.trace if e["c"] not in ("pread", "read", "openw") and c.role(e["path"]) != "log"]
        return len(calls), [(e["c"], c.role(e["path"])) for e in calls]
    finally:
        c.destroy()


def experiment(g, rule, flags=(), lose=None, seed=0):
    """one kill experiment on a clone; returns a Recorder-like record (lines etc.) and a description"""
    c = g.a.clone()
    try:
        rec = recorder.Recorder(c, obs=g.rec.obs.clone_for(c))
        rec.vlen.update(g.rec.vlen); rec.names |= g.rec.names
        desc = ["base seed %s" % seed, "kill rule " + rule]
        r = rec.sync_killed([rule], *flags)
        desc.append("sync killed rc=%s" % r.rc)
        c.clock += 10
        r2, out = rec.sync(*flags); desc.append("resume sync -> %s" % out["exit"])
        r3, out = rec.check(); desc.append("check -> %s" % out["exit"])
        if lose is not None:
            kind, i = lose
            if kind == "d":
                c.lose_disk(i)
            else:
                c.lose_parity(i)
            rec.env("lose %s%d" % (kind, i), damage=True); desc.append("lose %s%d" % (kind, i))
            r4, out = rec.fix(); rec.lines[-1]["args"]["expect_c01"] = True; desc.append("fix -> %s" % out["exit"])
            r5, out = rec.check(); desc.append("check -> %s" % out["exit"])
        return rec, desc
    finally:
        c.destroy()


def fix_experiment(g, damage, rule, seed=0):
    """kill a fix at a chosen call, run fix again, and compare with an uninterrupted fix on a twin"""
    res = {}
    finals = []
    for variant in ("killed", "twin"):
        c = g.a.clone()
        try:
            rec = recorder.Recorder(c, obs=g.rec.obs.clone_for(c))
            rec.vlen.update(g.rec.vlen); rec.names |= g.rec.names
            desc = ["fix experiment %s rule %s" % (variant, rule)]
            for kind, i in damage:
                if kind == "d":
                    c.lose_disk(i)
                else:
                    c.lose_parity(i)
                rec.env("lose %s%d" % (kind, i), damage=True); desc.append("lose %s%d" % (kind, i))
            if variant == "killed":
                r = rec.fix_killed([rule]); desc.append("fix killed rc=%s" % r.rc)
            r, out = rec.fix(); desc.append("fix -> %s" % out["exit"])
            final = {d: {n: (tuple(f["b"]), f["sz"], tuple(f["mt"])) for n, f in rec.lines[-1]["state"]["fs"][d].items()}
                     for d in rec.D}
            r, out = rec.check(); desc.append("check -> %s" % out["exit"])
            finals.append(final)
            if variant == "killed":
                res = {"rec": rec, "desc": desc}
        finally:
            c.destroy()
    # same file contents; only the mtime of a file whose rewrite was cut short may differ
    diffs = []
    k, t = finals
    for d in t:
        for n in set(t[d]) | set(k[d]):
            if n not in k[d] or n not in t[d]:
                diffs.append((d, n, "presence"))
            elif k[d][n][:2] != t[d][n][:2]:
                diffs.append((d, n, "content"))
            elif k[d][n][2] != t[d][n][2]:
                diffs.append((d, n, "mtime"))
    res["diffs"] = diffs
    return res


def fix_calls(g, damage):
    c = g.a.clone()
    try:
        for kind, i in damage:
            if kind == "d":
                c.lose_disk(i)
            else:
                c.lose_parity(i)
        r = c.run("fix", trace=True)
        calls = [e for e in r.trace if e["c"] not in ("pread", "read", "openw") and c.role(e["path"]) != "log"]
        return len(calls), [(e["c"], c.role(e["path"])) for e in calls]
    finally:
        c.destroy()
