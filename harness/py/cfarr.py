"""Arrays built around a given content state (spec state of cfmt.py / ContentFormat.tla): the configuration is
derived from the state (disk names in section order, parity levels and split paths, block size, hash size), the
content bytes are installed as the content copies, and the rebuilt snapraid is run on it.  Also: what `list`,
`status -G` and `diff` must report for a state (expected tags computed from the state alone).

Used by props/C10.py (spec -> code direction) and props/C09.py (damage sweep)."""
import hashlib, os, shutil, subprocess, time

import vlib, cfmt, arr

LEVELS = arr.LEVELS
HASHNAME = {117: "murmur3", 107: "spooky2", 109: "metro"}
FLAGS = ["--test-skip-device", "--test-skip-self", "--test-force-order-alpha", "--no-warnings", "-q", "-q", "-q"]
SAN_MARKS = ("ERROR: AddressSanitizer", "runtime error:", "ERROR: LeakSanitizer", "AddressSanitizer:DEADLYSIGNAL",
             "ERROR: UndefinedBehaviorSanitizer")


def configurable(s):
    """states the configuration parser can describe: hash size a power of two, block size a multiple of 1 KiB,
    plain disk names"""
    return s["hs"] in (2, 4, 8, 16) and s["bs"] % 1024 == 0 and all(
        all(48 <= c < 127 for c in m["name"]) for m in s["maps"])


class SpecArray:
    def __init__(self, s, root=None, copies=2, binary=None, shim=True, extra_empty_disk=False):
        self.s = s
        self.copies = copies
        self.own = root is None
        self.root = root or vlib.scratch_root()
        os.makedirs(self.root, exist_ok=True)
        self.bin = binary or vlib.build("hooks")
        self.shim = vlib.build_shim() if shim else None
        self.ncmd = 0
        lines = ["blocksize %d" % (s["bs"] // 1024)]
        if s["hs"] != 16:
            lines.append("hashsize %d" % s["hs"])
        v3 = cfmt.Ver(s) == 3
        self.parity_paths = []
        for l, P in enumerate(s["parity"]):
            paths = []
            for k, sp in enumerate(P["splits"]):
                # version 3 files carry the configured paths (relative ones are kept verbatim: commands run with
                # the array root as working directory); version 2 files do not carry them
                p = bytes(sp["path"]).decode("latin1") if v3 and sp["path"] else "p%d/parity.%d" % (l, k)
                paths.append(p)
                os.makedirs(os.path.join(self.root, os.path.dirname(p)), exist_ok=True)
            self.parity_paths.append(paths)
            lines.append("%s %s" % (LEVELS[l], ",".join(paths)))
        for c in range(copies):
            os.makedirs(os.path.join(self.root, "c%d" % c), exist_ok=True)
            lines.append("content %s" % self.cfile(c))
        self.disk_names = []
        for Dk in s["disks"]:
            nm = bytes(s["maps"][Dk["map"] - 1]["name"]).decode("latin1")
            self.disk_names.append(nm)
            os.makedirs(os.path.join(self.root, nm), exist_ok=True)
            lines.append("data %s %s/" % (nm, os.path.join(self.root, nm)))
        if extra_empty_disk:
            os.makedirs(os.path.join(self.root, "dx"), exist_ok=True)
            lines.append("data dx %s/" % os.path.join(self.root, "dx"))
        self.conf = os.path.join(self.root, "snapraid.conf")
        with open(self.conf, "w") as f:
            f.write("\n".join(lines) + "\n")

    def cfile(self, c):
        return os.path.join(self.root, "c%d" % c, "content")

    def install(self, data, only=None):
        for c in range(self.copies):
            if only is None or c in only:
                with open(self.cfile(c), "wb") as f:
                    f.write(data)

    def read(self, c):
        with open(self.cfile(c), "rb") as f:
            return f.read()

    def run(self, cmd, *args, now=None, timeout=120, conf=None):
        self.ncmd += 1
        log = os.path.join(self.root, "log.%d" % self.ncmd)
        argv = [self.bin, "-c", conf or self.conf] + FLAGS + ["-l", log, cmd] + [str(a) for a in args]
        env = dict(os.environ)
        if self.shim:
            env["LD_PRELOAD"] = self.shim
            env["VSHIM_ROOT"] = self.root
            env["VSHIM_STATFS"] = "1"
            if now is not None:
                env["VSHIM_TIME"] = str(now)
        t0 = time.time()
        timed_out = False
        try:
            p = subprocess.run(argv, cwd=self.root, env=env, stdout=subprocess.PIPE, stderr=subprocess.PIPE,
                               timeout=timeout)
            rc, out, err = p.returncode, p.stdout, p.stderr
        except subprocess.TimeoutExpired as e:
            rc, out, err, timed_out = -999, e.stdout or b"", e.stderr or b"", True
        tags = []
        if os.path.exists(log):
            with open(log, "rb") as f:
                for line in f.read().split(b"\n"):
                    if line:
                        tags.append(arr.split_tag(line))
            os.remove(log)
        r = arr.Result(rc, out.decode("latin1"), err.decode("latin1"), tags, [], argv, timed_out)
        r.wall = time.time() - t0
        return r

    def destroy(self):
        if self.own:
            shutil.rmtree(self.root, ignore_errors=True)


# ---------------------------------------------------------------------------------------
# expected reports

def _s(b):
    return bytes(b).decode("latin1")


def _i64(n):
    return n - (1 << 64) if n >= (1 << 63) else n


def expect_list(s):
    """multiset of the list -l tags (as tuples of strings) for the state"""
    res = []
    nfile = nlink = 0
    size = 0
    for Dk in s["disks"]:
        dn = _s(s["maps"][Dk["map"] - 1]["name"])
        for f in Dk["files"]:
            nfile += 1
            size += cfmt.dnat(f["size"])
            res.append(("file", dn, _s(f["name"]), str(cfmt.dnat(f["size"])), str(_i64(cfmt.dnat(f["sec"]))),
                        str(f["nsec"] & 0xFFFFFFFF), str(_i64(cfmt.dnat(f["ino"])))))
        for l in Dk["links"]:
            nlink += 1
            res.append(("link_hardlink" if l["kind"] == 97 else "link_symlink", dn, _s(l["name"]), _s(l["to"])))
    res.append(("summary", "file_count", str(nfile)))
    res.append(("summary", "file_size", str(size)))
    res.append(("summary", "link_count", str(nlink)))
    return sorted(res)


def got_list(tags):
    return sorted(tuple(t) for t in tags if t[0] in ("file", "link_hardlink", "link_symlink")
                  or (t[0] == "summary" and t[1] in ("file_count", "file_size", "link_count")))


def expect_status(s, now, blocks=True):
    """the status -G tags that are functions of the recorded state"""
    v = cfmt.LoadView(s, now)
    bmax = cfmt.Bmax(s)
    used = cfmt.AllPos(s)
    invalid = set()
    for Dk in s["disks"]:
        for f in Dk["files"]:
            for b in f["blocks"]:
                if b["st"] != 98:
                    invalid.add(cfmt.unat(b["pos"]))
        for e in Dk["del"]:
            invalid.add(cfmt.unat(e["pos"]))
    info = {cfmt.unat(e["pos"]): e for e in v["info"]}
    res = []
    res.append(("summary", "block_size", str(s["bs"])))
    res.append(("summary", "parity_block_count", str(bmax)))
    for l, P in enumerate(s["parity"]):
        res.append(("summary", "parity_block_total", LEVELS[l], str(cfmt.unat(P["total"]))))
        res.append(("summary", "parity_block_free", LEVELS[l], str(cfmt.unat(P["free"]))))
        if cfmt.Ver(s) == 3:
            for k, sp in enumerate(P["splits"]):
                res.append(("content", LEVELS[l], str(k), "*", _s(sp["uuid"]), str(_i64(cfmt.dnat(sp["size"])))))
    nfile = 0
    nblk = 0
    size = 0
    for Dk in s["disks"]:
        m = s["maps"][Dk["map"] - 1]
        dn = _s(m["name"])
        res.append(("summary", "disk_file_count", dn, str(len(Dk["files"]))))
        res.append(("summary", "disk_block_count", dn, str(sum(len(f["blocks"]) for f in Dk["files"]))))
        res.append(("summary", "disk_file_size", dn, str(sum(cfmt.dnat(f["size"]) for f in Dk["files"]))))
        res.append(("summary", "disk_block_total", dn, str(cfmt.unat(m["total"]))))
        res.append(("summary", "disk_block_free", dn, str(cfmt.unat(m["free"]))))
        nfile += len(Dk["files"])
        nblk += sum(len(f["blocks"]) for f in Dk["files"])
        size += sum(cfmt.dnat(f["size"]) for f in Dk["files"])
    res.append(("summary", "file_count", str(nfile)))
    res.append(("summary", "file_block_count", str(nblk)))
    res.append(("summary", "file_size", str(size)))
    res.append(("summary", "hash", HASHNAME[s["hash"]["kind"]]))
    res.append(("summary", "prev_hash", HASHNAME[v["prev"][0]["kind"]] if v["prev"] else "undefined"))
    res.append(("block_count", str(bmax)))
    if blocks:
        for p in range(bmax):
            u = "used" if p in used else ""
            iv = "unsynced" if p in invalid else ""
            if p in info:
                e = info[p]
                res.append(("block", str(p), str(cfmt.unat(e["t"])), u, iv, "bad" if e["bad"] else "",
                            "rehash" if e["rehash"] else ""))
            else:
                res.append(("block_noinfo", str(p), u, iv))
    res.append(("summary", "has_unsynced", str(len(used & invalid))))
    res.append(("summary", "has_unscrubbed", str(sum(1 for e in v["info"] if e["js"]))))
    res.append(("summary", "has_rehash", str(sum(1 for e in v["info"] if e["rehash"]))))
    bad = sorted(p for p, e in info.items() if e["bad"])
    res.append(("summary", "has_bad", str(len(bad)), str(bad[0] if bad else 0), str(bad[-1] if bad else 0)))
    if v["info"]:                       # status.c:355 stops before this tag when no position has info
        res.append(("info_count", str(len(v["info"]))))
    return sorted(res)


_STATUS_SUMMARY = {"block_size", "parity_block_count", "parity_block_total", "parity_block_free", "disk_file_count",
                   "disk_block_count", "disk_file_size", "disk_block_total", "disk_block_free", "file_count",
                   "file_block_count", "file_size", "hash", "prev_hash", "has_unsynced", "has_unscrubbed",
                   "has_rehash", "has_bad"}


def got_status(tags, blocks=True, empty_disks=()):
    res = []
    for t in tags:
        if t[0] == "summary" and t[1] in _STATUS_SUMMARY:
            if t[1].startswith("disk_") and t[2] in empty_disks:
                continue
            res.append(tuple(t))
        elif t[0] in ("block_count", "info_count"):
            res.append(tuple(t))
        elif t[0] in ("block", "block_noinfo") and blocks:
            res.append(tuple(t))
        elif t[0] == "content" and len(t) == 6:
            res.append((t[0], t[1], t[2], "*", t[4], t[5]))
    return sorted(res)


def expect_diff_removed(s):
    res = []
    for Dk in s["disks"]:
        dn = _s(s["maps"][Dk["map"] - 1]["name"])
        for f in Dk["files"]:
            res.append(("scan", "remove", dn, _s(f["name"])))
        for l in Dk["links"]:
            res.append(("scan", "remove", dn, _s(l["name"])))
    return sorted(res)


def got_diff(tags):
    return sorted(tuple(t) for t in tags if t[0] == "scan")


def first_diff(a, b):
    """first differing element of two sorted lists, for messages"""
    sa, sb = set(a), set(b)
    return {"missing": sorted(sa - sb)[:5], "unexpected": sorted(sb - sa)[:5]}


def report_digest(tags, drop=("content",)):
    """digest of everything a command reported that is a function of the loaded state (used to compare the
    reports obtained through different content copies): all tags except the ones that name the copy used,
    the command line, memory statistics and progress messages"""
    keep = []
    for t in tags:
        if t[0] in ("argv", "msg", "memory", "version", "unixtime", "time", "conf", "command") or t[0] in drop:
            continue
        keep.append(":".join(t))
    return hashlib.sha1("\n".join(keep).encode("latin1")).hexdigest(), len(keep)


def tree_digest(root, subdirs, skip=(".lock",)):
    """digest (names, sizes, mtimes, bytes) of some subtrees of an array; the lock file beside the first content
    copy is the one file every command may create"""
    h = hashlib.sha1()
    for sub in subdirs:
        base = os.path.join(root, sub)
        if os.path.isfile(base):
            st = os.stat(base)
            with open(base, "rb") as f:
                h.update(repr((sub, st.st_size, st.st_mtime_ns)).encode() + f.read())
            continue
        for dp, dn, fn in sorted(os.walk(base)):
            dn.sort()
            for n in sorted(fn):
                if n.endswith(skip):
                    continue
                p = os.path.join(dp, n)
                st = os.lstat(p)
                h.update(repr((os.path.relpath(p, root), st.st_size, st.st_mtime_ns)).encode())
                if os.path.isfile(p) and not os.path.islink(p):
                    with open(p, "rb") as f:
                        h.update(f.read())
    return h.hexdigest()
