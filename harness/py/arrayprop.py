"""Common machinery of the array-level properties (C01, C04, C05, C06, C12, ...):
   (1) TLC on ArrayMC.tla (exhaustive small bounds + simulation),
   (2) seeded random histories executed on the real binary, recorded and validated by TLC against ArrayTrace.tla
       with the property invariants evaluated on every real state / step,
   (3) directed histories (regressions, known findings)."""
import json, os, re, time, multiprocessing, traceback
import vlib, arr, recorder, scen

STEP_PROP = {"Sync": "C06", "Check": "C04", "Scrub": "C04", "Fix": "C05", "Diff": "C06", "Env": "C12"}
INVARIANTS = ("Conforms", "NoPropertyViolation", "C06_ParityValid", "C06_MapSane")


# ---------------------------------------------------------------------------------------
def _run_scenario(job):
    """worker: returns a picklable record of one executed scenario"""
    seed, confkw, profile, steps, script = job[:5]
    data_seed = job[5] if len(job) > 5 else None
    g = None
    try:
        if script:
            rec, desc = script(seed if data_seed is None else data_seed)
            return {"seed": seed, "profile": profile, "conf": confkw, "lines": rec.lines, "vlen": rec.vlen,
                    "names": sorted(rec.names), "steps": desc, "hdr": rec.header(), "err": None, "script": script,
                    "nsteps": steps}
        g = scen.Gen(seed, conf=arr.Conf(**confkw), profile=profile, data_seed=data_seed)
        g.run(steps)
        rec = g.rec
        return {"seed": seed, "profile": profile, "conf": confkw, "lines": rec.lines, "vlen": rec.vlen,
                "names": sorted(rec.names), "steps": list(g.steps), "hdr": rec.header(), "err": None, "script": None,
                "nsteps": steps}
    except Exception as e:
        return {"seed": seed, "profile": profile, "conf": confkw, "err": traceback.format_exc()}
    finally:
        if g:
            g.close()


class _Rec:
    def __init__(self, d):
        self.lines, self.vlen, self.names, self._hdr = d["lines"], d["vlen"], set(d["names"]), d["hdr"]

    def header(self):
        return self._hdr


def record_scenarios(jobs, procs=8):
    with multiprocessing.Pool(procs) as pool:
        return pool.map(_run_scenario, jobs, chunksize=1)


MAX_FINDINGS_PER_BATCH = 4
WITNESS_MISSES = []          # goals of replayed witness histories that the real fix did not go through (see ArrayTrace.tla)


def validate_batch(scs, tag, invariants=INVARIANTS):
    """validate a list of executed scenarios (same nd, np) in one TLC run; returns list of findings
       [{scenario, violated, line(in scenario), step, diag, pviol}] and number of traces accepted"""
    # the hash size is a constant of the trace file (header): one TLC run per hash size
    sizes = sorted({s["hdr"].get("hs", 16) for s in scs})
    if len(sizes) > 1:
        findings, accepted, states = [], 0, 0
        for hs in sizes:
            f, a, st = validate_batch([s for s in scs if s["hdr"].get("hs", 16) == hs], "%s-hs%d" % (tag, hs), invariants)
            findings += f; accepted += a; states += st
        return findings, accepted, states
    findings = []
    accepted = 0
    rest = list(scs)
    part = 0
    states = 0
    while rest:
        part += 1
        recs = [_Rec(s) for s in rest]
        r = scen.validate(recs, "%s-%d" % (tag, part), invariants=invariants, keep=True)
        states += r["states"] or 0
        for wm in r.get("witness_miss", []):
            if wm not in WITNESS_MISSES:
                WITNESS_MISSES.append(wm)
        # occurrences of known findings met by this run (they do not stop TLC), attributed to their scenario
        for pid_k, sig_k, gl in r.get("known_hits", []):
            if r["line"] is not None and gl > r["line"]:
                continue
            acc_k = 0
            for s_k in rest:
                if gl <= acc_k + len(s_k["lines"]):
                    ev_k = s_k["lines"][gl - acc_k - 1]
                    findings.append({"scenario": s_k, "violated": "NoPropertyViolation", "line": gl - acc_k + s_k.get("offset", 0),
                                     "step": ev_k.get("e"), "what": ev_k.get("what"), "diag": None, "known": True,
                                     "pviol": '<<"%s", "%s", <<>>>>' % (pid_k, sig_k), "trace_file": r["path"]})
                    break
                acc_k += len(s_k["lines"])
        if r["accepted"]:
            accepted += len(rest)
            _cleanup(r)
            break
        if r["error"]:
            raise vlib.ToolFailure("trace validation failed: %s\n%s" % (r["error"], r["raw"][-3000:]))
        # locate the scenario that contains line r["line"]
        line = r["line"]
        acc = 0
        k = 0
        for k, s in enumerate(rest):
            if line <= acc + len(s["lines"]):
                break
            acc += len(s["lines"])
        sc = rest[k]
        inline = line - acc                     # 1-based line within the scenario
        ev = sc["lines"][inline - 1] if 0 < inline <= len(sc["lines"]) else {}
        findings.append({"scenario": sc, "violated": r["violated"], "line": inline + sc.get("offset", 0), "step": ev.get("e"),
                         "what": ev.get("what"), "diag": r["diag"], "pviol": r["pviol"], "trace_file": r["path"]})
        accepted += k
        rest = rest[k + 1:]
        # the steps that follow the finding are still validated: the execution continues from the real state of the step
        # (ghost contents and the "clean" flag are lost, the damage flag is set: only conformance, the frames and the
        # state-independent predicates are evaluated on the continuation)
        if 0 < inline < len(sc["lines"]) and not sc.get("no_continuation"):
            cont = dict(sc)
            tail = []
            for ln in sc["lines"][inline:]:
                if isinstance(ln.get("args"), dict) and any(k in ln["args"] for k in ("expect_c01", "goal", "expect_refused")):
                    ln = dict(ln, args={k: x for k, x in ln["args"].items() if k not in ("expect_c01", "goal", "expect_refused")})
                tail.append(ln)
            cont["lines"] = [{"e": "Reset", "dmg": True, "state": sc["lines"][inline - 1]["state"]}] + tail
            cont["steps"] = list(sc["steps"]) + ["(continuation after the finding at line %d)" % (inline + sc.get("offset", 0))]
            cont["offset"] = sc.get("offset", 0) + inline - 1
            cont["continued"] = True
            rest = [cont] + rest
        # enough to report: every further finding costs one more TLC run over the rest of the batch
        if sum(1 for x in findings if not x.get("known")) >= MAX_FINDINGS_PER_BATCH:
            break
    return findings, accepted, states


def _cleanup(r):
    for p in (r["path"], r["path"][:-7] + ".cfg"):
        try:
            os.remove(p)
        except OSError:
            pass


def classify(f):
    """finding -> (property id, signature, text)"""
    if f["violated"] == "NoPropertyViolation" and f["pviol"]:
        m = re.search(r'"(C\d\d)",\s*"([^"]+)"', f["pviol"])
        if m:
            return m.group(1), m.group(2), f["pviol"]
    if f["violated"] and f["violated"].startswith("C06"):
        return "C06", f["violated"], "invariant %s fails on the projected real state" % f["violated"]
    if f["violated"] == "Conforms":
        return STEP_PROP.get(f["step"], "C06"), "conformance:%s" % f["step"], f["diag"] or ""
    return "C06", str(f["violated"]), f["diag"] or ""


def classify_all(f):
    """every (property id, signature, text) a finding stands for: one step can violate several predicates of the property
    layer at once (e.g. a known finding and something else), each is reported on its own"""
    if f["violated"] == "NoPropertyViolation" and f["pviol"]:
        ms = re.findall(r'"(C\d\d)",\s*"([^"]+)"', f["pviol"])
        if ms:
            seen, out = set(), []
            for pid, sig in ms:
                if (pid, sig) not in seen:
                    seen.add((pid, sig)); out.append((pid, sig, f["pviol"]))
            return out
    return [classify(f)]


def report(v, f, rerun=True):
    """A violation is reported only if it repeats when the same history is re-recorded with fresh block
    contents (a collision of random data cannot repeat)."""
    sc = f["scenario"]
    f2 = None
    reported = False
    for pid, sig, text in classify_all(f):
        confirmed = True
        if rerun and not f.get("known"):
            if f2 is None:
                again = _run_scenario((sc["seed"], sc["conf"], sc["profile"], sc["nsteps"], sc.get("script"), sc["seed"] + 1000003))
                if again.get("err"):
                    raise vlib.ToolFailure("re-recording failed: " + again["err"])
                f2, _, _ = validate_batch([again], "confirm-%s" % sc["seed"])
            confirmed = any((pid, sig) in [y[:2] for y in classify_all(x)] for x in f2)
        if not confirmed:
            print("note: %s %s at seed %s did not repeat with fresh data; not reported" % (pid, sig, sc["seed"]))
            continue
        replay = {"kind": "array-scenario", "seed": sc["seed"], "profile": sc["profile"], "conf": sc["conf"],
                  "steps": sc["steps"], "failing_line": f["line"], "failing_step": f["step"], "invariant": f["violated"],
                  "diag": f["diag"], "pviol": f["pviol"], "trace": sc["lines"][:f["line"]]}
        r = v.violation("%s at step %s (%s) of scenario seed=%s profile=%s: %s" % (sig, f["line"], f["step"], sc["seed"],
                                                                               sc["profile"], (text or "")[:600]),
                        replay_obj=replay, signature=sig,
                        # a step of the real code that the specification does not allow is reported under the property being checked
                        # (its verdict rests on the conformance of every step of its histories); violations found by the property
                        # layer keep the id of the property whose predicate failed
                        pid=(v.pid if f["violated"] == "Conforms" else pid))
        reported = reported or r
    return reported


# ---------------------------------------------------------------------------------------
def _mc_key(cfg, workers, simulate, depth):
    """identity of a run of TLC on the array model: the specification files, the configuration and the parameters (nothing of
    /repo enters such a run)"""
    import hashlib
    h = hashlib.sha256()
    for n in sorted(os.listdir(vlib.SPEC)):
        if n.endswith(".tla") and n.startswith("Array"):
            h.update(n.encode()); h.update(open(os.path.join(vlib.SPEC, n), "rb").read())
    h.update(open(cfg, "rb").read())
    h.update(repr((workers, simulate, depth, vlib.seed() if simulate else 0)).encode())
    return h.hexdigest()[:32]


def run_mc(cfg, workers=16, simulate=None, depth=None, timeout=1500, xmx="12g", reuse=False):
    """reuse (thorough tier only): the seven properties that share the array model run the same long model checks (9 min
    exhaustive, 11 + 7 min of simulation); the result of an identical run (same specification bytes, configuration, parameters
    and seed) made by an earlier check is taken from out/cache instead of being recomputed, and marked as such in the evidence"""
    cpath = None
    if reuse:
        cpath = os.path.join(vlib.OUT, "cache", "mc-%s.json" % _mc_key(cfg, workers, simulate, depth))
        if os.path.exists(cpath):
            try:
                d = json.load(open(cpath))
                res = vlib.TlcResult()
                for k, val in d.items():
                    setattr(res, k, val)
                res.cached = True
                return res
            except Exception:
                pass
    res = vlib.run_tlc("ArrayMC", cfg=cfg, workers=workers, simulate=simulate, depth=depth, timeout=timeout, xmx=xmx,
                       tag="mc-" + os.path.basename(cfg))
    if res.error and not res.violated:
        if simulate and res.error == "timeout":
            return res
        raise vlib.ToolFailure("TLC on ArrayMC (%s): %s\n%s" % (cfg, res.error, res.out[-2000:]))
    if cpath and not res.error:
        os.makedirs(os.path.dirname(cpath), exist_ok=True)
        tmp = cpath + ".%d.tmp" % os.getpid()
        json.dump({"rc": res.rc, "out": res.out[-200000:], "generated": res.generated, "distinct": res.distinct, "depth": res.depth,
                   "violated": res.violated, "trace": res.trace, "coverage": res.coverage, "wall": res.wall, "error": res.error,
                   "computed_at": int(time.time())}, open(tmp, "w"))
        os.replace(tmp, cpath)
    return res


def mc_signature(res):
    """property id and signature of a violated NoOtherViolation / NoPropertyViolation from TLC's error trace"""
    m = re.findall(r'pviol = <<\s*<<\s*"(C\d\d)",\s*"([^"]+)"', res.out)
    return m[-1] if m else ("C06", str(res.violated))


def mc_trace_actions(res):
    return re.findall(r"^State \d+: <(\w+)", res.out, re.M)


def write_mc_cfg(name, steps, damage=2, stamp=4, invariant="NoOtherViolation", np_=2, view=True, script="none", goal="none"):
    p = os.path.join(vlib.OUT, "md", name + ".cfg")
    os.makedirs(os.path.dirname(p), exist_ok=True)
    with open(p, "w") as f:
        f.write('SPECIFICATION Spec\nCONSTANTS\n  D = {"0", "1"}\n  NP = %d\n  Names = {"A", "B"}\n  MaxSteps = %d\n'
                '  MaxDamage = %d\n  MaxStamp = %d\n  ScriptId = "%s"\n  GoalId = "%s"\nINVARIANT %s\n%sCHECK_DEADLOCK FALSE\n'
                % (np_, steps, damage, stamp, script, goal, invariant, "VIEW View\n" if view else ""))
    return p


# ---------------------------------------------------------------------------------------
SHAPES = [(2, 2), (3, 2), (2, 1), (3, 3), (2, 3), (4, 2), (1, 1), (3, 1), (2, 6), (4, 4), (5, 2), (2, 5),
          (2, 2, {"hash_size": 8}), (3, 1, {"splits": [2]}), (2, 2, {"splits": [1, 3]}), (3, 2, {"hash_size": 4}),
          (3, 3, {"zmode": True}), (2, 2, {"hash_kind": "spooky2"})]


def standard_run(pid, tier, profiles, nquick, nthorough, steps=(18, 26), directed_jobs=(), scripts=(), mc_steps=(4, 5),
                 rule="", assumptions=(), count_event=None, sim=True, shapes=SHAPES, extra=None):
    """TLC on the model (exhaustive + scripted counterexamples + simulation), then seeded histories on the binary"""
    v = vlib.Verdict(pid, tier, "model_checking")
    vlib.build("hooks"); vlib.build_shim()
    quick = tier != "thorough"
    cov = {"samples": [], "mc": []}
    states = trans = 0
    ms = mc_steps[0] if quick else mc_steps[1]
    cfg = write_mc_cfg("%s-exh" % pid, ms, invariant="NoOtherViolation")
    r = run_mc(cfg, timeout=3000, reuse=not quick)
    states += r.distinct; trans += r.generated
    cov["mc"].append({"cfg": "exhaustive MaxSteps=%d, 2 disks, 2 parities, 2 names, 4 contents, <=2 damages" % ms,
                      "distinct": r.distinct, "generated": r.generated, "depth": r.depth, "violated": r.violated,
                      "reused_identical_run": bool(getattr(r, "cached", False))})
    if r.violated:
        p2, sig = mc_signature(r)
        v.violation("TLC: %s on ArrayMC (exhaustive): %s" % (sig, " ".join(mc_trace_actions(r))),
                    replay_obj={"kind": "tlc-trace", "cfg": open(cfg).read(), "trace": r.trace}, signature=sig, pid=p2)
    for script, inv, want in scripts:
        cfg = write_mc_cfg("%s-%s" % (pid, script), 10, stamp=6, invariant=inv, script=script)
        r = run_mc(cfg, timeout=600)
        states += r.distinct; trans += r.generated
        cov["mc"].append({"cfg": "script " + script, "distinct": r.distinct, "found": r.violated is not None,
                          "actions": mc_trace_actions(r)})
        if r.violated:
            v.violation("TLC finds %s on the model: %s" % (want, " ".join(mc_trace_actions(r))),
                        replay_obj={"kind": "tlc-trace", "trace": r.trace}, signature=want)
        else:
            raise vlib.ToolFailure("the model no longer exhibits the recorded counterexample %s; specification and "
                                   "known-findings.txt are out of step" % want)
    if sim:
        cfg = write_mc_cfg("%s-sim" % pid, 9, stamp=6, invariant="NoOtherViolation", view=False)
        # (num is per worker: 8 x 20000 histories, about 11 minutes)
        r = run_mc(cfg, workers=8, simulate=2000 if quick else 20000, depth=11, timeout=120 if quick else 1500, reuse=not quick)
        trans += r.generated
        cov["mc"].append({"cfg": "simulate NoOtherViolation, histories of 9 actions", "generated": r.generated, "violated": r.violated,
                          "reused_identical_run": bool(getattr(r, "cached", False))})
        if r.violated:
            p2, sig = mc_signature(r)
            v.violation("TLC: %s on ArrayMC (simulation): %s" % (sig, " ".join(mc_trace_actions(r))),
                        replay_obj={"kind": "tlc-trace", "trace": r.trace}, signature=sig, pid=p2)
    if sim:
        # the whole command set (rehash, scrub, sync -R, fix under -d / -f / -m / -e / -b) on top of the same state machine
        r = run_mc(os.path.join(vlib.SPEC, "ArrayMC_ext.cfg"), workers=8, simulate=250 if quick else 6000, depth=11,
                   timeout=180 if quick else 1500, reuse=not quick)
        trans += r.generated
        cov["mc"].append({"cfg": "simulate ArrayMC_ext (Ext actions: Rehash, Scrub, SyncR, FixD/FixF/FixM/FixE), histories of 9 actions",
                          "generated": r.generated, "violated": r.violated, "reused_identical_run": bool(getattr(r, "cached", False))})
        if r.violated:
            p2, sig = mc_signature(r)
            v.violation("TLC: %s on ArrayMC_ext (simulation): %s" % (sig, " ".join(mc_trace_actions(r))),
                        replay_obj={"kind": "tlc-trace", "trace": r.trace}, signature=sig, pid=p2)
    s0 = vlib.seed() * 100000
    jobs = list(directed_jobs(s0)) if callable(directed_jobs) else list(directed_jobs)
    # the thorough tier is sized to end within about half an hour per property: at most 72 histories of at most 32 steps
    n = nquick if quick else min(nthorough, 72)
    steps = (steps[0], min(steps[1], 32))
    for i in range(n):
        sh = shapes[i % len(shapes)]
        # a shape is (data disks, parity levels[, extra configuration: hash_size, splits, ...])
        confkw = dict(nd=sh[0], np=sh[1], copies=2, **(sh[2] if len(sh) > 2 else {}))
        jobs.append((s0 + 100 + i, confkw, profiles[i % len(profiles)], steps[0] if quick else steps[1], None))
    scs = record_scenarios(jobs, procs=8)
    for s in scs:
        if s.get("err"):
            raise vlib.ToolFailure("scenario failed: " + s["err"])
    groups = {}
    for s in scs:
        groups.setdefault((s["conf"]["nd"], s["conf"]["np"], bool(s.get("script"))), []).append(s)
    accepted = 0
    for key, lst in sorted(groups.items()):
        f, acc, st = validate_batch(lst, "%s-%d-%d-%d" % (pid, key[0], key[1], int(key[2])))
        accepted += acc
        states += st; trans += st
        for x in f:
            report(v, x)
    nev = {}
    for s in scs:
        for l in s["lines"]:
            nev[l["e"]] = nev.get(l["e"], 0) + 1
    det = sum(1 for s in scs for l in s["lines"] if l["e"] in ("Check", "Scrub") and (l["out"].get("derr") or l["out"].get("perr")))
    c01 = sum(1 for s in scs for l in s["lines"] if l["e"] == "Fix" and l["args"].get("expect_c01"))
    nwit = sum(1 for s in scs if str(s.get("profile", "")).startswith("witness-"))
    if nwit:
        miss = sorted(set(g for _, g in WITNESS_MISSES))
        cov["witness_histories_replayed"] = nwit
        cov["witness_goals_not_reproduced"] = miss
        if len(WITNESS_MISSES) * 4 > nwit:
            raise vlib.ToolFailure("%d of %d replayed witness histories do not go through the branch they were generated for (%s): "
                                   "specification and spec/witness/fixgoals.json are out of step" % (len(WITNESS_MISSES), nwit, miss))
    cov["steps_with_reported_errors"] = det
    cov["fix_steps_with_c01_precondition"] = c01
    cov["samples"] = [{"seed": s["seed"], "profile": s["profile"], "conf": s["conf"], "steps": s["steps"]} for s in scs[:3]]
    cov.update({"states": states, "transitions": trans, "traces_validated_against_impl": len(scs),
                "traces_accepted_without_finding": accepted, "events_on_real_arrays": nev,
                "configurations": sorted(set("%dd/%dp%s" % (s["conf"]["nd"], s["conf"]["np"],
                                                            "".join(" %s=%s" % kv for kv in sorted(s["conf"].items()) if kv[0] not in ("nd", "np", "copies")))
                                             for s in scs)),
                "rule": rule})
    if extra:
        extra(v, cov)           # further checks of the property on real arrays that need no trace (frame conditions)
    return v.finish(cov, assumptions=list(assumptions) + [
        "hash and parity abstraction of Array.tla (a collision of random 1 KiB blocks cannot repeat: violations are re-recorded with fresh data before being reported)",
        "inode-less scan (no usable UUID in the sandbox), forced alphabetical scan order, sequential disk scan"])
