"""Shared plumbing for all property checks: build, TLC runner, evidence, verdict lines.

Conventions (see DESIGN.md sections 3, 9, 10):
  * exit 0  = property held on everything explored (KNOWN-FINDING lines allowed)
  * exit 1  = at least one line "VIOLATION property=<id> replay=<path>" was printed
  * exit 2  = tool failure (never a verdict)
"""
import json, os, re, shutil, subprocess, sys, time, hashlib, tempfile

VERIF = os.path.abspath(os.path.join(os.path.dirname(__file__), "..", ".."))
REPO = os.environ.get("REPO", "/repo")
SPEC = os.environ.get("VERIF_SPEC") or os.path.join(VERIF, "spec")   # VERIF_SPEC: a frozen copy (seed trials while the spec is edited)
OUT = os.environ.get("VERIF_OUT", os.path.join(VERIF, "out"))      # overridden when a mutant is tried (try_seed.sh)
EVID = os.environ.get("VERIF_EVID", os.path.join(VERIF, "evidence"))
BUILD = os.environ.get("VERIF_BUILD", os.path.join(VERIF, "build"))
TLA_JAR = "/opt/veriftools/tla/tla2tools.jar"
TLA_CP = TLA_JAR + ":/opt/veriftools/tla/CommunityModules-deps.jar"


class ToolFailure(Exception):
    pass


def seed():
    try:
        return int(os.environ.get("VERIF_SEED", "1"))
    except ValueError:
        return 1


def scratch_root():
    """A fresh scratch directory outside /repo and /verif, removed by the caller."""
    base = "/dev/shm" if os.path.isdir("/dev/shm") and os.access("/dev/shm", os.W_OK) else "/var/tmp"
    return tempfile.mkdtemp(prefix="verif-%d-" % os.getpid(), dir=base)


def scratch_ext4():
    return tempfile.mkdtemp(prefix="verif-%d-" % os.getpid(), dir="/var/tmp")


def build(flavour="hooks"):
    """Rebuild snapraid from /repo's working tree; returns the path of the binary."""
    p = subprocess.run([os.path.join(VERIF, "harness", "build.sh"), flavour],
                       stdout=subprocess.PIPE, stderr=subprocess.PIPE, text=True)
    if p.returncode != 0:
        sys.stderr.write(p.stdout + p.stderr)
        raise ToolFailure("build of /repo (%s) failed" % flavour)
    return p.stdout.strip().splitlines()[-1]


def build_shim():
    src = os.path.join(VERIF, "harness", "shim", "shim.c")
    out = os.path.join(BUILD, "shim.so")
    os.makedirs(BUILD, exist_ok=True)
    if not os.path.exists(out) or os.path.getmtime(out) < os.path.getmtime(src):
        tmp = "%s.%d.tmp" % (out, os.getpid())
        p = subprocess.run(["gcc", "-O2", "-shared", "-fPIC", "-o", tmp, src, "-ldl", "-pthread"],
                           stdout=subprocess.PIPE, stderr=subprocess.STDOUT, text=True)
        if p.returncode != 0:
            sys.stderr.write(p.stdout)
            raise ToolFailure("shim build failed")
        os.replace(tmp, out)
    return out


def cc_harness(name, sources, objs=(), flags=(), libs=()):
    """Compile a C harness in harness/c against objects of the current build."""
    out = os.path.join(BUILD, name)
    cmd = ["gcc", "-O2", "-g", "-w", "-DHAVE_CONFIG_H", "-I" + REPO, "-I" + os.path.join(REPO, "cmdline"),
           "-pthread", *flags, "-o", out, *sources, *objs, *libs, "-lm"]
    p = subprocess.run(cmd, stdout=subprocess.PIPE, stderr=subprocess.STDOUT, text=True)
    if p.returncode != 0:
        sys.stderr.write(p.stdout)
        raise ToolFailure("harness build failed: " + name)
    return out


# ---------------------------------------------------------------------------------------
# TLC

class TlcResult:
    def __init__(self):
        self.rc = None
        self.out = ""
        self.generated = 0
        self.distinct = 0
        self.depth = 0
        self.violated = None      # name of violated invariant/property, or "deadlock", "assumption"
        self.trace = []           # raw text of the error trace states
        self.coverage = {}        # action -> (taken, generated)
        self.wall = 0.0
        self.error = None         # tool-level error text


def run_tlc(module, cfg=None, workers=16, simulate=None, depth=None, extra=(), env=None,
            timeout=3600, xmx="8g", cwd=None, coverage=False, deadlock=True, dfs=False, tag=None):
    """Run TLC on spec/<module>.tla. Returns TlcResult. Tool failure -> res.error set."""
    cwd = cwd or SPEC
    cfg = cfg or module + ".cfg"
    tag = tag or (module + "-" + os.path.basename(cfg))
    md = tempfile.mkdtemp(prefix="tlc-%s-" % re.sub(r"[^A-Za-z0-9]", "_", tag), dir=os.path.join(OUT, "md"))
    jopts = ["-XX:+UseParallelGC", "-Xmx" + xmx]
    if dfs:
        jopts.append("-Dtlc2.tool.queue.IStateQueue=StateDeque")
    cmd = ["timeout", str(timeout), "java", *jopts, "-cp", TLA_CP, "tlc2.TLC", "-noGenerateSpecTE",
           "-workers", str(workers), "-metadir", md, "-config", cfg]
    if simulate:
        cmd += ["-simulate", "num=%d" % simulate]
        cmd += ["-seed", str(seed())]
    if depth:
        cmd += ["-depth", str(depth)]
    if coverage:
        cmd += ["-coverage", "1"]
    if not deadlock:
        cmd += ["-deadlock"]
    cmd += list(extra) + [module + ".tla"]
    e = dict(os.environ)
    if env:
        e.update(env)
    t0 = time.time()
    p = subprocess.run(cmd, cwd=cwd, stdout=subprocess.PIPE, stderr=subprocess.STDOUT, text=True, env=e,
                       errors="replace")
    res = TlcResult()
    res.wall = time.time() - t0
    res.rc = p.returncode
    res.out = p.stdout
    shutil.rmtree(md, ignore_errors=True)
    _parse_tlc(res)
    return res


def _parse_tlc(res):
    o = res.out
    m = None
    for m in re.finditer(r"(\d[\d,]*) states generated, (\d[\d,]*) distinct states found", o):
        pass
    if m:
        res.generated = int(m.group(1).replace(",", ""))
        res.distinct = int(m.group(2).replace(",", ""))
    if not m:
        m2 = re.search(r"The number of states generated: (\d[\d,]*)", o)
        if m2:
            res.generated = int(m2.group(1).replace(",", ""))
    m = re.search(r"depth of the complete state graph search is (\d+)", o)
    if m:
        res.depth = int(m.group(1))
    m = re.search(r"Invariant (\S+) is violated", o)
    if m:
        res.violated = m.group(1)
    elif re.search(r"Action property (\S+) is violated|Temporal properties were violated", o):
        m = re.search(r"Action property (\S+) is violated", o)
        res.violated = m.group(1) if m else "temporal"
    elif "Deadlock reached" in o:
        res.violated = "deadlock"
    elif re.search(r"Assumption .* is false", o):
        res.violated = "assumption"
    elif re.search(r"[Pp]ostcondition.*(violated|false)", o):
        res.violated = "postcondition"
    if res.violated:
        res.trace = re.findall(r"(?ms)^State \d+:.*?(?=^State \d+:|^\d+ states generated|\Z)", o)
    for m in re.finditer(r"^<(\w+) line \d+, col \d+ to line \d+, col \d+ of module \w+>: (\d+):(\d+)", o, re.M):
        res.coverage[m.group(1)] = (int(m.group(2)), int(m.group(3)))
    if res.rc == 124:
        res.error = "timeout"
    elif res.violated is None and res.rc != 0:
        res.error = "tlc exit %d" % res.rc
    elif res.violated is None and "Model checking completed" not in o and "Finished in" not in o \
            and "simulation" not in o.lower():
        res.error = "tlc did not complete"


def sany(module, cwd=None):
    p = subprocess.run(["java", "-cp", TLA_CP, "tla2sany.SANY", module + ".tla"], cwd=cwd or SPEC,
                       stdout=subprocess.PIPE, stderr=subprocess.STDOUT, text=True)
    return p.returncode == 0 and "rror" not in p.stdout, p.stdout


# ---------------------------------------------------------------------------------------
# verdicts, evidence, known findings

class Verdict:
    """Collects violations / known findings of one check run and writes the evidence file."""

    def __init__(self, pid, tier, level):
        self.pid, self.tier, self.level = pid, tier, level
        self.t0 = time.time()
        self.violations = []
        self.known_hits = []
        self.coverage = {}
        self.assumptions = []
        self.kf = load_known_findings()
        os.makedirs(os.path.join(OUT, "replays"), exist_ok=True)
        os.makedirs(os.path.join(OUT, "md"), exist_ok=True)

    def replay_path(self, name):
        d = os.path.join(OUT, "replays", self.pid)
        os.makedirs(d, exist_ok=True)
        return os.path.join(d, name)

    def violation(self, what, replay_obj=None, name=None, signature=None, pid=None):
        """Report a violation unless its signature is a recorded known finding of this property."""
        pid = pid or self.pid
        if signature:
            for k in self.kf:
                if k["status"] == "open" and k["property"] == pid and k["signature"] == signature:
                    if signature not in [h[0] for h in self.known_hits]:
                        print("KNOWN-FINDING: property=%s %s [%s] %s" % (pid, k["id"], signature, k["what"]))
                    self.known_hits.append((signature, what))
                    return False
        name = name or ("v%03d-%s.json" % (len(self.violations) + 1,
                                           hashlib.sha1(what.encode()).hexdigest()[:8]))
        path = self.replay_path(name)
        with open(path, "w") as f:
            json.dump({"property": pid, "what": what, "signature": signature, "replay": replay_obj}, f, indent=1,
                      default=str)
        print("VIOLATION property=%s replay=%s" % (pid, path))
        print("  " + what[:2000])
        sys.stdout.flush()
        self.violations.append((what, path))
        return True

    def finish(self, coverage=None, assumptions=None):
        cov = dict(self.coverage)
        if coverage:
            cov.update(coverage)
        cov.setdefault("known_findings_hit", sorted(set(h[0] for h in self.known_hits)))
        ev = {"property_id": self.pid, "tier": self.tier, "seed": seed(), "level": self.level,
              "coverage": cov, "assumptions": (assumptions or []) + self.assumptions,
              "wall_s": round(time.time() - self.t0, 2), "violations": len(self.violations)}
        os.makedirs(EVID, exist_ok=True)
        tmp = os.path.join(EVID, self.pid + ".json.tmp")
        with open(tmp, "w") as f:
            json.dump(ev, f, indent=1, default=str)
        os.replace(tmp, os.path.join(EVID, self.pid + ".json"))
        print("%s %s: %s (%.1fs) violations=%d known=%d" % (
            self.pid, self.tier, "FAIL" if self.violations else "ok", ev["wall_s"], len(self.violations),
            len(set(h[0] for h in self.known_hits))))
        return 1 if self.violations else 0


def load_known_findings():
    """known-findings.txt lines:
         open:  property=<id> <Fx> sig=<signature> <what fails>
         fixed: property=<id> <commit> <what failed>
       Only 'open' entries suppress, and only the exact signature."""
    res = []
    p = os.path.join(VERIF, "known-findings.txt")
    if not os.path.exists(p):
        return res
    for line in open(p):
        line = line.strip()
        if not line or line.startswith("#"):
            continue
        m = re.match(r"open:\s+property=(\S+)\s+(\S+)\s+sig=(\S+)\s+(.*)", line)
        if m:
            res.append({"status": "open", "property": m.group(1), "id": m.group(2), "signature": m.group(3),
                        "what": m.group(4)})
            continue
        m = re.match(r"fixed:\s+property=(\S+)\s+(\S+)\s+(.*)", line)
        if m:
            res.append({"status": "fixed", "property": m.group(1), "id": m.group(2), "signature": None,
                        "what": m.group(3)})
    return res


def tool_failure(msg):
    sys.stderr.write("TOOL-FAILURE: %s\n" % msg)
    sys.exit(2)
