"""I/O fault enumeration for sync and scrub (C08): every read call on every data file, every parity read and
every parity write of a real run is a fault point (EIO, ENOSPC for writes), on clones of a prepared array."""
import os
import arr, recorder, crash


def fault_points(a, cmd, *flags):
    """[(call, path substring, k, role)] for all data preads / parity preads / parity pwrites of a clean twin run"""
    c = a.clone()
    try:
        r = c.run(cmd, *flags, trace=True, trace_reads=True)
        cnt = {}
        pts = []
        for e in r.trace:
            role = c.role(e["path"])
            if e["c"] == "pread" and role.startswith("data:"):
                sub = os.path.relpath(e["path"], c.root)
            elif e["c"] in ("pread", "pwrite") and role.startswith("parity:"):
                sub = os.path.relpath(e["path"], c.root)
            else:
                continue
            key = (e["c"], sub)
            cnt[key] = cnt.get(key, 0) + 1
            pts.append((e["c"], sub, cnt[key], role, e["off"] // arr.BS))
        return pts
    finally:
        c.destroy()


def experiment(g, cmd, point, errno_kind, flags=(), seed=0):
    call, sub, k, role, blk = point
    c = g.a.clone()
    try:
        rec = recorder.Recorder(c, obs=g.rec.obs.clone_for(c))
        rec.vlen.update(g.rec.vlen); rec.names |= g.rec.names
        rule = "%s,%s,%d,%s" % (call, "/" + sub, k, errno_kind)
        desc = ["%s %s with %s" % (cmd, " ".join(flags), rule)]
        if cmd == "sync":
            r, kind, pos = rec.sync_fault([rule], *flags)
        else:
            r, kind, pos = rec.scrub_fault([rule], "full", *flags)
        desc.append("-> rc=%s fault=%s@%s io=%s" % (r.rc, kind, pos, rec.lines[-1]["out"]["io"]))
        c.clock += 10
        # repair path promised by the property: fix -e (bad blocks) or the next sync
        r2, out = rec.fix(filt={"bad": "file"}); desc.append("fix -e -> %s" % out["exit"])
        r3, out = rec.sync(); desc.append("sync -> %s" % out["exit"])
        r4, out = rec.check(); desc.append("check -> %s" % out["exit"])
        return rec, desc, kind, pos
    finally:
        c.destroy()
