"""Projection of a real array onto the abstract state of spec/Array.tla (DESIGN.md section 3, 'Projection').

project(a) -> {"fs":..., "cont":[...per copy...], "par":[[...]]}   with JSON-friendly values:
  value   : int (full block id) | ["s", id] (short block) | "Z" (zero block) | ["J", digest] (unknown bytes)
  hashval : value | "ZERO" | "INVALID" | ["U", hex]        (recorded hash mapped back through the independent hash)
  fs      : {disk: {name: {"k":"f","b":[value...],"mt":[sec,nsec],"ino":n,"sz":bytes} | {"k":"l","to":..} | {"k":"d"}}}
  cont[c] : "MISSING" | "BAD" | {"bmax":n, "hk":kind, "files":{disk:{name:{...,"bl":[[pos,st,hashval]...]}}},
                                 "del":{disk:{pos:hashval}}, "links":..., "dirs":..., "info":[null|{t,bad,rh,js}]}
  par[l]  : list over positions 0..n-1 of  [vector,...] (all candidate vectors w with Gen_l(w) == bytes on disk;
            a vector is {disk: value}, absent disk = zero)  or "JUNK" ; positions beyond the file are absent.
"""
import os, stat, itertools, hashlib
import content, hashes, gf
from arr import BS, BASE_TIME


def vkey(v):
    return list(v) if isinstance(v, tuple) else v


def vt(v):
    return tuple(v) if isinstance(v, list) else v


class Observer:
    def __init__(self, a):
        self.a = a
        self.hcache = {}          # (kind, seed, hs) -> {hashbytes: value}
        self.cands = {}           # (disk, pos) -> set(values) ever recorded there
        self.pcache = {}          # (l, pos) -> (digest of bytes, result)

    def clone_for(self, a2):
        """an observer for a clone of the array that knows the same candidate values"""
        o = Observer(a2)
        o.cands = {k: set(v) for k, v in self.cands.items()}
        return o

    # ---- hashes
    def hmap(self, kind, seed, hs):
        key = (kind, seed, hs)
        m = self.hcache.get(key)
        if m is None:
            m = {"n": 0, "map": {}}
            self.hcache[key] = m
        if m["n"] != len(self.a.store):
            for data, v in self.a.store.items():
                h = hashes.block_hash(kind, seed, data, hs)
                m["map"].setdefault(h, v)
            m["n"] = len(self.a.store)
        return m["map"]

    def hashval(self, h, cs):
        hs = cs["hash_size"]
        if content.is_zero_hash(h):
            return "ZERO"
        if content.is_invalid_hash(h):
            return "INVALID"
        m = self.hmap(cs["hash"]["kind"], cs["hash"]["seed"], hs)
        if h in m:
            return vkey(m[h])
        if cs.get("prevhash"):
            m2 = self.hmap(cs["prevhash"]["kind"], cs["prevhash"]["seed"], hs)
            if h in m2:
                return ["P", vkey(m2[h])]
        if hs != 16:
            if all(x == 0 for x in h):
                return "INVALID"
            if all(x == 0xFF for x in h):
                return "ZERO"
        return ["U", h.hex()]

    # ---- data disks
    def project_disk(self, d):
        base = self.a.ddir(d)
        res = {}
        if not os.path.isdir(base):
            return res
        for dp, dn, fn in os.walk(base):
            rel = os.path.relpath(dp, base)
            for n in fn:
                p = os.path.join(dp, n)
                name = n if rel == "." else os.path.join(rel, n)
                st = os.lstat(p)
                if stat.S_ISLNK(st.st_mode):
                    res[name] = {"k": "l", "to": os.readlink(p)}
                elif stat.S_ISREG(st.st_mode):
                    with open(p, "rb") as f:
                        data = f.read()
                    blocks = [vkey(self.a.classify(data[i:i + BS])) for i in range(0, len(data), BS)]
                    res[name] = {"k": "f", "b": blocks, "sz": len(data),
                                 "mt": [st.st_mtime_ns // 10**9 - BASE_TIME, st.st_mtime_ns % 10**9],
                                 "ino": st.st_ino, "nl": st.st_nlink}
            for n in dn:
                p = os.path.join(dp, n)
                name = n if rel == "." else os.path.join(rel, n)
                if os.path.islink(p):
                    res[name] = {"k": "l", "to": os.readlink(p)}
                elif not os.listdir(p):
                    res[name] = {"k": "d"}
                else:
                    res[name] = {"k": "D"}
        return res

    # ---- content
    def project_content_bytes(self, b):
        try:
            cs = content.decode(b)
        except content.ContentError:
            return "BAD", None
        names = [n.encode() for n in self.a.conf.disk_names]
        out = {"bmax": cs["blockmax"], "hk": cs["hash"]["kind"], "phk": cs["prevhash"]["kind"] if cs["prevhash"] else None,
               "files": {}, "del": {}, "links": {}, "dirs": {}, "cols": {}, "hs": cs["hash_size"],
               "psize": [[s["size"] for s in p["splits"]] for p in cs["parity"]]}
        for idx, dd in cs["disks"].items():
            d = names.index(dd["name"]) if dd["name"] in names else "x" + dd["name"].decode("latin1")
            out["cols"][str(d)] = dd["pos"]
            fl = {}
            for f in dd["files"]:
                fl[f["sub"].decode("latin1")] = {
                    "sz": f["size"], "mt": [f["mtime_sec"] - BASE_TIME, f["mtime_nsec"]], "ino": f["inode"],
                    "bl": [[pos, st, self.hashval(h, cs)] for pos, st, h in f["blocks"]]}
            out["files"][str(d)] = fl
            out["del"][str(d)] = {str(pos): self.hashval(h, cs) for pos, h in dd["deleted"].items()}
            out["links"][str(d)] = {l["sub"].decode("latin1"): [l["kind"], l["linkto"].decode("latin1")] for l in dd["links"]}
            out["dirs"][str(d)] = sorted(s.decode("latin1") for s in dd["dirs"])
        out["uuid"] = {}
        for m in cs.get("maps", []):
            if m["name"] in names:
                out["uuid"][str(names.index(m["name"]))] = m["uuid"].decode("latin1")
        out["info"] = [None if e is None else {"t": e["t"], "bad": e["bad"], "rh": e["rehash"], "js": e["justsynced"]}
                       for e in cs["info"]]
        return out, cs

    def project_contents(self):
        res, raws = [], []
        for c in range(self.a.conf.copies):
            p = self.a.cfile(c)
            if not os.path.exists(p):
                res.append("MISSING")
                raws.append(None)
                continue
            with open(p, "rb") as f:
                b = f.read()
            o, cs = self.project_content_bytes(b)
            res.append(o)
            raws.append(cs)
        return res, raws

    # ---- parity
    def note_candidates(self, cont):
        if not isinstance(cont, dict):
            return
        for d, fl in cont["files"].items():
            for name, f in fl.items():
                for pos, st, hv in f["bl"]:
                    if isinstance(hv, (int,)) or (isinstance(hv, list) and hv[0] in ("s", "J")):
                        self.cands.setdefault((d, pos), set()).add(vt(hv))
        for d, dl in cont["del"].items():
            for pos, hv in dl.items():
                if isinstance(hv, (int,)) or (isinstance(hv, list) and hv[0] in ("s", "J")):
                    self.cands.setdefault((d, int(pos)), set()).add(vt(hv))

    def note_fs(self, fs, cont):
        """values currently in files at their recorded positions are candidates too (CHG blocks have no hash)"""
        if not isinstance(cont, dict):
            return
        for d, fl in cont["files"].items():
            for name, f in fl.items():
                cur = fs.get(d, {}).get(name)
                if not cur or cur.get("k") != "f":
                    continue
                for i, (pos, st, hv) in enumerate(f["bl"]):
                    if i < len(cur["b"]):
                        v = cur["b"][i]
                        if isinstance(v, int) or (isinstance(v, list) and v[0] in ("s", "J")):
                            self.cands.setdefault((d, pos), set()).add(vt(v))

    def parity_bytes(self, l, psizes):
        """concatenated parity stream of level l according to the recorded split sizes (None -> file sizes)"""
        data = b""
        n = self.a.conf.splits[l]
        for s in range(n):
            p = self.a.pfile(l, s)
            if not os.path.exists(p):
                b = b""
            else:
                with open(p, "rb") as f:
                    b = f.read()
            if s < n - 1 and psizes and s < len(psizes) and psizes[s] is not None:
                b = b[:psizes[s]]
            data += b
        return data

    def project_parity(self, cols, psizes=None, nmax=None):
        res = []
        zm = self.a.conf.zmode
        for l in range(self.a.conf.np):
            data = self.parity_bytes(l, psizes[l] if psizes and l < len(psizes) else None)
            n = len(data) // BS
            if nmax is not None:
                n = min(n, nmax)
            row = []
            for p in range(n):
                blk = data[p * BS:(p + 1) * BS]
                dig = hashlib.sha1(blk).digest()
                key = (l, p)
                c = self.pcache.get(key)
                if c and c[0] == dig and c[2] == self._candsig(p, cols):
                    row.append(c[1])
                    continue
                r = self.match_parity(l, p, blk, cols, zm)
                self.pcache[key] = (dig, r, self._candsig(p, cols))
                row.append(r)
            res.append(row)
        return res

    def _candsig(self, p, cols):
        return tuple(sorted((d, tuple(sorted(map(str, self.cands.get((d, p), ()))))) for d in cols))

    def match_parity(self, l, p, blk, cols, zm):
        ds = sorted(cols)
        lists = []
        for d in ds:
            cs = sorted(self.cands.get((d, p), ()), key=str)
            lists.append(['Z'] + cs)
        total = 1
        for x in lists:
            total *= len(x)
        if total > 20000:
            return "TOOMANY"
        pre = []
        for d, lst in zip(ds, lists):
            col = cols[d]
            c = gf.coef(l, col, zm)
            t = gf.multab(c)
            pre.append([int.from_bytes((self.a.vbytes(v) + b"\0" * BS)[:BS].translate(t), "little") for v in lst])
        target = int.from_bytes(blk, "little")
        found = []
        for combo in itertools.product(*[range(len(x)) for x in lists]):
            acc = 0
            for k, i in enumerate(combo):
                acc ^= pre[k][i]
            if acc == target:
                found.append({d: vkey(lists[k][i]) for k, (d, i) in enumerate(zip(ds, combo)) if lists[k][i] != 'Z'})
        return found if found else "JUNK"

    # ---- all
    def project(self):
        fs = {str(d): self.project_disk(d) for d in range(self.a.conf.nd)}
        cont, raws = self.project_contents()
        good = [c for c in cont if isinstance(c, dict)]
        for c in good:
            self.note_candidates(c)
            self.note_fs(fs, c)
        cols = {}
        psizes = None
        nmax = None
        # column of each disk: the recorded map where the disk is recorded (a disk without files is not), else
        # the configuration order (data disks are listed in column order by the driver)
        cols = {str(d): d for d in range(self.a.conf.nd)}
        if good:
            cols.update({d: col for d, col in good[0]["cols"].items() if not d.startswith("x")})
            psizes = good[0]["psize"]
        par = self.project_parity(cols, psizes, nmax)
        return {"fs": fs, "cont": cont, "par": par}
