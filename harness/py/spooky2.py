"""Independent pure-Python implementation of SnapRAID's SpookyHash V2 128-bit block hash.

SnapRAID's variant (cmdline/spooky2.c) differs from Bob Jenkins' SpookyV2 in three ways that matter for
compatibility and are reproduced here from the definition, not from the code:
  * there is NO short-message path: every length goes through the 12-word long-message state;
  * the 16-byte seed is read as two little-endian 64-bit words (a, b); the state starts as
    (a, b, K, a, b, K, a, b, K, a, b, K) with K = 0xdeadbeefdeadbeef;
  * after the whole 96-byte blocks, the remainder (0..95 bytes, possibly empty) is zero padded to 96 bytes, the
    LAST byte of the padded block is set to the remainder length, the twelve words are added to the state and
    three EndPartial rounds follow (SpookyV2 "End": no extra Mix); the digest is state[0] || state[1], each
    little-endian.
All data words are little-endian 64-bit.

The round structure is written with index arithmetic (rotation tables) rather than as the unrolled macro of the
C source, so a transcription slip in one of the two cannot be shared by the other.
"""
import struct

M64 = 0xFFFFFFFFFFFFFFFF
K = 0xdeadbeefdeadbeef

# rotation amounts of the i-th line of Mix and of EndPartial (SpookyV2.h)
MIX_ROT = (11, 32, 43, 31, 17, 28, 39, 57, 55, 54, 22, 46)
END_ROT = (44, 15, 34, 21, 38, 33, 10, 13, 38, 53, 42, 54)


def _rotl(x, r):
    return ((x << r) | (x >> (64 - r))) & M64


def _mix(s, w):
    # line i:  s[i] += w[i]; s[i+2] ^= s[i+10]; s[i+11] ^= s[i]; s[i] = rotl(s[i], R[i]); s[i+11] += s[i+1]
    for i in range(12):
        s[i] = (s[i] + w[i]) & M64
        s[(i + 2) % 12] ^= s[(i + 10) % 12]
        s[(i + 11) % 12] ^= s[i]
        s[i] = _rotl(s[i], MIX_ROT[i])
        s[(i + 11) % 12] = (s[(i + 11) % 12] + s[(i + 1) % 12]) & M64


def _end_partial(h):
    # line i:  h[i+11] += h[i+1]; h[i+2] ^= h[i+11]; h[i+1] = rotl(h[i+1], R[i])
    for i in range(12):
        a, b, c = (i + 11) % 12, (i + 1) % 12, (i + 2) % 12
        h[a] = (h[a] + h[b]) & M64
        h[c] ^= h[a]
        h[b] = _rotl(h[b], END_ROT[i])


def spooky128(data, seed):
    """data: bytes, seed: 16 bytes -> 16-byte digest"""
    if len(seed) != 16:
        raise ValueError("seed must be 16 bytes")
    data = bytes(data)
    a, b = struct.unpack("<2Q", seed)
    s = [a, b, K, a, b, K, a, b, K, a, b, K]
    n = len(data)
    nb = n // 96
    for i in range(nb):
        _mix(s, struct.unpack_from("<12Q", data, i * 96))
    rem = n - nb * 96
    tail = bytearray(96)
    tail[:rem] = data[nb * 96:]
    tail[95] = rem
    w = struct.unpack("<12Q", bytes(tail))
    for i in range(12):
        s[i] = (s[i] + w[i]) & M64
    _end_partial(s)
    _end_partial(s)
    _end_partial(s)
    return struct.pack("<2Q", s[0], s[1])


def block_hash(data, seed, hash_size=16):
    return spooky128(data, seed)[:hash_size]
