"""C18 - include/exclude and selection filters follow the documented rules.

Pipeline (DESIGN.md section 6, C18):
  1. rebuild snapraid and its objects from the repository's working tree;
  2. TLC enumerates rule lists on spec/Filter.tla (written from the manual) and writes, for every
     state (= rule list), the verdict of every path of depth <= 3 for every kind of entry; TLC also
     decides a few properties of the documented rules themselves on every list;
  3. harness/c/filter_conf.c executes every emitted case against the real filter_alloc_file /
     filter_path / filter_subdir / filter_emptydir / filter_content / filter_hidden, once linked
     with the C library's fnmatch (what this platform's binary uses) and once with the repository's
     own cmdline/fnmatch.c;
  4. end to end on the real binary, for a sample of the emitted lists: (a) config with the rule
     list -> random tree -> sync -> list, compared with the model; (b) check/fix with -f -d -m -e:
     what is reported and what is written, compared with the model's selection.
"""
import heapq, json, os, random, shutil, subprocess, sys, time, zlib

import vlib

PID = "C18"
SNAP_FLAGS = ["--test-skip-device", "--test-skip-self", "--test-force-order-alpha", "--no-warnings", "-q", "-q", "-q"]
LINK_OBJS = ["cmdline_elem.o", "cmdline_fnmatch.o", "cmdline_support.o", "cmdline_util.o", "cmdline_unix.o",
             "tommyds_tommy.o", "raid_memory.o"]
SHARDS = 8
MAX_VIOLATION_LINES = 12

TIERS = {
    # cfg, tlc timeout, sync/list scenarios, selection scenarios
    "quick": dict(cfg="Filter.cfg", timeout=600, n_sync=200, n_sel=40),
    "thorough": dict(cfg="Filter_thorough.cfg", timeout=2400, n_sync=1500, n_sel=300),
}


# ---------------------------------------------------------------------------------------
# the universe emitted by TLC

class Universe:
    def __init__(self, hdr):
        self.names = hdr["names"]
        self.patterns = hdr["patterns"]
        self.paths = hdr["paths"]
        self.index = {p: i for i, p in enumerate(self.paths)}
        self.hidden = [any(c.startswith(".") for c in p.split("/")) for p in self.paths]
        self.select = {}
        for row in hdr["select"]:
            key = tuple(bool(row[k]) for k in ("f", "fm", "d", "dm", "m", "miss", "e", "bad"))
            self.select[key] = bool(row["sel"])

    def rule_text(self, r):
        return ("include" if r % 2 else "exclude", self.patterns[(r - 1) // 2])

    def rules_text(self, rs):
        return [list(self.rule_text(r)) for r in rs]


def read_cases(path, seed, n_any, n_inc):
    """Stream the emitted file once: header, number of lines, and two stratified samples (any rule
    list; include-only lists, which are what -f can express).  The sample is a function of the seed
    and of the rule lists only, not of the order in which TLC's workers wrote the lines."""
    hdr = None
    count = 0
    strata_any = {}   # (len, h) -> heap of (-key, line)
    strata_inc = {}   # len -> heap

    def keep(store, skey, key, line, cap):
        heap = store.setdefault(skey, [])
        if len(heap) < cap:
            heapq.heappush(heap, (-key, line))
        elif -heap[0][0] > key:
            heapq.heapreplace(heap, (-key, line))

    salt = ("%d:" % seed).encode()
    with open(path) as f:
        for line in f:
            if not line.strip():
                continue
            if hdr is None and '"patterns"' in line[:4000]:
                hdr = json.loads(line)
                continue
            count += 1
            # cheap pre-parse of the rule list: {"r":[..],"h":H,"v":[...]} in any key order
            try:
                i = line.index('"r":[') + 5
                j = line.index(']', i)
                rtxt = line[i:j]
                rs = [int(x) for x in rtxt.split(",")] if j > i else []
                k = line.index('"h":') + 4
                h = int(line[k])
            except ValueError:
                raise vlib.ToolFailure("unparsable case line %d in %s" % (count, path))
            key = zlib.crc32(salt + rtxt.encode() + (b"h" if h else b""))
            keep(strata_any, (len(rs), h), key, line, n_any)
            if rs and h == 0 and all(r % 2 for r in rs):
                keep(strata_inc, len(rs), key, line, n_inc)
    if hdr is None:
        raise vlib.ToolFailure("no header line in " + path)
    flat = lambda store: {k: [ln for _, ln in sorted(hp, reverse=True)] for k, hp in store.items()}
    return hdr, count, flat(strata_any), flat(strata_inc)


def pick(rng, strata, n, skip_empty_len=True):
    """Round-robin over the strata so that every list length / nohidden flag is represented."""
    keys = sorted(k for k in strata if not (skip_empty_len and (k == 0 or (isinstance(k, tuple) and k[0] == 0))))
    pools = {k: list(strata[k]) for k in keys}
    out = []
    while len(out) < n and any(pools.values()):
        for k in keys:
            if pools[k] and len(out) < n:
                out.append(json.loads(pools[k].pop()))
    return out


# ---------------------------------------------------------------------------------------
# tiny arrays

class Array:
    def __init__(self, root, snap, rules=(), nohidden=False, content_on_d2=None):
        self.root, self.snap = root, snap
        self.disks = {"d1": os.path.join(root, "d1"), "d2": os.path.join(root, "d2")}
        for d in ("d1", "d2", "par", "c"):
            os.makedirs(os.path.join(root, d))
        self.conf = os.path.join(root, "conf")
        self.protected = [os.path.join(root, "par", "p1"), os.path.join(root, "par", "p2"),
                          os.path.join(root, "c", "content")]
        lines = ["blocksize 1",
                 "parity %s/par/p1" % root, "2-parity %s/par/p2" % root,
                 "content %s/d1/content" % root, "content %s/c/content" % root, "content %s/c/content2" % root]
        if content_on_d2:
            lines.append("content %s/d2/%s" % (root, content_on_d2))
        lines += ["data d1 %s/d1/" % root, "data d2 %s/d2/" % root]
        if nohidden:
            lines.append("nohidden")
        for direction, pat in rules:
            lines.append("%s %s" % (direction, pat))
        with open(self.conf, "w") as f:
            f.write("\n".join(lines) + "\n")
        self.conf_text = lines

    def run(self, *args):
        cmd = [self.snap, "-c", self.conf] + SNAP_FLAGS + ["-l", ">&1"] + list(args)
        p = subprocess.run(["timeout", "120"] + cmd, stdout=subprocess.PIPE, stderr=subprocess.STDOUT, text=True,
                           errors="replace")
        if p.returncode == 124:
            raise vlib.ToolFailure("snapraid timed out: " + " ".join(args))
        return p.returncode, p.stdout.splitlines()


def gen_tree(rng, names, force_dir=None):
    """A random consistent tree over the universe's names, depth <= 3.
    Returns {relative path: ("file", bytes) | ("link", target) | ("emptydir",)}; directories that
    have children are implied."""
    tree = {}

    def level(prefix, depth):
        made = 0
        for nm in names:
            p = prefix + nm
            r = rng.random()
            pdir = (0.6, 0.45, 0.12)[depth]
            pfile = (0.2, 0.3, 0.45)[depth]
            plink = (0.1, 0.12, 0.15)[depth]
            if force_dir and p == force_dir:
                r = 0.0
            if r < pdir:
                if depth < 2 and level(p + "/", depth + 1) > 0:
                    pass
                else:
                    tree[p] = ("emptydir",)
                made += 1
            elif r < pdir + pfile:
                tree[p] = ("file", rng.randbytes(rng.choice((1, 300, 1024, 1500, 2500))))
                made += 1
            elif r < pdir + pfile + plink:
                tree[p] = ("link", "../" + rng.choice(names))
                made += 1
        return made

    level("", 0)
    return tree


def materialize(diskdir, tree):
    for p, ent in sorted(tree.items()):
        full = os.path.join(diskdir, p)
        if ent[0] == "emptydir":
            os.makedirs(full, exist_ok=True)
            continue
        os.makedirs(os.path.dirname(full), exist_ok=True)
        if ent[0] == "file":
            with open(full, "wb") as f:
                f.write(ent[1])
        else:
            os.symlink(ent[1], full)


def snapshot(diskdir, skip=("content", "content.lock", "content.tmp")):
    """{relative path: ("file", bytes, mtime_ns) | ("link", target) | ("dir",)} of a data disk."""
    out = {}
    for base, dirs, files in os.walk(diskdir):
        rel = os.path.relpath(base, diskdir)
        rel = "" if rel == "." else rel + "/"
        for d in dirs:
            full = os.path.join(base, d)
            if os.path.islink(full):
                out[rel + d] = ("link", os.readlink(full))
            else:
                out[rel + d] = ("dir",)
        for fn in files:
            if rel == "" and fn in skip:
                continue
            full = os.path.join(base, fn)
            if os.path.islink(full):
                out[rel + fn] = ("link", os.readlink(full))
            else:
                with open(full, "rb") as f:
                    out[rel + fn] = ("file", f.read(), os.stat(full).st_mtime_ns)
    return out


def file_digest(paths):
    out = {}
    for p in paths:
        try:
            with open(p, "rb") as f:
                out[p] = (f.read(), os.stat(p).st_mtime_ns)
        except FileNotFoundError:
            out[p] = None
    return out


def corrupt_silently(full):
    """Flip one byte keeping size and time stamps: only a hash comparison can notice."""
    st = os.stat(full)
    with open(full, "r+b") as f:
        b = f.read(1)
        f.seek(0)
        f.write(bytes([b[0] ^ 0x5A]))
    os.utime(full, ns=(st.st_atime_ns, st.st_mtime_ns))


def remove_all(diskdir):
    for nm in os.listdir(diskdir):
        if nm in ("content", "content.lock", "content.tmp"):
            continue
        full = os.path.join(diskdir, nm)
        if os.path.isdir(full) and not os.path.islink(full):
            shutil.rmtree(full)
        else:
            os.unlink(full)


def listed(lines):
    """Set of (disk, path) of files and links printed by `list -l`."""
    files, links = set(), set()
    ok = False
    for ln in lines:
        if ln.startswith("file:"):
            f = ln.split(":")
            files.add((f[1], f[2]))
        elif ln.startswith("link_"):
            f = ln.split(":")
            links.add((f[1], f[2]))
        elif ln.startswith("summary:exit:ok"):
            ok = True
    return files, links, ok


def statuses(lines):
    out = {}
    for ln in lines:
        if ln.startswith("status:"):
            f = ln.split(":")
            if len(f) >= 4:
                out.setdefault(f[1], set()).add((f[2], f[3]))
    return out


# ---------------------------------------------------------------------------------------
# (4a) sync + list against the model

def e2e_sync(v, U, snap, scratch, rng, case, k):
    rs, h, codes = case["r"], case["h"], case["v"]
    rules = [U.rule_text(r) for r in rs]
    root = os.path.join(scratch, "s%d" % k)
    os.makedirs(root)
    try:
        arr = Array(root, snap, rules=rules, nohidden=bool(h), content_on_d2="b/c")
        trees = {"d1": gen_tree(rng, U.names), "d2": gen_tree(rng, U.names, force_dir="b")}
        for d in trees:
            materialize(arr.disks[d], trees[d])
        os.makedirs(os.path.join(arr.disks["d2"], "b"), exist_ok=True)
        # a stale temporary copy of a content file: one of the tool's own files
        with open(os.path.join(arr.disks["d1"], "content.tmp"), "w") as f:
            f.write("stale")
        rc, out = arr.run("sync")
        if rc != 0:
            raise vlib.ToolFailure("sync failed (rc %d) in e2e scenario %s: %s" % (rc, arr.conf_text, out[-5:]))
        # a second sync: the tool's own files (content copies inside the data disks, their .lock and .tmp companions) exist
        # now and are met by the scan; they must stay out of the array and the second sync must find nothing to do
        rc, out = arr.run("sync")
        if rc != 0:
            v.violation("a second sync, which meets the tool's own files (content copies inside the data disks and their .lock / "
                        ".tmp companions) during the scan, fails with status %d: rules %s nohidden=%d: %s" % (rc, rules, h, out[-4:]),
                        {"kind": "e2e-sync", "scenario": {"config": arr.conf_text[6:], "nohidden": h, "rules": [list(r) for r in rules]}})
            return 0, 0, 1, {"config": arr.conf_text[6:]}
        rc, out = arr.run("list")
        files, links, ok = listed(out)
        if rc != 0 or not ok:
            raise vlib.ToolFailure("list failed in e2e scenario")
        compared = amb = 0
        bad = []
        for d, tree in trees.items():
            for p, ent in tree.items():
                if ent[0] == "emptydir":
                    continue
                e = U.index[p]
                tree_in = bool(codes[e] & 8)
                flat_in = bool(codes[e] & 1) and not (h and U.hidden[e])
                got = (d, p) in (files if ent[0] == "file" else links)
                compared += 1
                if tree_in != flat_in:
                    amb += 1   # manual ambiguous (see Filter.tla SyncAllowed): both outcomes allowed
                    continue
                if got != tree_in:
                    bad.append({"disk": d, "path": p, "kind": ent[0], "model_included": tree_in, "impl_included": got})
            # nothing but entries of the tree may be listed: in particular none of the tool's own files
            for (dd, p) in list(files) + list(links):
                if dd == d and p not in tree:
                    bad.append({"disk": d, "path": p, "kind": "unexpected entry (own file?)", "model_included": False,
                                "impl_included": True})
        scenario = {"config": arr.conf_text[6:], "nohidden": h, "rules": [list(r) for r in rules],
                    "tree": {d: {p: ent[0] for p, ent in t.items()} for d, t in trees.items()},
                    "listed_files": sorted(files), "listed_links": sorted(links)}
        for b in bad[:3]:
            v.violation("sync+list disagrees with the documented rules: rules %s nohidden=%d %s '%s' on %s: "
                        "model %s, snapraid %s" % (rules, h, b["kind"], b["path"], b["disk"],
                                                  "included" if b["model_included"] else "excluded",
                                                  "included" if b["impl_included"] else "excluded"),
                        {"kind": "e2e-sync", "mismatch": b, "scenario": scenario})
        return compared, amb, len(bad), scenario
    finally:
        shutil.rmtree(root, ignore_errors=True)


# ---------------------------------------------------------------------------------------
# (4b) selection options of check / fix

class Sel:
    """One combination of selection options with the model's verdicts for the -f part."""

    def __init__(self, U, case=None, disks=(), missing=False, error=False):
        self.U, self.case, self.disks, self.missing, self.error = U, case, tuple(disks), missing, error

    def args(self):
        a = []
        if self.case:
            for r in self.case["r"]:
                a += ["-f", self.U.rule_text(r)[1]]
        for d in self.disks:
            a += ["-d", d]
        if self.missing:
            a.append("-m")
        if self.error:
            a.append("-e")
        return a

    def selected(self, disk, path, kind, is_missing=False, is_bad=False):
        if self.case:
            code = self.case["v"][self.U.index[path]]
            fm = bool(code & (4 if kind == "emptydir" else 1))
        else:
            fm = False
        key = (bool(self.case), fm, bool(self.disks), disk in self.disks, self.missing, is_missing, self.error, is_bad)
        return self.U.select[key]

    def describe(self):
        return " ".join(self.args()) or "(no option)"


def choose_sel(rng, U, inc_cases, trees, with_disk, **kw):
    """Prefer an -f list that selects some but not all entries of the scenario."""
    best = None
    for _ in range(30):
        case = rng.choice(inc_cases) if inc_cases else None
        disks = ()
        if with_disk:
            disks = rng.choice((("d1",), ("d2",), ("d1", "d2")))
        s = Sel(U, case, disks, **kw)
        n = t = 0
        for d, tree in trees.items():
            for p, ent in tree.items():
                t += 1
                n += s.selected(d, p, ent[0], True, True)
        best = s
        if 0 < n < t:
            break
    return best


def expected_state(orig, current, selected_paths, tree):
    """Data disk state after a fix restricted to selected_paths: those entries are back to their
    original state (with whatever directories they need), everything else is as it was."""
    exp = dict(current)
    for p in selected_paths:
        ent = tree[p]
        if ent[0] == "emptydir":
            exp[p] = ("dir",)
        else:
            exp[p] = orig[p]
        parts = p.split("/")
        for i in range(1, len(parts)):
            exp["/".join(parts[:i])] = ("dir",)
    return exp


def diff_states(exp, got):
    """Differences that matter: type, bytes, link target (restored files get their recorded mtime)."""
    out = []
    for p in sorted(set(exp) | set(got)):
        a, b = exp.get(p), got.get(p)
        if (a and a[:2]) != (b and b[:2]):
            def short(x):
                if x is None:
                    return "absent"
                if x[0] == "file":
                    return "file(%d bytes, crc %08x)" % (len(x[1]), zlib.crc32(x[1]))
                return "%s%s" % (x[0], (" -> " + x[1]) if x[0] == "link" else "")
            out.append({"path": p, "expected": short(a), "found": short(b)})
    return out


def e2e_select(v, U, snap, scratch, rng, inc_cases, k):
    root = os.path.join(scratch, "f%d" % k)
    os.makedirs(root)
    checks = 0
    steps = []
    try:
        arr = Array(root, snap)
        trees = {"d1": gen_tree(rng, U.names), "d2": gen_tree(rng, U.names)}
        for d in trees:
            if not any(e[0] == "file" for e in trees[d].values()):
                trees[d]["a"] = ("file", rng.randbytes(1500))
                for q in [q for q in trees[d] if q.startswith("a/")]:
                    del trees[d][q]
            materialize(arr.disks[d], trees[d])
        rc, out = arr.run("sync")
        if rc != 0:
            raise vlib.ToolFailure("sync failed in selection scenario: %s" % out[-5:])
        orig = {d: snapshot(arr.disks[d]) for d in trees}
        frozen = file_digest(arr.protected)
        files = {d: sorted(p for p, e in trees[d].items() if e[0] == "file") for d in trees}
        scen = {"tree": {d: {p: e[0] for p, e in t.items()} for d, t in trees.items()}}

        def fail(step, sel, what, detail):
            v.violation("selection %s in '%s': %s" % (sel.describe(), step, what),
                        {"kind": "e2e-select", "step": step, "options": sel.args(), "detail": detail, "scenario": scen,
                         "steps_before": list(steps)})

        def check_frozen(step, sel):
            now = file_digest(arr.protected)
            # -e alone keeps the parity in scope (blocks marked bad may be parity blocks); with -f, -m or
            # -d <data disk> the parity files are outside the selection
            scope = arr.protected if (sel.case or sel.disks or sel.missing) else arr.protected[2:]
            changed = [p for p in scope if now[p] != frozen[p]]
            if changed:
                fail(step, sel, "files outside the selection were written: %s" % changed, changed)

        def run_fix_and_compare(step, sel, before, want_paths):
            """want_paths: {disk: set of entries the model says fix must restore}."""
            nonlocal checks
            rc, out = arr.run("fix", *sel.args())
            steps.append([step] + sel.args())
            if rc != 0:
                raise vlib.ToolFailure("fix %s failed (rc %d): %s" % (sel.describe(), rc, out[-8:]))
            for d in trees:
                exp = expected_state(orig[d], before[d], want_paths[d], trees[d])
                got = snapshot(arr.disks[d])
                df = diff_states(exp, got)
                checks += len(set(exp) | set(got))
                if df:
                    fail(step, sel, "disk %s after fix is not 'selected entries restored, nothing else touched': %s"
                         % (d, df[:4]), {"disk": d, "diff": df[:20], "model_selected": sorted(want_paths[d])})
            check_frozen(step, sel)

        def plain_fix(step):
            # without selection fix may (re)write parity: the reference for "nothing else written" restarts
            nonlocal frozen
            rc, out = arr.run("fix")
            steps.append([step])
            if rc != 0:
                raise vlib.ToolFailure("plain fix failed (rc %d): %s" % (rc, out[-8:]))
            nosel = Sel(U)
            for d in trees:
                df = diff_states(orig[d], snapshot(arr.disks[d]))
                if df:
                    fail(step, nosel, "fix without selection did not restore disk %s: %s" % (d, df[:4]), df[:20])
            frozen = file_digest(arr.protected)

        # --- step 1: every file silently corrupted; check with -f/-d reports exactly the selection, writes nothing
        for d in trees:
            for p in files[d]:
                corrupt_silently(os.path.join(arr.disks[d], p))
        damaged = {d: snapshot(arr.disks[d]) for d in trees}
        sel = choose_sel(rng, U, inc_cases, trees, with_disk=rng.random() < 0.5)
        rc, out = arr.run("check", *sel.args())
        steps.append(["check"] + sel.args())
        st = statuses(out)
        reported = st.get("recoverable", set()) | st.get("unrecoverable", set())
        want = {(d, p) for d in trees for p in files[d] if sel.selected(d, p, "file")}
        checks += sum(len(files[d]) for d in trees)
        if reported != want:
            fail("check", sel, "reported files differ from the model's selection: only in model %s, only in snapraid %s"
                 % (sorted(want - reported)[:5], sorted(reported - want)[:5]),
                 {"model": sorted(want), "snapraid": sorted(reported)})
        for d in trees:
            if diff_states(damaged[d], snapshot(arr.disks[d])):
                fail("check", sel, "check modified disk %s" % d, diff_states(damaged[d], snapshot(arr.disks[d]))[:10])
        check_frozen("check", sel)

        # --- step 2: fix with the same selection repairs exactly the selected files
        run_fix_and_compare("fix on corrupted files", sel, damaged,
                            {d: {p for p in files[d] if sel.selected(d, p, "file")} for d in trees})
        plain_fix("plain fix 1")

        # --- step 3: everything deleted; fix -f/-d recreates exactly the selected files, links and empty dirs
        for d in trees:
            remove_all(arr.disks[d])
        empty = {d: snapshot(arr.disks[d]) for d in trees}
        sel = choose_sel(rng, U, inc_cases, trees, with_disk=rng.random() < 0.5)
        run_fix_and_compare("fix on deleted tree", sel, empty,
                            {d: {p for p, e in trees[d].items() if sel.selected(d, p, e[0])} for d in trees})
        plain_fix("plain fix 2")

        # --- step 4: -m: some entries deleted, some present files corrupted: only missing ones come back
        gone = {d: {p for p, e in trees[d].items() if e[0] != "emptydir" and rng.random() < 0.5} for d in trees}
        hurt = {d: {p for p in files[d] if p not in gone[d] and rng.random() < 0.5} for d in trees}
        for d in trees:
            for p in gone[d]:
                os.unlink(os.path.join(arr.disks[d], p))
            for p in hurt[d]:
                corrupt_silently(os.path.join(arr.disks[d], p))
        before = {d: snapshot(arr.disks[d]) for d in trees}
        sel = choose_sel(rng, U, inc_cases if rng.random() < 0.6 else None, trees, with_disk=rng.random() < 0.3,
                         missing=True)
        run_fix_and_compare("fix -m", sel, before,
                            {d: {p for p, e in trees[d].items()
                                 if e[0] != "emptydir" and sel.selected(d, p, e[0], is_missing=p in gone[d])}
                             for d in trees})
        plain_fix("plain fix 3")

        # --- step 5: -e: files found bad by scrub (d1 only) are repaired, files damaged later are not
        f1 = files["d1"]
        if len(f1) >= 2:
            e1 = set(rng.sample(f1, max(1, len(f1) // 2)))
            for p in e1:
                corrupt_silently(os.path.join(arr.disks["d1"], p))
            rc, out = arr.run("scrub", "-p", "full")
            steps.append(["scrub -p full"])
            e2 = {p for p in f1 if p not in e1 and rng.random() < 0.7}
            for p in e2:
                corrupt_silently(os.path.join(arr.disks["d1"], p))
            before = {d: snapshot(arr.disks[d]) for d in trees}
            frozen = file_digest(arr.protected)   # scrub legitimately rewrote the content files
            sel = choose_sel(rng, U, inc_cases if rng.random() < 0.5 else None, {"d1": {p: trees["d1"][p] for p in e1}},
                             with_disk=False, error=True)
            want = {"d1": {p for p in f1 if sel.selected("d1", p, "file", is_bad=p in e1)}, "d2": set()}
            # (files of d2 sharing a stripe with a bad block are selected too, but they are intact)
            run_fix_and_compare("fix -e", sel, before, want)
        plain_fix("plain fix 4")

        # --- step 6: -m and symbolic links: a recorded link that now points to a target that does not exist IS present (only a
        # link that is gone is missing): fix -m leaves it as it is
        links = {d: sorted(p for p, e in trees[d].items() if e[0] not in ("file", "emptydir")) for d in trees}
        if any(links.values()):
            for d in trees:
                for p in links[d][::2]:
                    full = os.path.join(arr.disks[d], p)
                    if os.path.islink(full):
                        os.unlink(full)
                        os.symlink("no/such/target-%d" % len(p), full)
            before = {d: snapshot(arr.disks[d]) for d in trees}
            frozen = file_digest(arr.protected)
            sel = Sel(U, None, (), missing=True)
            run_fix_and_compare("fix -m with re-pointed dangling links", sel, before, {d: set() for d in trees})
            plain_fix("plain fix 5")

        # --- step 7: stripes that cannot be repaired (one parity lost, every file of both disks rotten): whatever fix does with
        # the selected files, an entry outside the selection keeps its name, its bytes and its time stamp
        os.unlink(arr.protected[1])
        for d in trees:
            for p in files[d]:
                corrupt_silently(os.path.join(arr.disks[d], p))
        before = {d: snapshot(arr.disks[d]) for d in trees}
        sel = choose_sel(rng, U, inc_cases, trees, with_disk=rng.random() < 0.5)
        rc, out = arr.run("fix", *sel.args())
        steps.append(["fix with unrecoverable stripes"] + sel.args())
        for d in trees:
            got = snapshot(arr.disks[d])
            outside = {p for p, e in trees[d].items() if not sel.selected(d, p, e[0])}
            for p in sorted(outside):
                checks += 1
                if p in before[d] and got.get(p) != before[d][p]:
                    fail("fix with unrecoverable stripes", sel, "entry %s/%s outside the selection was %s" %
                         (d, p, "renamed or removed" if p not in got else "modified"),
                         {"disk": d, "path": p, "now": sorted(q for q in got if q.startswith(p))})
                    break
        return checks, scen, steps
    finally:
        shutil.rmtree(root, ignore_errors=True)


# ---------------------------------------------------------------------------------------

def run_harness(v, exe, cases, label):
    procs = [subprocess.Popen([exe, cases, str(i), str(SHARDS)], stdout=subprocess.PIPE, stderr=subprocess.PIPE,
                              text=True) for i in range(SHARDS)]
    tot = {"lines": 0, "cases": 0, "calls": 0, "mismatches": 0, "ambiguous": 0, "bundled_fnmatch_calls": 0}
    mism = []
    for p in procs:
        out, err = p.communicate()
        if p.returncode != 0:
            raise vlib.ToolFailure("filter_conf (%s) failed: rc %s %s" % (label, p.returncode, err[-500:]))
        summary = None
        for ln in out.splitlines():
            if ln.startswith("MISMATCH "):
                mism.append(json.loads(ln[9:]))
            elif ln.startswith("SUMMARY "):
                summary = json.loads(ln[8:])
        if summary is None:
            raise vlib.ToolFailure("filter_conf (%s) printed no summary" % label)
        for k in tot:
            tot[k] += summary[k]
    return tot, mism


def run(tier):
    T = TIERS[tier]
    shutil.rmtree(os.path.join(vlib.OUT, "replays", PID), ignore_errors=True)
    v = vlib.Verdict(PID, tier, "model_checking")
    rng = random.Random(vlib.seed() * 7919 + 18)
    build_dir = os.environ.get("VERIF_BUILD", vlib.BUILD)
    t0 = time.time()

    # 1. build
    snap = vlib.build("hooks")
    objs = [os.path.join(build_dir, "hooks", "obj", o) for o in LINK_OBJS]
    for o in objs:
        if not os.path.exists(o):
            raise vlib.ToolFailure("missing object " + o)
    src = os.path.join(vlib.VERIF, "harness", "c", "filter_conf.c")
    exe_libc = vlib.cc_harness("filter_conf", [src], objs, libs=["-lblkid"])
    exe_repo = vlib.cc_harness("filter_conf_repofnmatch",
                               [src, os.path.join(vlib.VERIF, "harness", "c", "bundled_fnmatch.c")], objs,
                               libs=["-lblkid"])

    scratch = vlib.scratch_root()
    try:
        # 2. TLC
        cases = os.path.join(scratch, "cases.ndjson")
        res = vlib.run_tlc("Filter", cfg=T["cfg"], env={"C18_OUT": cases}, timeout=T["timeout"], deadlock=False,
                           tag="C18-" + tier)
        t_tlc = res.wall
        if res.violated or "C18-SPEC-PROPERTY-FAILED" in res.out:
            sys.stderr.write(res.out[-3000:])
            raise vlib.ToolFailure("Filter.tla: a property of the documented rules fails on the model itself (%s): "
                                   "specification error, no verdict on the implementation" % res.violated)
        if res.error:
            sys.stderr.write(res.out[-3000:])
            raise vlib.ToolFailure("TLC: " + res.error)
        hdr, nlines, strata_any, strata_inc = read_cases(cases, vlib.seed(), T["n_sync"], 200)
        if nlines != res.distinct or nlines == 0:
            raise vlib.ToolFailure("TLC found %d states but emitted %d case lines" % (res.distinct, nlines))
        U = Universe(hdr)
        print("C18: TLC %d states (rule lists), %d transitions, %.0fs; %d patterns x 2 directions, %d paths"
              % (res.distinct, res.generated - 2, t_tlc, len(U.patterns), len(U.paths)))

        # 3. every emitted case against the real functions
        t1 = time.time()
        tot, mism = run_harness(v, exe_libc, cases, "libc fnmatch")
        tot_r, mism_r = run_harness(v, exe_repo, cases, "repository fnmatch.c")
        t_har = time.time() - t1
        if tot["lines"] != nlines or tot_r["lines"] != nlines:
            raise vlib.ToolFailure("harness replayed %d/%d of %d lines" % (tot["lines"], tot_r["lines"], nlines))
        if tot_r["bundled_fnmatch_calls"] <= 0 or tot["bundled_fnmatch_calls"] >= 0:
            raise vlib.ToolFailure("the two harness builds are not linked against the intended fnmatch")
        print("C18: harness %d cases (libc fnmatch) + %d cases (repository fnmatch.c), %.0fs; mismatches %d + %d; "
              "%d file cases where literal reading and tree walk differ"
              % (tot["cases"], tot_r["cases"], t_har, tot["mismatches"], tot_r["mismatches"], tot["ambiguous"]))
        shown = 0
        for label, mm, t in (("C library fnmatch", mism, tot), ("repository cmdline/fnmatch.c", mism_r, tot_r)):
            seen = set()
            for m in mm:
                key = (m.get("call"), m.get("kind"))
                if key in seen and shown >= 4:
                    continue
                if shown >= MAX_VIOLATION_LINES:
                    break
                seen.add(key)
                shown += 1
                if "rules" in m:
                    what = ("%s (%s) disagrees with the documented rules [%s]: rules %s nohidden=%d, %s '%s': model %s, "
                            "implementation %s (%d mismatching cases in total)"
                            % (m["call"], m["kind"], label, m["rules"], m["nohidden"], m["kind"], m["path"],
                               "included" if m["model_included"] else "excluded",
                               "included" if m["impl_included"] else "excluded", t["mismatches"]))
                else:
                    what = ("filter_content disagrees [%s]: content files %s, entry '%s': model %s, implementation %s"
                            % (label, m["contents"], m["path"],
                               "own file (excluded)" if m["model_excluded"] else "not an own file",
                               "excluded" if m["impl_excluded"] else "not excluded"))
                v.violation(what, {"kind": "function-level", "fnmatch": label, "case": m})

        # 4. end to end
        t2 = time.time()
        sync_cases = pick(rng, strata_any, T["n_sync"], skip_empty_len=False)
        n_cmp = n_amb = n_bad = 0
        sample_sync = None
        n_sync_done = 0
        inc_cases = pick(rng, strata_inc, 600)
        n_sel_checks = 0
        sample_sel = None
        n_sel_done = 0
        try:
            for k, case in enumerate(sync_cases):
                c, a, b, scen = e2e_sync(v, U, snap, scratch, rng, case, k)
                n_sync_done += 1
                n_cmp += c
                n_amb += a
                n_bad += b
                if sample_sync is None and len(case["r"]) >= 2:
                    sample_sync = scen
                if len(v.violations) >= MAX_VIOLATION_LINES:
                    break
            for k in range(T["n_sel"]):
                if len(v.violations) >= MAX_VIOLATION_LINES:
                    break
                c, scen, steps = e2e_select(v, U, snap, scratch, rng, inc_cases, k)
                n_sel_checks += c
                n_sel_done += 1
                if sample_sel is None:
                    sample_sel = {"tree": scen["tree"], "steps": steps}
        except vlib.ToolFailure as ex:
            # once disagreements are on record a command of the binary failing later on is a
            # consequence, not a reason to withhold the verdict
            if not v.violations:
                raise
            print("C18: end-to-end part stopped after violations: %s" % ex)
        t_e2e = time.time() - t2
        print("C18: end to end: %d sync+list scenarios (%d entries compared, %d of them ambiguous in the manual), "
              "%d selection scenarios (%d entry checks), %.0fs"
              % (n_sync_done, n_cmp, n_amb, n_sel_done, n_sel_checks, t_e2e))

        # evidence
        samples = []
        for case in pick(rng, strata_any, 3):
            e = rng.randrange(len(U.paths))
            code = case["v"][e]
            samples.append({"rules": U.rules_text(case["r"]), "nohidden": case["h"], "path": U.paths[e],
                            "model": {"file_or_link_by_own_path": bool(code & 1), "directory_entered": bool(code & 2),
                                      "empty_dir_selected": bool(code & 4), "file_taken_by_sync_walk": bool(code & 8),
                                      "directory_taken_by_sync_walk": bool(code & 16)}})
        if sample_sync:
            samples.append({"e2e_sync": sample_sync})
        if sample_sel:
            samples.append({"e2e_selection": sample_sel})
        cov = {
            "states": res.distinct, "transitions": max(res.generated - 2, 0),
            "traces_validated_against_impl": tot["cases"],
            "samples": samples, "exhaustive": True,
            "rule_lists_replayed": nlines,
            "cases_against_repository_fnmatch_c": tot_r["cases"],
            "function_calls_libc_build": tot["calls"],
            "function_level_mismatches": tot["mismatches"] + tot_r["mismatches"],
            "manual_ambiguous_file_cases": tot["ambiguous"],
            "patterns": len(U.patterns), "paths": len(U.paths),
            "e2e_sync_scenarios": n_sync_done, "e2e_sync_entries_compared": n_cmp,
            "e2e_sync_entries_ambiguous_in_manual": n_amb,
            "e2e_selection_scenarios": n_sel_done, "e2e_selection_entry_checks": n_sel_checks,
            "tlc_wall_s": round(t_tlc, 1), "harness_wall_s": round(t_har, 1), "e2e_wall_s": round(t_e2e, 1),
            "tlc_cfg": T["cfg"],
            "rule": "one TLC state per rule list (bounds in the cfg); every (rule list, path, kind) verdict is one "
                    "implementation test; e2e scenarios are seeded samples of the emitted lists",
        }
        assumptions = [
            "Filter.tla is written from snapraid.txt sections 7.4, 7.6, 7.7, 8 and the option descriptions; the pool "
            "avoids pattern syntax the manual leaves undefined (trailing backslash, unterminated '[', escapes in classes)",
            "manual ambiguity reported as finding: an include rule matching a file placed before an exclude DIR/ rule "
            "matching one of its directories (literal first-match reading: included; tree walk: excluded). Both "
            "outcomes are accepted end to end on exactly these cases; filter_path and filter_subdir are checked exactly",
            "empty directories under sync are not specified by the manual and not asserted (list does not show them); "
            "their selection by -f in fix is asserted",
            "-e marks are per stripe: the -e scenario damages one disk only so that 'file has a bad block' is unambiguous",
            "Unix build: case sensitive matching, '\\' escape",
        ]
        return v.finish(coverage=cov, assumptions=assumptions)
    finally:
        shutil.rmtree(scratch, ignore_errors=True)


# ---------------------------------------------------------------------------------------
# replay of a recorded violation (./verif replay <file>): returns 1 if it still reproduces, 0 if not

def replay(obj):
    """obj: the "replay" member of a file written by Verdict.violation."""
    build_dir = os.environ.get("VERIF_BUILD", vlib.BUILD)
    snap = vlib.build("hooks")
    kind = obj.get("kind")
    if kind == "function-level":
        m = obj["case"]
        objs = [os.path.join(build_dir, "hooks", "obj", o) for o in LINK_OBJS]
        srcs = [os.path.join(vlib.VERIF, "harness", "c", "filter_conf.c")]
        if "repository" in obj.get("fnmatch", ""):
            srcs.append(os.path.join(vlib.VERIF, "harness", "c", "bundled_fnmatch.c"))
        exe = vlib.cc_harness("filter_conf_replay", srcs, objs, libs=["-lblkid"])
        if "rules" not in m:
            print("own-file case, re-run the check: %s" % m)
            return 2
        args = [exe, "--probe", str(m["nohidden"]), m["path"]]
        for d, p in m["rules"]:
            args += [d, p]
        out = subprocess.run(args, stdout=subprocess.PIPE, text=True).stdout
        got = json.loads(out)
        field = {("filter_path", "file"): "file", ("filter_path", "link"): "file", ("filter_subdir", "dir"): "dir",
                 ("filter_emptydir", "emptydir"): "emptydir", ("scan walk", "file"): "walk_file",
                 ("scan walk", "link"): "walk_file", ("scan walk", "dir"): "walk_dir"}.get((m["call"], m["kind"]))
        print("rules %s nohidden=%d path '%s': implementation answers %s; model says %s for %s/%s"
              % (m["rules"], m["nohidden"], m["path"], got, m["model_included"], m["call"], m["kind"]))
        if field is None or field not in got:
            return 1
        return 1 if got[field] != m["model_included"] else 0
    if kind == "e2e-sync":
        sc, mm = obj["scenario"], obj["mismatch"]
        scratch = vlib.scratch_root()
        try:
            rng = random.Random(1)
            arr = Array(os.path.join(scratch, "r"), snap, rules=[tuple(r) for r in sc["rules"]],
                        nohidden=bool(sc["nohidden"]), content_on_d2="b/c")
            for d, t in sc["tree"].items():
                tree = {p: (("file", rng.randbytes(700)) if k == "file" else ("link", "../a") if k == "link"
                            else ("emptydir",)) for p, k in t.items()}
                materialize(arr.disks[d], tree)
            os.makedirs(os.path.join(arr.disks["d2"], "b"), exist_ok=True)
            with open(os.path.join(arr.disks["d1"], "content.tmp"), "w") as f:
                f.write("stale")
            arr.run("sync")
            rc, out = arr.run("list")
            files, links, ok = listed(out)
            got = (mm["disk"], mm["path"]) in (files | links)
            print("config %s: '%s' on %s is %s by snapraid, the model says %s"
                  % (arr.conf_text[6:], mm["path"], mm["disk"], "listed" if got else "not listed",
                     "included" if mm["model_included"] else "excluded"))
            return 1 if got != mm["model_included"] else 0
        finally:
            shutil.rmtree(scratch, ignore_errors=True)
    print("selection scenario (re-run `./verif check C18 quick` to re-evaluate): %s" % json.dumps(obj, indent=1)[:3000])
    return 2
