"""C10  Saving and reloading the array state is lossless.

M: spec/ContentFormat.tla is the normative encoder EncodeRaw / Encode (with the writer's normalisation Norm) and
   its strict inverse DRun; spec/ContentFormatMC.tla generates small ContentStates covering every record kind and
   run shape and TLC checks on each  Decoded(EncodeRaw(s)) = LoadView(s),  Decoded(Encode(s)) = Reloaded(s),
   Norm(Decoded(EncodeRaw(s))) = Reloaded(s),  EncodeRaw(Decoded(Encode(s))) = Encode(s)  and dumps the corpus.
B: both directions.
   (A) spec -> code: every generated state the configuration parser can describe is written (raw bytes of TLC) as
       the content copies of an array whose configuration is derived from the state; list / status -G / diff
       must report the state; `test-rewrite` must turn the raw bytes into exactly TLC's Encode(s) bytes on every
       copy; the reports after the rewrite must be those of Norm(s).
   (B) code -> spec: every content file found after every step of seeded random histories (scen.Gen; several
       configurations incl. hash sizes 2/4/8, split parity = version 3, 1..4 copies) plus directed endings (odd
       names, links, empty directories, a sync killed right after its first save) is decoded by the independent
       decoder (content.py), re-encoded by the transliteration of the spec (cfmt.py, itself checked byte for
       byte against TLC on the whole corpus; the small files also go through TLC's own EncodeRaw: Part "check")
       and compared byte for byte; all copies must be identical; test-rewrite must reproduce the file; loading
       through copy k alone must give the same list / status -G reports for every k.
"""
import hashlib, json, multiprocessing, os, random, shutil, time, traceback

import vlib, arr, cfmt, cfarr, cfspec, content

NOW = 1601000000


# ---------------------------------------------------------------------------------------
# (A) spec -> code

def _hex(b):
    return bytes(b).hex()


def bind_case(args):
    """one generated case against the real tool; returns {"k", "checks", "fail": None | {...}}"""
    e, binary, blocks_limit, timeout = args[:4]
    rewrite_only = len(args) > 4 and args[4]
    s = e["s"]
    now = cfmt.unat(e["now"])
    raw, norm = bytes(e["raw"]), bytes(e["norm"])
    res = {"k": e["k"], "c": e["c"], "checks": 0, "fail": None, "wall": 0.0}
    t0 = time.time()
    a = cfarr.SpecArray(s, copies=2, binary=binary)

    def fail(what, **kw):
        res["fail"] = dict(what=what, choice=e["c"], state=cfmt.summary(s), conf=open(a.conf).read(), raw=_hex(raw),
                           expected=_hex(norm), **kw)
        return res
    try:
        bmax = cfmt.Bmax(s)
        small = bmax <= blocks_limit
        a.install(raw)
        for phase, st in (("as written by the spec", s), ("after test-rewrite", cfmt.Norm(s))):
            if phase != "as written by the spec":
                r = a.run("test-rewrite", now=now, timeout=timeout)
                res["checks"] += 1
                if r.timed_out:
                    return fail("test-rewrite timed out")
                if r.rc != 0:
                    return fail("test-rewrite fails on a state of the format (exit %d)" % r.rc, stderr=r.err[-1500:])
                got = [a.read(c) for c in range(a.copies)]
                res["checks"] += a.copies
                if got[0] != norm:
                    i = next((i for i in range(min(len(got[0]), len(norm))) if got[0][i] != norm[i]), min(len(got[0]), len(norm)))
                    return fail("test-rewrite does not reproduce Encode(s): first difference at byte %d "
                                "(expected %d bytes, got %d)" % (i, len(norm), len(got[0])), got=_hex(got[0]), offset=i)
                if any(g != got[0] for g in got):
                    return fail("content copies differ after test-rewrite", got=[_hex(g) for g in got])
            if rewrite_only:
                continue
            empties = set(a.disk_names) - {cfarr._s(st["maps"][D["map"] - 1]["name"]) for D in st["disks"]}
            r = a.run("list", now=now, timeout=timeout)
            res["checks"] += 1
            ex, go = cfarr.expect_list(st), cfarr.got_list(r.tags)
            if r.rc != 0 or ex != go:
                return fail("list -l does not report the state %s (exit %d)" % (phase, r.rc), diff=cfarr.first_diff(ex, go),
                            stderr=r.err[-800:])
            r = a.run("status", *(["-G"] if small else []), now=now, timeout=timeout)
            res["checks"] += 1
            ex = cfarr.expect_status(st, now, blocks=small)
            go = cfarr.got_status(r.tags, blocks=small, empty_disks=empties)
            if r.rc != 0 or ex != go:
                return fail("status -G -l does not report the state %s (exit %d)" % (phase, r.rc),
                            diff=cfarr.first_diff(ex, go), stderr=r.err[-800:])
            r = a.run("diff", now=now, timeout=timeout)
            res["checks"] += 1
            ex, go = cfarr.expect_diff_removed(st), cfarr.got_diff(r.tags)
            if ex != go:
                return fail("diff against empty disks does not list exactly the recorded files %s" % phase,
                            diff=cfarr.first_diff(ex, go), stderr=r.err[-800:])
        return res
    except Exception:
        res["error"] = traceback.format_exc()
        return res
    finally:
        res["wall"] = time.time() - t0
        a.destroy()


# ---------------------------------------------------------------------------------------
# (B) code -> spec

ODD_NAMES = [b"A:b", b"x\\y", b"sp ace", b"nl\nx", b"\x80\xff\xfe", b"sub/dir/deep:er", b"tab\there", b"q'\"$*?"]


class Capture:
    """all distinct content files seen, with the comparisons made on them"""

    def __init__(self, v):
        self.v = v
        self.seen = {}            # sha1 -> {"b": bytes, "s": state, "where": text}
        self.comparisons = 0
        self.files_looked = 0
        self.versions = {2: 0, 3: 0}
        self.kinds = set()

    def look(self, a, copies, where, history):
        """read all copies of array a; returns bytes of copy 0 or None"""
        bs = []
        for c in range(copies):
            p = a.cfile(c)
            bs.append(open(p, "rb").read() if os.path.exists(p) else None)
        self.files_looked += len(bs)
        if all(b is None for b in bs):
            return None
        self.comparisons += len(bs) - 1
        if any(b != bs[0] for b in bs):
            self.v.violation("content copies are not byte-identical after: %s" % where,
                             {"history": history, "copies": [b.hex() if b is not None else None for b in bs]},
                             signature="copies-differ")
            return None
        self.check_file(bs[0], where, history)
        return bs[0]

    def check_file(self, b, where, history):
        h = hashlib.sha1(b).hexdigest()
        if h in self.seen:
            return
        try:
            cs = content.decode(b)
        except content.ContentError as ex:
            self.v.violation("the tool wrote a content file the independent decoder rejects (%s) after: %s" % (ex, where),
                             {"history": history, "bytes": b.hex()}, signature="undecodable")
            self.seen[h] = None
            return
        s = cfmt.from_decoded(cs)
        now = cfmt.now_of(b, s)
        self.seen[h] = {"b": b, "s": s, "where": where, "now": now}
        self.versions[cs["version"]] = self.versions.get(cs["version"], 0) + 1
        self.kinds.update(cs["order"])
        for f in (x for D in s["disks"] for x in D["files"]):
            self.kinds.update(chr(bl["st"]) for bl in f["blocks"])
        if any(D["del"] for D in s["disks"]):
            self.kinds.add('o')
        enc = cfmt.EncodeRaw(s, now)
        self.comparisons += 1
        if enc != b:
            i = next((i for i in range(min(len(enc), len(b))) if enc[i] != b[i]), min(len(enc), len(b)))
            self.v.violation("a content file written by the tool is not Encode(its own state): first difference at "
                             "byte %d (tool %d bytes, spec %d bytes) after: %s" % (i, len(b), len(enc), where),
                             {"history": history, "tool": b.hex(), "spec": enc.hex(), "state": cfmt.summary(s)},
                             signature="reencode-differs")
            return
        self.comparisons += 1
        if cfmt.Norm(s) != s:
            self.v.violation("a content file written by the tool is not normalised (info / deleted blocks on unused "
                             "positions, or a mapping of an empty disk) after: %s" % where,
                             {"history": history, "tool": b.hex(), "state": cfmt.summary(s)}, signature="not-normalised")


def saved_names_oracle(a, b, v, where, history):
    """after a sync that ended well the saved state names exactly the files, links and empty directories that are on the data
    disks (what the scan had in memory went into the file: nothing is dropped by the writer)"""
    try:
        cs = content.decode(b)
    except content.ContentError:
        return 0
    names = [n.encode() for n in a.conf.disk_names]
    bad = []
    for d, dn in enumerate(names):
        base = a.ddir(d).encode()
        files, links, dirs = set(), set(), set()
        for dp, dns, fns in os.walk(base):
            rel = os.path.relpath(dp, base)
            for n in fns:
                q = os.path.join(dp, n); sub = n if rel == b"." else os.path.join(rel, n)
                (links if os.path.islink(q) else files).add(sub)
            for n in list(dns):
                q = os.path.join(dp, n); sub = n if rel == b"." else os.path.join(rel, n)
                if os.path.islink(q):
                    links.add(sub)
                elif not os.listdir(q):
                    dirs.add(sub)
        rec = next((x for x in cs["disks"].values() if x["name"] == dn), None)
        rf = set(f["sub"] for f in rec["files"]) if rec else set()
        rl = set(l["sub"] for l in rec["links"]) if rec else set()
        rd = set(rec["dirs"]) if rec else set()
        # names sharing an inode: one of them is recorded as the file, the others as hard links
        if (rf | rl) != (files | links) or rd != dirs:
            bad.append({"disk": dn.decode(), "files_or_links_missing": sorted(x.decode("latin1") for x in (files | links) - (rf | rl)),
                        "files_or_links_extra": sorted(x.decode("latin1") for x in (rf | rl) - (files | links)),
                        "dirs_missing": sorted(x.decode("latin1") for x in dirs - rd), "dirs_extra": sorted(x.decode("latin1") for x in rd - dirs)})
    if bad:
        v.violation("the state saved by a successful sync does not name what is on the data disks after: %s: %s" % (where, bad),
                    {"history": history, "differences": bad}, signature="saved-state-drops-entries")
    return 1


def report_through_each_copy(a, copies, v, cap, where, history):
    """list and status -G through copy k alone (the others renamed away) must not depend on k"""
    digs = []
    hidden = []
    try:
        for k in range(copies):
            for c in range(copies):
                if c != k:
                    os.rename(a.cfile(c), a.cfile(c) + ".hidden")
                    hidden.append(c)
            d = []
            for cmd, args in (("list", []), ("status", ["-G"])):
                r = a.run(cmd, *args)
                dg, n = cfarr.report_digest(r.tags)
                d.append((cmd, r.rc, dg, n))
            digs.append(d)
            for c in list(hidden):
                os.rename(a.cfile(c) + ".hidden", a.cfile(c))
                hidden.remove(c)
            # a command that found copies missing must not have recreated or changed anything
    finally:
        for c in hidden:
            if os.path.exists(a.cfile(c) + ".hidden"):
                os.rename(a.cfile(c) + ".hidden", a.cfile(c))
    cap.comparisons += 2 * (copies - 1)
    if any(d != digs[0] for d in digs) or any(x[1] != 0 for d in digs for x in d):
        v.violation("list / status -G report different states depending on the content copy that is read, after: %s" % where,
                    {"history": history, "digests": digs}, signature="copy-dependent-report")
    return len(digs)


# options that only matter to what a command DOES, never to the state it loads: a rewrite under them reproduces the file too
REWRITE_OPTIONS = [(), ("-E", "-Z")]


def rewrite_in_place(a, copies, v, cap, where, history):
    before = open(a.cfile(0), "rb").read()
    for opts in REWRITE_OPTIONS:
        r = a.run("test-rewrite", *opts)
        after = [open(a.cfile(c), "rb").read() for c in range(copies)]
        cap.comparisons += copies
        if r.rc != 0 or any(x != before for x in after):
            v.violation("test-rewrite %s of a content file written by the tool does not reproduce it byte for byte "
                        "(exit %d) after: %s" % (" ".join(opts), r.rc, where),
                        {"history": history, "options": list(opts), "before": before.hex(), "after": [x.hex() for x in after],
                         "stderr": r.err[-800:]},
                        signature="rewrite-differs" + ("-with-options" if opts else ""))
            for c in range(copies):
                with open(a.cfile(c), "wb") as f:
                    f.write(before)
            break


LEVEL_NAMES = ["parity", "2-parity", "3-parity", "4-parity", "5-parity", "6-parity"]


def gen_conf_oracle(a, conf, copies, v, cap, where, history):
    """the layout rebuilt from a content copy alone (snapraid -C copy: block size, hash size, parity levels with their
    number of files, data disks by name) is the one of the configuration that wrote it, whichever copy is read"""
    import subprocess
    n = 0
    for k in range(copies):
        if not os.path.exists(a.cfile(k)):
            continue
        p = subprocess.run([a.bin, "-C", a.cfile(k)], stdout=subprocess.PIPE, stderr=subprocess.PIPE, timeout=60)
        out = p.stdout.decode(errors="replace").splitlines()
        got = {"levels": {}, "data": [], "blocksize": None, "hashsize": None}
        had = None
        for line in out:
            w = line.split()
            if not w:
                continue
            if line.startswith("# You had "):
                had = int(w[3])
            elif w[0] in LEVEL_NAMES:
                got["levels"][w[0]] = had
                had = None
            elif w[0] == "data" and len(w) >= 2:
                got["data"].append(w[1])
            elif w[0] in ("blocksize", "hashsize") and len(w) >= 2:
                got[w[0]] = w[1]
        want = {"levels": {LEVEL_NAMES[l]: conf.splits[l] for l in range(conf.np)},
                # the disks of the saved state are those of its mapping records (a disk without any file has none)
                "data": sorted((m["name"].decode() if isinstance(m["name"], bytes) else m["name"]) for m in content.decode(open(a.cfile(k), "rb").read())["maps"]),
                "blocksize": "1", "hashsize": str(conf.hash_size)}
        got["data"] = sorted(got["data"])
        n += 1
        cap.comparisons += 1
        if p.returncode != 0 or got != want:
            v.violation("the layout rebuilt from content copy %d alone (snapraid -C) is not the one that was saved (exit %d): "
                        "got %r, saved %r, after: %s" % (k, p.returncode, got, want, where),
                        {"history": history, "copy": k, "got": got, "want": want, "stderr": p.stderr.decode(errors="replace")[-600:]},
                        signature="gen-conf-differs")
            break
    return n


def history(hseed, conf_kw, profile, nsteps, v, cap, stats):
    import scen
    conf = arr.Conf(**conf_kw)
    g = scen.Gen(hseed, conf=conf, profile=profile)
    a = g.a
    copies = conf.copies
    tag = "seed=%d conf=%s profile=%s" % (hseed, conf_kw, profile)
    try:
        for i in range(nsteps):
            g.step()
            cap.look(a, copies, "%s step %d: %s" % (tag, i, g.steps[-1] if g.steps else ""), g.steps)
            if i in (nsteps // 2,) and os.path.exists(a.cfile(0)) and copies > 1:
                stats["copy_loads"] += report_through_each_copy(a, copies, v, cap, "%s step %d" % (tag, i), g.steps)
        stats["steps"] += nsteps
        # directed endings (the recorder is not used any more: names the projection does not handle)
        rng = random.Random(hseed)
        r = a.run("sync")
        g.steps.append("sync -> %d" % r.rc)
        cap.look(a, copies, tag + " closing sync", g.steps)
        tick = 5000
        for d in range(conf.nd):
            base = a.ddir(d).encode()
            for nm in rng.sample(ODD_NAMES, 4):
                p = os.path.join(base, nm)
                os.makedirs(os.path.dirname(p), exist_ok=True)
                with open(p, "wb") as f:
                    f.write(arr.value_bytes(hseed, 900000 + tick, rng.choice([1, 700, 1024, 2048, 2500])))
                tick += 1
                t = (arr.BASE_TIME + tick) * 10**9 + rng.choice([0, 1, 999999999, 123456789])
                os.utime(p, ns=(t, t))
            os.makedirs(os.path.join(base, b"empty:dir"), exist_ok=True)
            os.makedirs(os.path.join(base, b"e2/inner"), exist_ok=True)
            if not os.path.lexists(os.path.join(base, b"sym link")):
                os.symlink(b"zz", os.path.join(base, b"sym link"))
                os.symlink(b"/abs/\xff:target", os.path.join(base, b"sym2"))
            if os.path.exists(os.path.join(base, b"zz")) and not os.path.lexists(os.path.join(base, b"hard:link")):
                os.link(os.path.join(base, b"zz"), os.path.join(base, b"hard:link"))
        g.steps.append("add odd names, links, empty dirs on every disk")
        # files copied to another disk with their time stamp (cp -p): the killed sync saves their blocks as "replaced" blocks
        # carrying the known hashes
        if conf.nd > 1:
            for nm in sorted(os.listdir(a.ddir(0)))[:6]:
                src = os.path.join(a.ddir(0), nm)
                dst = os.path.join(a.ddir(1), nm)
                if os.path.isfile(src) and not os.path.islink(src) and os.path.getsize(src) > 0 and not os.path.lexists(dst):
                    shutil.copyfile(src, dst)
                    stt = os.lstat(src)
                    os.utime(dst, ns=(stt.st_mtime_ns, stt.st_mtime_ns))
            g.steps.append("cp -p files of disk 0 to disk 1")
        # a sync killed right after its first save leaves the pre-sync image (blocks CHG / deleted)
        r = a.run("sync", rules=["rename,content,%d,killa" % copies])
        g.steps.append("sync killed after the first save -> %d" % r.rc)
        b1 = cap.look(a, copies, tag + " sync killed after first save", g.steps)
        if b1 is not None:
            stats["copy_loads"] += report_through_each_copy(a, copies, v, cap, tag + " killed sync", g.steps) if copies > 1 else 0
            rewrite_in_place(a, copies, v, cap, tag + " killed sync", g.steps)
        for d in range(conf.nd):
            fl = sorted(os.listdir(a.ddir(d).encode()))
            for nm in fl[:2]:
                p = os.path.join(a.ddir(d).encode(), nm)
                if os.path.isfile(p) and not os.path.islink(p) and nm != b"zz":
                    os.remove(p)
        g.steps.append("delete some files")
        r = a.run("sync", rules=["rename,content,%d,killa" % copies])
        g.steps.append("sync killed after the first save -> %d" % r.rc)
        cap.look(a, copies, tag + " second killed sync", g.steps)
        a.clock += 100
        r = a.run("sync")
        g.steps.append("sync -> %d" % r.rc)
        b2 = cap.look(a, copies, tag + " final sync", g.steps)
        if b2 is not None and r.rc == 0:
            stats["oracle"] = stats.get("oracle", 0) + saved_names_oracle(a, b2, v, tag + " final sync", g.steps)
            # a disk that holds nothing but empty directories, another nothing but a link: still recorded
            last = conf.nd - 1
            shutil.rmtree(a.ddir(last)); os.makedirs(os.path.join(a.ddir(last), "only", "dirs")); os.makedirs(os.path.join(a.ddir(last), "e"))
            if conf.nd > 1:
                shutil.rmtree(a.ddir(0)); os.makedirs(a.ddir(0)); os.symlink("nowhere", os.path.join(a.ddir(0), "only-link"))
            a.clock += 100
            r5 = a.run("sync", "-E")
            g.steps.append("disk %d keeps only empty directories, disk 0 only a link; sync -E -> %d" % (last, r5.rc))
            b5 = cap.look(a, copies, tag + " only-dirs sync", g.steps)
            if b5 is not None and r5.rc == 0:
                stats["oracle"] = stats.get("oracle", 0) + saved_names_oracle(a, b5, v, tag + " only-dirs sync", g.steps)
                r6 = a.run("diff")
                if r6.rc != 0:
                    v.violation("diff reports differences (exit %d) right after a successful sync of disks holding only empty "
                                "directories / only a link after: %s" % (r6.rc, tag), {"history": g.steps, "out": r6.out[-800:]},
                                signature="saved-state-drops-entries")
        if b2 is not None:
            if copies > 1:
                stats["copy_loads"] += report_through_each_copy(a, copies, v, cap, tag + " final", g.steps)
            rewrite_in_place(a, copies, v, cap, tag + " final", g.steps)
            stats["rewrites"] += 1
            stats["genconf"] = stats.get("genconf", 0) + gen_conf_oracle(a, conf, copies, v, cap, tag + " final", g.steps)
        r = a.run("scrub", "-p", "full")
        g.steps.append("scrub -> %d" % r.rc)
        cap.look(a, copies, tag + " scrub", g.steps)
        if conf.hash_kind == "murmur3":
            # change of the hash function: 'C' record and rehash marks, then a partial scrub converts some blocks
            other = arr.Array.BASE_FLAGS + ["--test-force-spooky2"]
            r = a.run("rehash", base_flags=other, hashflag=False)
            g.steps.append("rehash to spooky2 -> %d" % r.rc)
            cap.look(a, copies, tag + " rehash", g.steps)
            a.clock += 100
            r = a.run("scrub", "-p", "40", "-o", "0", base_flags=other, hashflag=False)
            g.steps.append("scrub -p 40 -> %d" % r.rc)
            b3 = cap.look(a, copies, tag + " partial scrub while rehashing", g.steps)
            if b3 is not None:
                rewrite_in_place(a, copies, v, cap, tag + " rehash", g.steps)
                if copies > 1:
                    stats["copy_loads"] += report_through_each_copy(a, copies, v, cap, tag + " rehash", g.steps)
        stats["histories"] += 1
    finally:
        g.close()


CONFS = [
    (dict(nd=2, np=2, copies=2), "mixed"),
    (dict(nd=3, np=1, copies=3, hash_size=4), "syncheavy"),
    (dict(nd=2, np=2, copies=2, splits=[2, 1]), "damage"),
    (dict(nd=2, np=1, copies=1, hash_size=8), "mixed"),
    (dict(nd=3, np=3, copies=4, hash_size=2), "syncheavy"),
    (dict(nd=3, np=2, copies=2, hash_kind="spooky2"), "damage"),
    (dict(nd=2, np=2, copies=3, splits=[1, 3], hash_size=8), "mixed"),
    (dict(nd=4, np=2, copies=2), "syncheavy"),
]


# ---------------------------------------------------------------------------------------

def run(tier):
    tier = "thorough" if tier == "thorough" else "quick"
    v = vlib.Verdict("C10", tier, "translation_validation")
    lv = cfspec.Limited(v)
    binary = vlib.build("hooks")
    vlib.build_shim()
    d = cfspec.rundir("c10")
    pool = None
    try:
        # ---- M: TLC generates, checks the round trip, dumps the corpus
        nextra = 150 if tier == "quick" else 900
        corpus, gres = cfspec.generate(d, tier, nextra)
        ncmp = cfspec.check_transliteration(corpus)
        # the independent decoder must agree with the spec decoder on the generated files it can hold
        ndec = 0
        for e in corpus:
            if cfmt.Bmax(e["s"]) <= 100000:
                if cfmt.from_decoded(content.decode(bytes(e["norm"]))) != cfmt.Reloaded(e["s"], cfmt.unat(e["now"])):
                    raise vlib.ToolFailure("content.py and ContentFormat.tla decode case %r differently" % e["c"])
                ndec += 1

        # ---- (A) spec -> code
        big_limit = 4 if tier == "quick" else 5          # highest position base bound to the tool (5 = 2^28)
        bound, model_only = [], []
        nbig = 0
        for e in corpus:
            if not cfarr.configurable(e["s"]) or e["c"]["base"] > big_limit:
                model_only.append(e)
                continue
            if e["c"]["base"] == 5:
                nbig += 1
                if nbig > 6:                              # 2^28 positions cost ~25 s per command
                    model_only.append(e)
                    continue
            bound.append(e)
        bound.sort(key=lambda e: -e["c"]["base"])
        jobs = [(e, binary, 20000, 900) for e in bound]
        huge = [e for e in model_only if e["c"]["base"] == 6 and cfarr.configurable(e["s"])]
        if tier == "thorough" and huge:
            # one state with positions up to 2^32-2: only the rewrite (each command takes ~8 min and 16 GiB)
            e = min(huge, key=lambda e: len(e["raw"]))
            model_only.remove(e)
            bound.insert(0, e)
            jobs.insert(0, (e, binary, 20000, 2400, True))
        pool = multiprocessing.Pool(14)
        t0a = time.time()
        pending = pool.map_async(bind_case, jobs, chunksize=1)      # collected after part (B), which runs meanwhile

        # ---- (B) code -> spec
        cap = Capture(lv)
        stats = {"histories": 0, "steps": 0, "copy_loads": 0, "rewrites": 0}
        rounds = 3 if tier == "quick" else 12
        nsteps = 40 if tier == "quick" else 70
        t0 = time.time()
        for rnd in range(rounds):
            for i, (ckw, profile) in enumerate(CONFS):
                history(vlib.seed() * 1000 + rnd * 50 + i, ckw, profile, nsteps, lv, cap, stats)
        b_wall = time.time() - t0
        real = [x for x in cap.seen.values() if x]

        # ---- every command loads the state that was saved: check and fix under --force-nocopy (an option for what SYNC does with
        # copies) on an array whose content file holds provisional hashes (REP blocks), validated against ArrayTrace.tla
        import arrayprop, directed
        dsc = [arrayprop._run_scenario((vlib.seed() * 10 + k, dict(nd=2, np=1, copies=2), "directed-rep-corruption-nocopy", 0, fn))
               for k, fn in enumerate((directed.rep_block_corruption_nocopy, directed.rep_block_corruption))]
        for sc in dsc:
            if sc.get("err"):
                raise vlib.ToolFailure("directed history failed: " + sc["err"])
        fnd, acc, st = arrayprop.validate_batch(dsc, "c10-nocopy")
        for x in fnd:
            arrayprop.report(v, x, rerun=False)
        stats["option_histories"] = acc

        # ---- collect (A)
        results = pending.get(3600)
        a_wall = time.time() - t0a
        a_checks = 0
        a_fail = 0
        for r in results:
            a_checks += r["checks"]
            if r.get("error"):
                raise vlib.ToolFailure("harness exception in case %r:\n%s" % (r["c"], r["error"]))
            if r["fail"]:
                a_fail += 1
                f = r["fail"]
                lv.violation("spec -> code: %s [choice %s]" % (f["what"], json.dumps(f["choice"], sort_keys=True)), f,
                            signature="spec-to-code")

        # ---- the small real files through TLC's own EncodeRaw / DRun
        small = sorted((x for x in real if len(x["b"]) <= 1500 and cfmt.Bmax(x["s"]) < 60000), key=lambda x: len(x["b"]))
        nl = 60 if tier == "quick" else 300
        step = max(1, len(small) // nl)
        chosen = small[::step][:nl]
        lines = [{"s": x["s"], "now": cfmt.U(x["now"]), "bytes": list(x["b"])} for x in chosen]
        ok, bad, cres = cfspec.check_lines(d, lines) if lines else (True, None, None)
        if not ok:
            x = chosen[bad] if bad is not None and bad < len(chosen) else None
            if x is not None and cfmt.EncodeRaw(x["s"], x["now"]) == x["b"]:
                raise vlib.ToolFailure("TLC and cfmt.py disagree on a real content file (%s)" % x["where"])
            v.violation("TLC: a content file written by the tool is not EncodeRaw(its state) / is rejected by the spec "
                        "decoder: %s" % (x["where"] if x else "?"), {"bytes": x["b"].hex() if x else None,
                                                                       "tlc": cres.out[-3000:]}, signature="tlc-check")

        # ---- evidence
        shapes = {}
        for e in bound:
            shapes.setdefault((e["c"]["lay"], e["c"]["inf"], e["c"]["base"]), 0)
        samples = []
        for e in (bound[-1:] + bound[:1]):
            samples.append({"direction": "spec->code", "choice": e["c"], "state": cfmt.summary(e["s"]),
                            "raw_bytes_hex": _hex(e["raw"]), "expected_after_rewrite_hex": _hex(e["norm"])})
        for x in real[:1] + real[-1:]:
            samples.append({"direction": "code->spec", "after": x["where"], "file_hex": x["b"].hex()[:2400],
                            "state": cfmt.summary(x["s"])})
        cov = {
            "programs": len(bound) + len(real),
            "disagreements_checked": ncmp + ndec + a_checks + cap.comparisons + len(lines),
            "samples": samples,
            "explanation": "programs = distinct content states whose translation state<->bytes was compared between "
                           "ContentFormat.tla and snapraid (generated states bound to the tool + distinct files the tool "
                           "wrote); disagreements_checked = byte-for-byte or report comparisons made",
            "tlc_generated_cases": len(corpus), "tlc_states": gres.distinct, "tlc_wall_s": round(gres.wall, 1),
            "transliteration_comparisons": ncmp, "independent_decoder_agreements": ndec,
            "spec_to_code_cases": len(bound), "spec_to_code_commands": a_checks, "spec_to_code_failures": a_fail,
            "spec_to_code_distinct_shapes": len(shapes), "violations_counted_not_written": lv.suppressed, "spec_to_code_wall_s": round(a_wall, 1),
            "model_only_cases": len(model_only),
            "model_only_reasons": {"hash size not a power of two": sum(1 for e in model_only if e["s"]["hs"] not in (2, 4, 8, 16)),
                                   "positions beyond the tier's limit": sum(1 for e in model_only if e["s"]["hs"] in (2, 4, 8, 16))},
            "highest_position_bound_to_tool": max(cfmt.Bmax(e["s"]) for e in bound) - 1 if bound else 0,
            "code_to_spec_histories": stats["histories"], "code_to_spec_steps": stats["steps"],
            "saved_state_vs_file_system_comparisons": stats.get("oracle", 0),
            "code_to_spec_content_files_read": cap.files_looked, "code_to_spec_distinct_files": len(real),
            "code_to_spec_versions": cap.versions, "code_to_spec_record_kinds": "".join(sorted(cap.kinds)),
            "code_to_spec_loads_through_single_copy": stats["copy_loads"], "code_to_spec_rewrites": stats["rewrites"],
            "code_to_spec_wall_s": round(b_wall, 1), "real_files_through_tlc": len(lines),
        }
        assumptions = [
            "clock, statfs and /dev/urandom are frozen by the LD_PRELOAD shim; the recorded times are not in the future "
            "of the clock (otherwise the writer truncates them and a rewrite is not idempotent unless now % 8 == 0)",
            "test-rewrite refreshes nothing: it must reproduce the file exactly. Only `sync` refreshes the 'M'/'P'/'Q' "
            "total and free block counts from statfs (state_refresh); no comparison here crosses a sync, so no field is "
            "compared modulo a refresh",
            "normalisations of a save that are part of the specification (Norm): info and deleted blocks of positions "
            "no file uses are dropped, a disk left without files/links/dirs/blocks loses its 'M' record, the previous "
            "hash is kept only while a rehash mark exists; version 2 files carry neither parity paths nor sizes",
            "the configuration parser accepts only hash sizes 2, 4, 8, 16: generated states with hash size 3 and 15 are "
            "checked in the model and against cfmt.py / content.py only",
            "positions around 2^32-2 are checked in the model, cfmt.py only (one snapraid command on such a state "
            "takes ~450 s and 16 GiB); positions around 2^28 are bound to the tool in the thorough tier only",
            "64-bit file sizes are bounded by blockmax * block size, so the 2^63 / 2^64-1 boundary values are carried by "
            "mtime seconds, inodes and parity split sizes",
            "cfmt.py stands in for ContentFormat.tla on files too large for TLC; it is compared byte for byte with "
            "TLC's EncodeRaw and Encode on every generated case of the run first",
        ]
        return v.finish(cov, assumptions)
    finally:
        if pool is not None:
            pids = cfspec.worker_pids(pool)
            pool.terminate()
            pool.join()
            cfspec.cleanup_workers(pids)
        shutil.rmtree(d, ignore_errors=True)
