"""C19 Move, copy and import shortcuts never accept unverified data."""
import arrayprop, directed


def run(tier):
    return arrayprop.standard_run(
        "C19", tier, profiles=["c19", "inodes", "c19", "copy", "inodes"], nquick=36, nthorough=360, steps=(26, 36), sim=False,
        directed_jobs=lambda s0: [(s0 + 1, dict(nd=2, np=1, copies=2), "directed-decoy-prehash", 0, directed.decoy_prehash),
                                  (s0 + 2, dict(nd=2, np=2, copies=2), "directed-import-past", 0, directed.import_past_content),
                                  (s0 + 3, dict(nd=2, np=2, copies=2), "directed-import-past", 0, directed.import_past_content),
                                  (s0 + 4, dict(nd=2, np=1, copies=2, inomode=True), "directed-twins-swapped", 0, directed.twins_swapped_fix),
                                  (s0 + 5, dict(nd=2, np=1, copies=2, inomode=True), "directed-uuid-appears", 0, directed.uuid_appears)],
        shapes=[(3, 2), (2, 1), (2, 2), (4, 2), (3, 1), (2, 3)],
        rule="histories with true copies and decoys (same name, size and time stamp, other content) on other disks, moves within "
             "and across disks, zero and non-zero sub-second stamps (name-only matching), --force-nocopy, pre-hash (-h), fix with "
             "-i / --test-import-content directories holding true copies and decoys; TLC validates every sync/fix against "
             "Array.tla (copy sources admissible, REP blocks verified against the data before they become BLK, pre-hash "
             "mismatch stops before any parity write, search/import fetch only by matching hash) and evaluates on the real "
             "state that no block is recorded as synced with a hash that is not the hash of its data",
        assumptions=["disks scanned sequentially (--test-skip-multi-scan): with parallel scan threads the outcome of copy detection "
                     "can depend on thread timing (finding F11, noted for C13)"])
