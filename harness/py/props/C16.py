"""C16  Arrays written by the reference version stay readable and repairable.

Level: translation_validation - the reference version (pinned commit recorded in golden/README.md) against the
CURRENT working tree of the repository, on stored inputs.

M (role of TLA+ here): the content encoding (ContentFormat.tla) and the parity coefficients (GF256.tla /
   RaidCode.tla) are owned by other modules of the family; C16 ties them to the pinned version through the
   vendored byte strings in /verif/golden: at generation time every golden content file was decoded by the
   independent decoder and re-encoded by the normative encoder to the same bytes, every block hash and every
   parity block was recomputed by the independent implementations (hashes.py, spooky2.py, gf.py).  Murmur3 /
   SpookyHash digests are numeric functions; the decision for them is by recorded reference behaviour plus the
   independent Python transliterations, not by TLC (DESIGN.md section 8).
B: with the current build
   * vectors: harness/c/golden_conf.c linked against the rebuilt objects recomputes memhash (murmur3, spooky2,
     metro), crc32c_gen, crc32c_x86 (if the CPU has it), the dispatched crc32c, raid_gen through the dispatcher
     for every parity count and every generator variant the CPU supports, for every vendored vector;
   * arrays: every golden array is unpacked; status / list load it, check is clean, diff says equal; the content
     decodes (independent decoder) to the vendored state; test-rewrite re-saves it and the result is decoded by
     the independent decoder to the same state and checks clean; then devices (data disks, parity levels) are
     lost - every single device and one maximal subset in quick; every subset of size <= NP in thorough (pairs
     for the 34-disk array) - `fix` runs, every data file is compared with the vendored manifest (sha256,
     size, ns mtime, symlink targets, hardlink groups, empty dirs), every parity file with its vendored
     sha256, and `check` must be clean again; a part of the losses is repeated after test-rewrite (recovery
     driven by a content file re-saved by the current build).
Replay of one array scenario:  python3 harness/py/props/C16.py <array> <load | rewrite | d0,p1 | d0,p1+rewrite>
"""
import concurrent.futures, hashlib, itertools, json, os, random, shutil, subprocess, sys, time

if __name__ == "__main__":
    sys.path.insert(0, os.path.abspath(os.path.join(os.path.dirname(__file__), "..")))
import vlib, arr, content
import goldenlib as gl

FLAGS = ["--test-skip-device", "--test-skip-self", "--test-force-order-alpha", "--no-warnings", "-q", "-q", "-q"]
WORKERS = 16


class Problem(Exception):
    """a disagreement between the reference artefact and the current build"""

    def __init__(self, stage, what, detail=None):
        Exception.__init__(self, what)
        self.stage, self.what, self.detail = stage, what, detail


SHIM = [None]


def snap(binary, root, cmd, *args, timeout=120, short=0):
    """short: every pread on a file of the array returns at most that many bytes (a legal behaviour of read calls: the tool has
    to ask again for the rest)"""
    log = os.path.join(root, "log.%s" % cmd)
    argv = [binary, "-c", os.path.join(root, "snapraid.conf")] + FLAGS + ["-l", log, cmd] + list(args)
    env = None
    if short:
        env = dict(os.environ, LD_PRELOAD=SHIM[0], VSHIM_ROOT=root, VSHIM_RULES="pread,*,0,shortread,%d" % short)
    try:
        p = subprocess.run(argv, stdout=subprocess.PIPE, stderr=subprocess.PIPE, timeout=timeout, env=env)
        rc, out, err = p.returncode, p.stdout, p.stderr
    except subprocess.TimeoutExpired as e:
        rc, out, err = -999, e.stdout or b"", e.stderr or b""
    tags = []
    if os.path.exists(log):
        with open(log, "rb") as f:
            tags = [arr.split_tag(l) for l in f.read().split(b"\n") if l]
        os.remove(log)
    return arr.Result(rc, out.decode("latin1"), err.decode("latin1"), tags, [], argv)


def tail(res):
    return {"argv": res.argv[3:], "rc": res.rc, "stdout": res.out[-600:], "stderr": res.err[-600:]}


def expect_rc0(res, stage, what):
    if res.rc != 0:
        raise Problem(stage, "%s: exit code %s" % (what, res.rc), tail(res))


# ---------------------------------------------------------------------------------------------------------
# comparisons against the vendored manifest

def compare_data(root, man, counter):
    """every data disk of the scratch array against the vendored manifest; returns list of differences"""
    diffs = []
    for dname in man["disks"]:
        want = {e["path"]: e for e in man["data"][dname]}
        got = {e["path"]: e for e in gl.tree_manifest(os.fsencode(os.path.join(root, dname)))}
        for p in sorted(set(want) | set(got)):
            counter[0] += 1
            w, g = want.get(p), got.get(p)
            if w is None:
                # directories that only exist as parents are in both; anything extra is a difference
                diffs.append("%s/%r: not in the reference" % (dname, p))
            elif g is None:
                diffs.append("%s/%r: missing (%s)" % (dname, p, w["type"]))
            elif w != g:
                ks = [k for k in sorted(set(w) | set(g)) if w.get(k) != g.get(k)]
                diffs.append("%s/%r: %s" % (dname, p, ", ".join("%s reference %r current %r" % (k, w.get(k), g.get(k))
                                                              for k in ks)))
    return diffs


def compare_parity(root, man, counter):
    diffs = []
    for l, level in enumerate(man["parity"]):
        for s in level:
            counter[0] += 1
            p = os.path.join(root, s["path"])
            if not os.path.exists(p):
                diffs.append("%s: missing" % s["path"])
                continue
            with open(p, "rb") as f:
                b = f.read()
            if len(b) != s["size"]:
                diffs.append("%s: size reference %d current %d" % (s["path"], s["size"], len(b)))
            elif hashlib.sha256(b).hexdigest() != s["sha256"]:
                diffs.append("%s: bytes differ from the reference parity" % s["path"])
    return diffs


def golden_content(name, man, root):
    with open(os.path.join(root, man["content"]["paths"][0]), "rb") as f:
        raw = f.read()
    return raw


# ---------------------------------------------------------------------------------------------------------
# scenarios on one array

class ArrayCase:
    def __init__(self, name, binary, scratch):
        self.name, self.binary = name, binary
        self.base = os.path.join(scratch, name, "base")
        os.makedirs(self.base)
        self.man = gl.unpack(name, self.base)
        self.raw = golden_content(name, self.man, self.base)
        if hashlib.sha256(self.raw).hexdigest() != self.man["content"]["sha256"]:
            raise vlib.ToolFailure("golden array %s: content does not match its manifest" % name)
        try:
            self.cs = content.decode(self.raw)
        except content.ContentError as e:
            raise vlib.ToolFailure("golden array %s: independent decoder rejects the vendored content: %s" % (name, e))
        self.proj = gl.project(self.cs)
        self.proj_ino = gl.project(self.cs, with_inode=True)
        self.scratch = scratch
        self.n = 0
        # an array whose split layout has an empty file in front of a used one: the disk of that file is still full (the room
        # of the parity disks is what it was when the reference wrote the array)
        self.room = ["--test-parity-limit", str(self.man["parity_limit"])] if self.man.get("spec", {}).get("gap") else []

    def copy(self, tag, order=0):
        """order: the lines of the configuration file in the order of the reference (0), with the parity lines reversed (1: e.g.
        z-parity before 2-parity before parity), or with the whole file reversed (2); the reference accepts any order"""
        d = os.path.join(self.scratch, self.name, tag)
        # cp -a keeps hard links, symlinks and ns time stamps (shutil.copytree would split hard links)
        if subprocess.run(["cp", "-a", self.base, d]).returncode != 0:
            raise vlib.ToolFailure("cp -a failed")
        lines = self.man["conf_template"].replace("ROOT", d).splitlines()
        if order == 1:
            idx = [i for i, l in enumerate(lines) if l.split(" ")[0].endswith("parity")]
            rev = [lines[i] for i in reversed(idx)]
            for i, l in zip(idx, rev):
                lines[i] = l
        elif order == 2:
            lines = list(reversed(lines))
        with open(os.path.join(d, "snapraid.conf"), "w") as f:
            f.write("\n".join(lines) + "\n")
        return d

    def devices(self):
        return ["d%d" % i for i in range(self.man["nd"])] + ["p%d" % l for l in range(self.man["np"])]

    # -- stage: load
    def load(self):
        cnt = [0]
        man = self.man
        root = self.copy("load")
        try:
            # the unpacked tree itself must be the reference (guards the harness, not the tool)
            d = compare_data(root, man, [0]) + compare_parity(root, man, [0])
            if d:
                raise vlib.ToolFailure("golden array %s does not unpack to its manifest: %s" % (self.name, d[:3]))
            r = snap(self.binary, root, "status")
            expect_rc0(r, "load", "status on the reference array")
            summ = r.summary()
            nfiles = sum(1 for dn in man["disks"] for e in man["data"][dn]
                         if e["type"] == "f" and e.get("hardlink_group", e["path"]) == e["path"])
            exp = {"hash": self.cs["hash"]["kind"],
                   "prev_hash": self.cs["prevhash"]["kind"] if self.cs["prevhash"] else "undefined",
                   "file_count": str(nfiles), "has_rehash": str(man["rehash_flagged_stripes"]),
                   "has_unsynced": "0", "has_bad": "0"}
            if man.get("interrupted"):
                # the reference left an unfinished sync: the recorded files are those of the content file, some stripes unsynced
                del exp["has_unsynced"]
                exp["file_count"] = str(sum(len(dd["files"]) for dd in self.proj["disks"].values()))
                if str(summ.get("has_unsynced")) in ("0", "None"):
                    raise Problem("load", "status reports no unsynced stripe for a reference array left with an unfinished sync", tail(r))
            for k, w in exp.items():
                cnt[0] += 1
                if str(summ.get(k)) != w:
                    raise Problem("load", "status reports %s=%r for the reference array, the reference state has %r"
                                  % (k, summ.get(k), w), tail(r))
            r = snap(self.binary, root, "list")
            expect_rc0(r, "load", "list on the reference array")
            got_files = sorted((t[1], t[2], int(t[3]), int(t[4]) * 10**9 + int(t[5])) for t in r.tag("file"))
            want_files = sorted((f["disk"], f["sub"], f["size"], f["mtime_ns"]) for f in self.content_files())
            cnt[0] += len(want_files)
            if got_files != want_files:
                raise Problem("load", "list differs from the reference state: " +
                              "; ".join(gl.diff_paths(want_files, got_files)[:4]), tail(r))
            got_links = sorted((t[0], t[1], t[2], t[3]) for t in r.tags if t[0] in ("link_symlink", "link_hardlink"))
            want_links = sorted(("link_symlink" if k == "sym" else "link_hardlink", dn, sub, to)
                                for dn, dd in self.proj["disks"].items() for (k, sub, to) in dd["links"])
            cnt[0] += len(want_links)
            if got_links != want_links:
                raise Problem("load", "list: links differ from the reference state: " +
                              "; ".join(gl.diff_paths(want_links, got_links)[:4]), tail(r))
            if man.get("interrupted"):
                r = snap(self.binary, root, "check", "-a")
                cnt[0] += 1
                expect_rc0(r, "load", "check -a (hash only) of the reference array left with an unfinished sync")
                r = snap(self.binary, root, "diff")
                cnt[0] += 1
                if r.rc != 2:
                    raise Problem("load", "diff on a reference array left with an unfinished sync does not report it (rc %s, %r)"
                                  % (r.rc, r.summary()), tail(r))
                d = compare_data(root, man, cnt) + compare_parity(root, man, cnt)
                if d:
                    raise Problem("load", "status/list/check/diff modified the array: " + "; ".join(d[:4]))
                self.compare_content(root, "load", cnt, with_inode=True)
                # the current build completes the sync the reference had begun; afterwards everything verifies
                r = snap(self.binary, root, "sync")
                cnt[0] += 1
                expect_rc0(r, "load", "sync completing the unfinished sync of the reference")
                d = compare_data(root, man, cnt)
                if d:
                    raise Problem("load", "the completing sync modified data files: " + "; ".join(d[:4]))
                r = snap(self.binary, root, "check")
                cnt[0] += 1
                expect_rc0(r, "load", "check after completing the unfinished sync of the reference")
                r = snap(self.binary, root, "diff")
                cnt[0] += 1
                if r.rc != 0:
                    raise Problem("load", "diff after completing the unfinished sync does not say equal (rc %s)" % r.rc, tail(r))
                return cnt[0]
            r = snap(self.binary, root, "check")
            cnt[0] += 1
            expect_rc0(r, "load", "check of the untouched reference array (every file must verify)")
            r = snap(self.binary, root, "check", "-a")
            cnt[0] += 1
            expect_rc0(r, "load", "check -a (hash only) of the untouched reference array")
            r = snap(self.binary, root, "diff")
            cnt[0] += 1
            if r.rc != 0 or r.summary().get("exit") != "equal":
                raise Problem("load", "diff on the untouched reference array does not say equal (rc %s, %r)"
                              % (r.rc, r.summary()), tail(r))
            # nothing of the above may have changed data, parity or the state
            d = compare_data(root, man, cnt) + compare_parity(root, man, cnt)
            if d:
                raise Problem("load", "status/list/check/diff modified the array: " + "; ".join(d[:4]))
            self.compare_content(root, "load", cnt, with_inode=True)
            return cnt[0]
        finally:
            shutil.rmtree(root, ignore_errors=True)

    def content_files(self):
        out = []
        for dn, dd in self.proj["disks"].items():
            for f in dd["files"]:
                ns = f["nsec"] if f["nsec"] != content.NSEC_INVALID else 0
                out.append({"disk": dn, "sub": f["sub"], "size": f["size"], "mtime_ns": f["sec"] * 10**9 + ns})
        return out

    def compare_content(self, root, stage, cnt, with_inode=False):
        for rel in self.man["content"]["paths"]:
            cnt[0] += 1
            with open(os.path.join(root, rel), "rb") as f:
                raw = f.read()
            try:
                cs = content.decode(raw)
            except content.ContentError as e:
                raise Problem(stage, "content file %s written by the current build is not decodable by the independent "
                              "decoder of the reference format: %s" % (rel, e))
            # (the paths of the parity files recorded in 'Q' records follow the configuration and are not compared)
            a = self.proj_ino if with_inode else self.proj
            b = gl.project(cs, with_inode=with_inode)
            if self.cs["version"] == 1:
                # the first format has no parity records; a re-saved file has them
                a = dict(a, parity=None)
                b = dict(b, parity=None)
            if a != b:
                raise Problem(stage, "content file %s no longer carries the reference state: %s"
                              % (rel, "; ".join(gl.diff_paths(a, b)[:4])))
            if raw == self.raw:
                self.n_identical = getattr(self, "n_identical", 0) + 1

    # -- stage: rewrite
    def rewrite(self):
        cnt = [0]
        root = self.copy("rewrite")
        try:
            r = snap(self.binary, root, "test-rewrite")
            cnt[0] += 1
            expect_rc0(r, "rewrite", "test-rewrite (load and re-save the reference content)")
            self.compare_content(root, "rewrite", cnt, with_inode=True)
            r = snap(self.binary, root, "check", *(["-a"] if self.man.get("interrupted") else []))
            cnt[0] += 1
            expect_rc0(r, "rewrite", "check after test-rewrite")
            d = compare_data(root, self.man, cnt) + compare_parity(root, self.man, cnt)
            if d:
                raise Problem("rewrite", "test-rewrite/check modified the array: " + "; ".join(d[:4]))
            with open(os.path.join(root, self.man["content"]["paths"][0]), "rb") as f:
                return cnt[0], f.read() == self.raw
        finally:
            shutil.rmtree(root, ignore_errors=True)

    # -- stage: lose devices, fix
    def lose_fix(self, lost, rewrite_first=False):
        cnt = [0]
        man = self.man
        self.n += 1
        root = self.copy(("rwfix-" if rewrite_first else "fix-") + "-".join(lost), order=self.n % 3)
        try:
            if rewrite_first:
                # recovery driven by a content file re-saved by the current build
                r = snap(self.binary, root, "test-rewrite")
                cnt[0] += 1
                expect_rc0(r, "rewrite", "test-rewrite (load and re-save the reference content)")
            for dev in lost:
                if dev[0] == 'd':
                    p = os.path.join(root, man["disks"][int(dev[1:])])
                    shutil.rmtree(p)
                    os.makedirs(p)
                else:
                    for s in man["parity"][int(dev[1:])]:
                        os.remove(os.path.join(root, s["path"]))
            r = snap(self.binary, root, "fix", *self.room)
            cnt[0] += 1
            if r.rc != 0:
                raise Problem("fix", "fix after losing %s: exit code %s" % (",".join(lost), r.rc), tail(r))
            d = compare_data(root, man, cnt)
            if d:
                raise Problem("fix", "after losing %s and fix, data differs from the reference: %s"
                              % (",".join(lost), "; ".join(d[:4])), tail(r))
            d = compare_parity(root, man, cnt)
            if d:
                raise Problem("fix", "after losing %s and fix, parity differs from the reference: %s"
                              % (",".join(lost), "; ".join(d[:4])), tail(r))
            r = snap(self.binary, root, "check")
            cnt[0] += 1
            expect_rc0(r, "fix", "check after losing %s and fix" % ",".join(lost))
            self.compare_content(root, "fix", cnt)
            return cnt[0]
        finally:
            shutil.rmtree(root, ignore_errors=True)


def outcome_fix(case, dev):
    """an array the reference left with an unfinished sync loses a data disk: fix must end as the fix of the reference did (exit
    status and every file of every disk), from the same files"""
    cnt = [0]
    man = case.man
    want = man["fix_outcomes"][dev]
    case.n += 1
    root = case.copy("ofix-" + dev, order=case.n % 3)
    try:
        p = os.path.join(root, man["disks"][int(dev[1:])])
        shutil.rmtree(p)
        os.makedirs(p)
        r = snap(case.binary, root, "fix", *case.room)
        cnt[0] += 1
        if (r.rc == 0) != (want["rc"] == 0):
            raise Problem("fix", "fix after losing %s of the array left with an unfinished sync: exit code %s, the reference ended with %s"
                          % (dev, r.rc, want["rc"]), tail(r))
        d = compare_data(root, dict(man, data=want["data"]), cnt)
        # what could not be rebuilt is left as <name>.unrecoverable with the time of the run: not a part of the result
        d = [x for x in d if not (".unrecoverable'" in x and x.split(": ", 1)[1].startswith("mtime_ns ") and "," not in x.split(": ", 1)[1])]
        if d:
            raise Problem("fix", "after losing %s and fix, the files differ from what the reference rebuilt: %s"
                          % (dev, "; ".join(d[:4])), tail(r))
        return cnt[0]
    finally:
        shutil.rmtree(root, ignore_errors=True)


def short_reads(case, n):
    """the reference array verifies, and a lost data disk is rebuilt, when every read call returns at most n bytes"""
    cnt = [0]
    man = case.man
    case.n += 1
    root = case.copy("short%d" % n, order=case.n % 3)
    try:
        r = snap(case.binary, root, "check", *(["-a"] if man.get("interrupted") else []), short=n)
        cnt[0] += 1
        expect_rc0(r, "load", "check with read calls returning at most %d bytes" % n)
        if not man.get("interrupted"):
            p = os.path.join(root, man["disks"][0])
            shutil.rmtree(p)
            os.makedirs(p)
            r = snap(case.binary, root, "fix", *case.room, short=n)
            cnt[0] += 1
            if r.rc != 0:
                raise Problem("fix", "fix after losing d0, read calls returning at most %d bytes: exit code %s" % (n, r.rc), tail(r))
            d = compare_data(root, man, cnt) + compare_parity(root, man, cnt)
            if d:
                raise Problem("fix", "after losing d0 and fix with short reads, the array differs from the reference: %s" % "; ".join(d[:4]), tail(r))
        return cnt[0]
    finally:
        shutil.rmtree(root, ignore_errors=True)


def loss_subsets(case, tier, rnd):
    devs = case.devices()
    np_ = case.man["np"]
    subs = [(d,) for d in devs]
    if np_ >= 2:
        if tier == "thorough":
            kmax = np_ if len(devs) <= 11 else 2
            for k in range(2, kmax + 1):
                subs += list(itertools.combinations(devs, k))
        else:
            nd = case.man["nd"]
            # the most demanding data loss: as many data disks as there are parities
            subs.append(tuple("d%d" % i for i in range(min(nd, np_))) +
                        tuple("p%d" % l for l in range(np_ - min(nd, np_))))
            # the last levels only must rebuild the first data disks: lose the FIRST parities
            if np_ > 2 and nd >= 2:
                subs.append(("d0", "d1") + tuple("p%d" % l for l in range(np_ - 2)))
            subs.append(tuple(sorted(rnd.sample(devs, np_))))
    seen, out = set(), []
    for s in subs:
        if s not in seen:
            seen.add(s)
            out.append(s)
    return out


# ---------------------------------------------------------------------------------------------------------

def check_integrity():
    idx_path = os.path.join(gl.GOLDEN, "INDEX.json")
    if not os.path.exists(idx_path):
        raise vlib.ToolFailure("golden set missing: " + idx_path)
    with open(idx_path) as f:
        idx = json.load(f)

    def sha(p):
        with open(p, "rb") as fh:
            return hashlib.sha256(fh.read()).hexdigest()
    if sha(gl.VECTORS) != idx["vectors"]["sha256"]:
        raise vlib.ToolFailure("golden vectors do not match golden/INDEX.json")
    for name, h in idx["array_sha256"].items():
        if sha(os.path.join(gl.ARRAYS, name + ".tar.gz")) != h:
            raise vlib.ToolFailure("golden array %s does not match golden/INDEX.json" % name)
    if sorted(idx["arrays"]) != gl.array_names():
        raise vlib.ToolFailure("golden arrays on disk differ from golden/INDEX.json")
    return idx


def run_vectors(v):
    exe = gl.build_harness()
    cmd = [exe, "check", gl.VECTORS]
    try:
        p = subprocess.run(cmd, stdout=subprocess.PIPE, stderr=subprocess.PIPE, text=True, timeout=600)
    except subprocess.TimeoutExpired:
        raise vlib.ToolFailure("golden_conf timed out")
    stats, samples, fails, skips, totals = {}, [], {}, [], {}
    done = False
    for line in p.stdout.splitlines():
        t = line.split(" ", 2)
        if t[0] == "STAT":
            stats[t[1]] = int(t[2])
        elif t[0] == "SAMPLE":
            samples.append(json.loads(line[7:]))
        elif t[0] == "SKIP":
            skips.append(line[5:])
        elif t[0] == "FAIL":
            fam = t[1].split("/")[0] + ("/" + t[1].split("/")[1] if t[1].startswith("parity/") else "")
            fails.setdefault(fam, []).append((t[1], t[2] if len(t) > 2 else ""))
        elif t[0] == "FAMILY":
            totals[t[1]] = int(t[2])
        elif t[0] == "DONE":
            done = True
    if p.returncode < 0 or (p.returncode != 0 and not fails):
        if p.returncode < 0:
            v.violation("the code under test crashed (signal %d) while recomputing the vendored vectors" % -p.returncode,
                        {"cmd": cmd, "stderr": p.stderr[-1000:]}, signature="C16:vectors:crash")
            return stats, samples, skips
        raise vlib.ToolFailure("golden_conf failed: rc %s %s" % (p.returncode, p.stderr[-500:]))
    if not done:
        raise vlib.ToolFailure("golden_conf did not complete: " + p.stderr[-500:])
    for fam, fl in sorted(fails.items()):
        v.violation("%d vendored %s comparisons are not reproduced by the current build; first: %s"
                    % (totals.get(fam, len(fl)), fam, fl[0][1]),
                    {"cmd": cmd, "vector_ids": [f[0] for f in fl[:50]], "first": fl[0][1],
                     "how": "build/golden_conf check golden/vectors/vectors.txt"},
                    signature="C16:vectors:" + fam)
    return stats, samples, skips


def run(tier):
    tier = "thorough" if tier == "thorough" else "quick"
    v = vlib.Verdict("C16", tier, "translation_validation")
    idx = check_integrity()
    binary = vlib.build("hooks")
    SHIM[0] = vlib.build_shim()
    rnd = random.Random(vlib.seed())
    t0 = time.time()
    stats, samples, skips = run_vectors(v)
    t_vec = time.time() - t0
    if stats.get("comparisons", 0) == 0:
        raise vlib.ToolFailure("vector harness compared nothing")

    scratch = vlib.scratch_root()
    n_cmp = 0
    n_scen = 0
    n_rewrite_identical = 0
    n_rwfix = 0
    per_array = {}
    arr_samples = []
    cand_samples = []
    items = 0
    try:
        cases = [ArrayCase(n, binary, scratch) for n in gl.array_names()]
        jobs = []
        for c in cases:
            items += sum(len(c.man["data"][dn]) for dn in c.man["disks"]) + sum(len(l) for l in c.man["parity"]) + 1
            jobs.append((c, "load", None))
            jobs.append((c, "rewrite", None))
            if tier == "thorough" or len(jobs) % 3 == 0 or c.man.get("interrupted"):
                jobs.append((c, "short", (rnd.choice([600, 1, 1000, 4095]),)))
            if c.man.get("interrupted"):
                # recovery of an array with an unfinished sync is C05/C07's subject; here only: the same result as the reference
                for dev in sorted(c.man.get("fix_outcomes", {})):
                    jobs.append((c, "ofix", (dev,)))
                continue
            subs = loss_subsets(c, tier, rnd)
            for s in subs:
                jobs.append((c, "fix", s))
            # the same losses repaired from a content file re-saved by the current build
            if tier == "thorough":
                full = [s for s in subs if len(s) == c.man["np"] and len(s) > 1]
                rw = [s for s in subs if len(s) == 1] + (full if len(full) <= 60 else rnd.sample(full, 60))
            else:
                rw = [rnd.choice([s for s in subs if len(s) == 1]), max(subs, key=len)]
            for s in dict.fromkeys(rw):
                jobs.append((c, "rwfix", s))

        def do(job):
            c, kind, lost = job
            try:
                if kind == "load":
                    return job, c.load(), None, None
                if kind == "rewrite":
                    n, same = c.rewrite()
                    return job, n, None, same
                if kind == "short":
                    return job, short_reads(c, lost[0]), None, None
                if kind == "ofix":
                    return job, outcome_fix(c, lost[0]), None, None
                return job, c.lose_fix(lost, rewrite_first=(kind == "rwfix")), None, None
            except Problem as e:
                return job, 0, e, None

        with concurrent.futures.ThreadPoolExecutor(max_workers=WORKERS) as ex:
            results = list(ex.map(do, jobs))
        problems = {}          # (array, stage) -> [(scenario, Problem)]
        for (c, kind, lost), n, prob, same in results:
            n_cmp += n
            n_scen += 1
            pa = per_array.setdefault(c.name, {"scenarios": 0, "loss_subsets": 0})
            pa["scenarios"] += 1
            if kind in ("fix", "rwfix", "ofix"):
                pa["loss_subsets"] += 1
            if kind == "rwfix":
                n_rwfix += 1
            if kind == "rewrite" and same:
                n_rewrite_identical += 1
            scen = kind if lost is None else ("short:%d" % lost[0]) if kind == "short" else ("ofix:" + lost[0]) if kind == "ofix" else (",".join(lost) + ("+rewrite" if kind == "rwfix" else ""))
            if prob is not None:
                problems.setdefault((c.name, prob.stage), []).append((scen, prob))
            elif kind == "fix" and len(lost) == c.man["np"]:
                cand_samples.append({"kind": "array", "array": c.name, "content_version": c.man["content_version"],
                                     "hash": c.man["hash_kind_now"], "hash_size": c.man["hash_size"],
                                     "np": c.man["np"], "zmode": c.man["zmode"], "splits": c.man["splits"],
                                     "lost": list(lost), "result": "fix exit 0; all data files, links, dirs and parity "
                                     "files equal to the vendored manifest; check exit 0; content state unchanged",
                                     "comparisons": n})
        # one violation per (array, stage): the first failing scenario is the replay, the others are listed
        for (name, stage), pl in sorted(problems.items()):
            scen, prob = pl[0]
            v.violation("reference array %s [%s]: %s%s" % (name, scen, prob.what,
                                                           "" if len(pl) == 1 else " (and %d more scenarios of this "
                                                           "array fail at stage %s)" % (len(pl) - 1, stage)),
                        {"array": name, "scenario": scen, "stage": stage, "detail": prob.detail,
                         "other_failing_scenarios": [x[0] for x in pl[1:40]],
                         "how": "python3 harness/py/props/C16.py %s %s" % (name, scen)},
                        signature="C16:%s:%s" % (stage, name))
        # samples: one maximal loss for each kind of array (most parities, z-parity, split parity, rehash in progress)
        def category(x):
            if x["zmode"]:
                return "z"
            if max(x["splits"]) > 1:
                return "split"
            if "rehash" in x["array"]:
                return "rehash"
            return "plain"
        seen = set()
        for smp in sorted(cand_samples, key=lambda x: (-x["np"], x["array"], x["lost"])):
            if category(smp) not in seen:
                seen.add(category(smp))
                arr_samples.append(smp)
    finally:
        shutil.rmtree(scratch, ignore_errors=True)

    n_arrays = len(per_array)
    programs = stats.get("reference_items", 0) + items
    cov = {
        "programs": programs,
        "disagreements_checked": stats.get("comparisons", 0) + n_cmp,
        "samples": samples + arr_samples,
        "reference_commit": idx["reference_commit"],
        "vector_reference_values": stats.get("reference_items", 0),
        "vector_comparisons": stats.get("comparisons", 0),
        "digest_lines": stats.get("digest_lines", 0), "parity_lines": stats.get("parity_lines", 0),
        "crc32c_x86_compared": bool(stats.get("crc_x86")),
        "skipped_cpu": skips,
        "golden_arrays": n_arrays,
        "array_reference_items": items,
        "array_scenarios": n_scen,
        "array_comparisons": n_cmp,
        "loss_subsets": sum(p["loss_subsets"] for p in per_array.values()),
        "per_array": per_array,
        "rewritten_content_byte_identical": n_rewrite_identical,
        "loss_subsets_repaired_from_rewritten_content": n_rwfix,
        "vectors_wall_s": round(t_vec, 2),
        "exhaustive": tier == "thorough",
        "exhaustive_over": "the vendored set: every vector; every golden array x every device subset of size <= NP "
                           "(<= 2 for the 34-disk array)" if tier == "thorough" else
                           "the vendored set: every vector; every golden array x every single device + 2..3 maximal subsets",
        "rule": "programs = reference values compared: every vendored digest / CRC / parity block plus every entry "
                "(file, link, dir, parity file, content) of every golden array manifest; disagreements_checked = "
                "individual comparisons reference-vs-current actually made (each variant, each scenario)",
    }
    assumptions = [
        "reference version = commit %s of the repository, built once; its outputs are vendored in /verif/golden and never "
        "regenerated by the check" % idx["reference_commit"],
        "TLA+ role: content encoding and parity coefficients are specified in ContentFormat.tla / GF256.tla / RaidCode.tla "
        "(other properties); C16 binds them to the pinned version through vendored byte strings (golden contents are "
        "reproduced byte for byte by the normative encoder; golden parity by the independent GF(2^8) code)",
        "Murmur3 / SpookyHash digests and CRC-32C: decided by recorded reference behaviour doubly anchored by independent "
        "Python transliterations (hashes.py, spooky2.py, content.crc32c) at generation time, not by TLC; metro digests "
        "are anchored by the reference only",
        "digest inputs cover all lengths 0..1100 and 4 seeds (zero, all ones, two pseudo-random); other seeds/lengths are "
        "covered only through the 1 KiB blocks of the golden arrays",
        "future *format additions* are not judged: a rewritten content file must decode to the same state with the "
        "decoder of the reference format; byte identity of rewritten content is measured, not required",
        "SIMD variants not supported by this CPU are skipped (listed in skipped_cpu)",
    ]
    return v.finish(cov, assumptions)


def replay_one(name, scen):
    binary = vlib.build("hooks")
    scratch = vlib.scratch_root()
    try:
        c = ArrayCase(name, binary, scratch)
        try:
            if scen == "load":
                c.load()
            elif scen == "rewrite":
                c.rewrite()
            elif scen.startswith("ofix:"):
                outcome_fix(c, scen[5:])
            elif scen.startswith("short:"):
                SHIM[0] = vlib.build_shim()
                short_reads(c, int(scen[6:]))
            else:
                c.lose_fix(tuple(scen.replace("+rewrite", "").split(",")), rewrite_first=scen.endswith("+rewrite"))
            print("ok: %s [%s] agrees with the reference" % (name, scen))
            return 0
        except Problem as e:
            print("DISAGREEMENT %s [%s] stage %s: %s" % (name, scen, e.stage, e.what))
            print(json.dumps(e.detail, indent=1))
            return 1
    finally:
        shutil.rmtree(scratch, ignore_errors=True)


if __name__ == "__main__":
    if len(sys.argv) == 3:
        sys.exit(replay_one(sys.argv[1], sys.argv[2]))
    sys.exit(run(sys.argv[1] if len(sys.argv) > 1 else "quick"))
