"""C02  Parity equals its algebraic definition in every implementation.

M: spec/GF256.tla + spec/RaidCode.tla (Part = "witness"): TLC checks the field definition (all 65 536 products,
   axioms on triples) and every entry of the witness tables / matrices against the closed forms.
B: harness/c/raid_conf.c, linked against the raid objects of the current tree, uses the validated witness as
   its only oracle: all exported tables entry by entry; every raid_gen*_<variant> the CPU supports, called
   directly, on the complete byte basis (every disk x every byte value x every lane position 0..63) and on dense
   seeded data of all sizes of the tier; canaries, data blocks, not-to-be-written parity blocks, pointer vector.
"""
import os, shutil, time

import vlib
import gfwitness
import raidconf as rc


def run(tier):
    tier = "thorough" if tier == "thorough" else "quick"
    v = vlib.Verdict("C02", tier, "exploration")
    d, gfj, matj = rc.prepare("C02")
    try:
        sha0 = (gfwitness.sha(gfj), gfwitness.sha(matj))
        t0 = time.time()
        res = rc.tlc_part(d, "witness", tier, timeout=900 if tier == "quick" else 2400)
        rc.require_witness_ok(res)
        if (gfwitness.sha(gfj), gfwitness.sha(matj)) != sha0:
            raise vlib.ToolFailure("witness files changed while TLC was checking them")
        tlc_wall = time.time() - t0

        # only now the tables become the oracle of the harness
        keep = os.path.join(vlib.OUT, "raidconf", "C02")
        os.makedirs(keep, exist_ok=True)
        blob = os.path.join(keep, "witness.bin")
        gfwitness.write_blob(gfj, matj, blob + ".tmp")
        os.replace(blob + ".tmp", blob)

        exe, binfo = rc.build_harness("raid_conf_C02")
        seed = str(vlib.seed())
        hr = rc.run_harness([[exe, "tables", blob]], timeout=300)
        n = rc.NSHARDS
        rc.run_harness([[exe, "gen", blob, tier, seed, str(k), str(n)] for k in range(n)],
                       timeout=1200 if tier == "quick" else 5400, into=hr)
        # the same variants called from four threads at once, each on its own buffers
        rc.run_harness([[exe, "genmt", blob, seed]], timeout=600, into=hr)
        rc.report_fails(v, hr, tier, extra={"witness_sha256": sha0})

        if not hr.crashed and (hr.stat("gen_runs") == 0 or hr.stat("table_entries") == 0):
            raise vlib.ToolFailure("harness executed nothing")
        variants_run = hr.stat("gen_variants_run") // n
        nd_values = hr.stat("gen_nd_values") // n
        samples = hr.samples[:3]
        samples.append({"kind": "gen-basis", "what": "disk i holds byte value (p >> 6) at byte position p of a "
                        "16384-byte block (every value 0..255 in every lane position 0..63), all other disks zero; "
                        "parity j must be mul[A[j][i]][p >> 6] everywhere; run for every disk i of every nd of the "
                        "tier and every variant", "example": {"variant": "gen6_avx2ext", "nd": 251, "disk": 250}})
        samples.append({"kind": "table", "what": "raid_gfcauchypshufb[d][p-2][0][k] == mul[cauchy[p][d]][k], "
                        "[..][1][k] == mul[cauchy[p][d]][k << 4], for all d < 251, p in 2..5, k < 16"})
        cov = {
            "evaluations": hr.stat("gen_runs"),
            "distinct_nontrivial": hr.stat("distinct"),
            "rule": "one evaluation = one direct call of a raid_gen*_<variant> function on prepared buffers followed by "
                    "all checks (parity == definition, unwritten parity buffers, data blocks, guard zones, pointer "
                    "vector). Enumerated: every supported variant x nd of the tier x {basis run per disk, dense "
                    "seeded data per size, 5 constant fills}. Distinct = distinct (variant, nd, size, data kind, "
                    "disk/size index) keys, counted by hashing in the harness; every run has non-zero data, so "
                    "every distinct run is non-trivial.",
            "samples": samples,
            "exhaustive": tier == "thorough",
            "exhaustive_over": "(variant, nd in %s, disk, byte value, lane position mod 64) for the basis"
                               % ("1..251" if tier == "thorough" else "the 16 boundary values of the quick tier"),
            "table_entries_compared": hr.stat("table_entries"),
            "gen_variants_run": variants_run,
            "gen_variants_known": hr.stat("gen_variants_known") // n,
            "variants_skipped_cpu": hr.skips,
            "nd_values": nd_values,
            "data_bytes_fed": hr.stat("gen_data_bytes"),
            "concurrent_calls": hr.stat("genmt_calls"),
            "harness_failures": hr.stat("failures"),
            "harness_shards_stopped_by_crash": hr.crashed,
            "tlc_witness_jobs": res.distinct // 2,
            "states": res.distinct,
            "tlc_generated": res.generated,
            "tlc_wall_s": round(tlc_wall, 1),
            "tlc_checked": "GF256: 256 rows x 256 products vs MulDef and exp/log form, commutativity/unit/inverse "
                           "per row, associativity+distributivity for a x S x S (S = %s); RaidCode: 6 Cauchy rows "
                           "and 3 power rows x 251 entries vs closed forms" %
                           ("all 256 bytes" if tier == "thorough" else "16 generating values"),
            "harness_wall_s": round(hr.wall, 1),
            "witness_sha256": list(sha0),
            "objects": binfo["objects"],
            "repo": vlib.REPO,
        }
        return v.finish(coverage=cov, assumptions=[
            "TLC evaluates the TLA+ definitions of GF256.tla/RaidCode.tla faithfully (Bitwise ^^ and JsonDeserialize "
            "are Java overrides of the CommunityModules)",
            "block alignment 256 bytes, sizes multiples of 64 (the documented contract of raid_gen)",
            "variants whose instruction set the CPU lacks are skipped (listed in variants_skipped_cpu)",
        ])
    finally:
        shutil.rmtree(d, ignore_errors=True)
