"""C05 Fix never silently leaves or produces wrong data."""
import functools
import arrayprop, directed, mcwitness


def run(tier):
    return arrayprop.standard_run(
        "C05", tier, profiles=["grammar", "damage", "filters", "ranges", "grammar", "copy", "filters", "mixed"], nquick=48, nthorough=360,
        # spec -> code: the histories TLC found for the branches of the repair logic (spec/witness/fixgoals.json) are executed on
        # the binary; the trace specification fails the run if the fix does not go through the branch the history was found for
        directed_jobs=lambda s0: [(s0 + 50 + i, dict(nd=2, np=w["np"], copies=2), "witness-%s-%s" % (w["template"], w["goal"]), 0,
                                   functools.partial(mcwitness.replay_index, i))
                                  for i, w in enumerate(mcwitness.all_witnesses()) if tier == "thorough" or i % 3 == 0] + [
                                  (s0 + 1, dict(nd=2, np=2, copies=2), "directed-F1", 0, directed.f1_pasthash_overwritten),
                                  (s0 + 2, dict(nd=2, np=2, copies=2), "directed-F2", 0, directed.f2_pasthash_length),
                                  (s0 + 3, dict(nd=2, np=2, copies=2), "directed-fixframes", 0, directed.fix_frames),
                                  (s0 + 4, dict(nd=2, np=2, copies=2), "directed-fixframes", 0, directed.fix_frames),
                                  (s0 + 5, dict(nd=2, np=1, copies=2), "directed-s2-zeroed", 0, directed.s2_zeroed_bad_chg),
                                  (s0 + 6, dict(nd=2, np=2, copies=2), "directed-import-past", 0, directed.import_past_content),
                                  (s0 + 7, dict(nd=2, np=1, copies=2), "directed-rep-corruption", 0, directed.rep_block_corruption),
                                  (s0 + 8, dict(nd=3, np=2, copies=2), "directed-rehash-silent-sync", 0, directed.rehash_silent_sync),
                                  (s0 + 9, dict(nd=3, np=2, copies=2), "directed-zero-chg-second-disk", 0, directed.zero_chg_second_disk),
                                  (s0 + 10, dict(nd=2, np=3, copies=2), "directed-nohash-bad-parity", 0, directed.nohash_recovery_with_bad_parity)],
        scripts=[("F1s", "NoF1", "F1-chg-pasthash-is-new-hash"), ("F2", "NoF2", "F2-chg-pasthash-other-length")],
        rule="a trace is one seeded history on a real array (edits, complete/killed/partially skipped syncs, damage beyond "
             "and within the parity count, fix, check, scrub), validated step by step by TLC against ArrayTrace.tla; "
             "FixHonest (C05_Fix: every recorded, selected file has the recorded version or is reported unrecoverable; "
             "unselected files untouched) is evaluated at every real fix step with the version store as oracle")
