"""C01 Complete recovery from any loss within the parity level."""
import arrayprop, directed

SHAPES = [(2, 1), (3, 2), (4, 3), (2, 6), (1, 2), (5, 4), (3, 5), (6, 2), (1, 1), (4, 6), (2, 2), (3, 3),
          (3, 3, {"zmode": True}), (2, 2, {"hash_kind": "spooky2"}), (3, 2, {"splits": [2, 1]}), (2, 1, {"hash_size": 8}),
          (4, 3, {"zmode": True, "hash_size": 4}), (2, 3, {"splits": [1, 2, 3], "hash_kind": "spooky2"})]


def run(tier):
    return arrayprop.standard_run(
        "C01", tier, profiles=["c01"], nquick=24, nthorough=240, steps=(24, 48), shapes=SHAPES,
        directed_jobs=lambda s0: [(s0 + k, dict(nd=2, np=1, copies=2), "directed-fixlinks", 0, directed.fix_links) for k in (1, 2)] +
                                 [(s0 + 3, dict(nd=2, np=1, copies=2, inomode=True), "directed-twins-swapped", 0, directed.twins_swapped_fix)],
        rule="each history builds a fragmented array by adds/deletes/touches and several syncs, ends in an error-free sync, "
             "then damages at most NP devices (disk lost, files deleted, blocks corrupted with unchanged stamp, parity lost "
             "or corrupted) or at most NP blocks of every stripe, runs fix and check; TLC evaluates C01_Fix on the real "
             "post-state (every recorded file byte- and stamp-identical to the synced version via the version store, nothing "
             "unrecoverable, following check clean); a fix step whose precondition the specification does not confirm "
             "(clean, within bounds) is a tool failure, so the property cannot pass vacuously")
