"""C08 I/O errors never turn into false protection."""
import multiprocessing, traceback
import vlib, arr, arrayprop, crash, faults

PID = "C08"
KNOWN = {"NoFalseProtection": "F3-parity-write-error-stripe-stays-synced", "ErrorsReported": "F4-parity-write-error-not-reported"}


def _work(job):
    seed, confkw, pending, caches, stride = job
    out = []
    g = None
    try:
        g = crash.prepare(seed, arr.Conf(**confkw), pending=pending)
        idx = 0
        variants = [("-E", "--test-io-cache", str(cache)) for cache in caches] + [("-E", "-h", "--test-io-cache", str(caches[0]))]
        for flags in (variants if pending != "tiny" else []):
            cache = flags[-1] + ("h" if "-h" in flags else "")
            pts = faults.fault_points(g.a, "sync", *flags)
            for pt in pts:
                kinds = ["eio"] + (["enospc"] if pt[0] == "pwrite" else [])
                for ek in kinds:
                    idx += 1
                    if idx % stride:
                        continue
                    rec, desc, kind, pos = faults.experiment(g, "sync", pt, ek, flags=flags, seed=seed)
                    out.append({"seed": seed * 10000 + idx, "profile": "sync-fault-cache%s" % cache, "conf": confkw, "lines": rec.lines,
                                "vlen": rec.vlen, "names": sorted(rec.names), "steps": g.steps + desc, "hdr": rec.header(), "err": None,
                                "script": None, "nsteps": 0, "fault": (pt[0], pt[3], pt[4], ek, cache)})
        # scrub over the array with its pending changes (stripes that are not synced, files changed since the sync): every data
        # read and every parity read
        if pending in ("mixed", "partial", "rehash"):
            flags = ("--test-io-cache", str(caches[0]))
            pts = faults.fault_points(g.a, "scrub", "-p", "full", *flags)
            for pt in pts:
                idx += 1
                if idx % stride:
                    continue
                rec, desc, kind, pos = faults.experiment(g, "scrub", pt, "eio", flags=flags, seed=seed)
                out.append({"seed": seed * 10000 + idx, "profile": "scrub-pending-fault-cache%s" % caches[0], "conf": confkw, "lines": rec.lines,
                            "vlen": rec.vlen, "names": sorted(rec.names), "steps": g.steps + desc, "hdr": rec.header(), "err": None,
                            "script": None, "nsteps": 0, "fault": (pt[0], pt[3], pt[4], "eio", "p%s" % caches[0])})
        # scrub of the synced array: every data read and every parity read
        g.rec.sync("-E")
        for cache in caches[:2]:
            flags = ("--test-io-cache", str(cache))
            pts = faults.fault_points(g.a, "scrub", "-p", "full", *flags)
            for pt in pts:
                idx += 1
                if idx % stride:
                    continue
                rec, desc, kind, pos = faults.experiment(g, "scrub", pt, "eio", flags=flags, seed=seed)
                out.append({"seed": seed * 10000 + idx, "profile": "scrub-fault-cache%s" % cache, "conf": confkw, "lines": rec.lines,
                            "vlen": rec.vlen, "names": sorted(rec.names), "steps": g.steps + desc, "hdr": rec.header(), "err": None,
                            "script": None, "nsteps": 0, "fault": (pt[0], pt[3], pt[4], "eio", cache)})
        return out, None
    except Exception:
        return out, traceback.format_exc()
    finally:
        if g:
            g.close()


def run(tier):
    v = vlib.Verdict(PID, tier, "fault_enumeration")
    vlib.build("hooks"); vlib.build_shim()
    quick = tier != "thorough"
    cov = {"mc": []}
    states = 0
    for cfg in ("fault", "faultlast", "faultmono"):
        r = vlib.run_tlc("ArraySteps", cfg="ArraySteps_%s.cfg" % cfg, workers=4, timeout=900, tag="steps-" + cfg)
        if r.error and not r.violated:
            raise vlib.ToolFailure("TLC ArraySteps_%s: %s\n%s" % (cfg, r.error, r.out[-1500:]))
        states += r.distinct
        cov["mc"].append({"cfg": "ArraySteps_" + cfg, "distinct": r.distinct, "generated": r.generated, "violated": r.violated})
        if r.violated:
            sig = KNOWN.get(r.violated, "steps-model:" + r.violated)
            v.violation("TLC: %s violated on ArraySteps_%s after %s" % (r.violated, cfg, " ".join(arrayprop.mc_trace_actions(r))),
                        replay_obj={"kind": "tlc-trace", "cfg": cfg, "trace": r.trace}, signature=sig)
        else:
            raise vlib.ToolFailure("the step model no longer exhibits the recorded defect for %s; specification and known-findings.txt are out of step" % cfg)
    s0 = vlib.seed() * 100
    if quick:
        jobs = [(s0 + 1, dict(nd=2, np=2, copies=2), "adds", (3, 1), 1),
                (s0 + 2, dict(nd=3, np=1, copies=2), "mixed", (8, 128), 2),
                (s0 + 3, dict(nd=2, np=1, copies=2), "tiny", (3, 1), 1),
                (s0 + 4, dict(nd=2, np=2, copies=2), "partial", (3, 8), 1),
                (s0 + 5, dict(nd=2, np=1, copies=2), "rehash", (3, 1), 1)]
    else:
        jobs = []
        for i, sh in enumerate([dict(nd=2, np=2, copies=2), dict(nd=3, np=1, copies=2), dict(nd=3, np=3, copies=1), dict(nd=4, np=2, copies=2),
                                dict(nd=2, np=6, copies=2)]):
            for pending in ("adds", "mixed"):
                jobs.append((s0 + 10 + 2 * i + (pending == "mixed"), sh, pending, (1, 3, 8, 128), 1))
            jobs.append((s0 + 40 + i, sh, "tiny", (1, 8), 1))
            jobs.append((s0 + 60 + i, sh, "partial", (3, 128), 1))
            jobs.append((s0 + 80 + i, sh, "rehash", (1, 8), 1))
    with multiprocessing.Pool(min(8, len(jobs))) as pool:
        res = pool.map(_work, jobs, chunksize=1)
    scs = []
    for out, err in res:
        if err:
            raise vlib.ToolFailure("fault experiment failed: " + err)
        scs += out
    groups = {}
    for s in scs:
        groups.setdefault((s["conf"]["nd"], s["conf"]["np"]), []).append(s)
    accepted = 0
    for key, lst in sorted(groups.items()):
        for i in range(0, len(lst), 60):
            f, acc, st = arrayprop.validate_batch(lst[i:i + 60], "c08-%d-%d-%d" % (key[0], key[1], i))
            accepted += acc
            states += st
            for x in f:
                arrayprop.report(v, x, rerun=False)
    kinds = {}
    for s in scs:
        k = "%s %s %s" % (s["profile"].split("-")[0], s["fault"][0], s["fault"][3])
        kinds[k] = kinds.get(k, 0) + 1
    cov.update({"evaluations": len(scs), "distinct_nontrivial": len(set(s["fault"] for s in scs)),
                "rule": "one evaluation = a real sync or scrub in which the k-th read call on one data file, the k-th parity read or "
                        "the k-th parity write (EIO; also ENOSPC for writes) fails, for every such call of the run and io-cache depths "
                        "incl. single-thread mode, followed by fix -e, sync, check; TLC evaluates C08 on the projected post-state "
                        "(failing status, stripe unsynced or bad) and validates the follow-up commands against ArrayTrace.tla; "
                        "distinct = distinct (call, file role, block, errno, cache depth)",
                "experiments_by_kind": kinds, "traces_accepted_without_finding": accepted, "states": states,
                "samples": [{"profile": s["profile"], "fault": s["fault"], "steps": s["steps"][-5:]} for s in scs[:3]]})
    return v.finish(cov, assumptions=["faults are injected at the libc call by an LD_PRELOAD shim (pread/pwrite), one per run",
                                     "abstractions of Array.tla"])
