"""C15 Scrub checks what its plan says and keeps honest books.

Model side (TLC):
  * spec/ScrubPlanMC.tla   : the transcription of scrub.c's selection (ScrubPlan!Transcribed) satisfies the declarative
                             statement (ScrubPlan!Allowed, Progress, logged limits) for ALL info arrays of <= N positions
                             x 3 times x bad/justsynced/absent and all plan arguments; variants of the transcription
                             (mutants of the specification) must be refuted, so the check is shown to bite;
  * spec/ScrubPlanLive.tla : repeated default scrubs with an advancing clock cover every stripe again and again
                             (fairness on Scrub and Tick); the variant that never takes the stripes at the time limit
                             must be refuted.
Binding (real binary, frozen clock of the LD_PRELOAD shim):
  * real arrays whose stripes get chosen last-check times (syncs and scrubs at chosen clock values), bad marks
    (silent corruption of data / parity found by a scrub), unsynced files (changed / touched / removed after the sync),
    holes (unused positions); scrubs with all plans, percentages and age limits, clock values on both sides of every
    limit; sequences scrub -> fix -e -> scrub -p bad;
  * observed from outside: parity positions read (shim), -l tags count_limit/time_limit/last_limit, the content
    file before/after through the independent decoder, digests of data and parity;
  * TLC validates every recorded scrub step against spec/ScrubPlanTrace.tla (selection = transcription, selection
    allowed by the declarative statement, books = Array!ScrubResult and HonestBooks from ground truth, frame).
"""
import json, os, random, re, time, traceback, multiprocessing
import vlib, arr, recorder, observer
from arr import BS, BASE_TIME

DAY = 86400
MAX_REPORTS = 4          # violations re-recorded and reported in detail per run (further ones are only counted)
NOGEN = ["-noGenerateSpecTE"]


# ---------------------------------------------------------------------------------------
# TLC on the models

def _cfg(name, text):
    p = os.path.join(vlib.OUT, "md", name + ".cfg")
    os.makedirs(os.path.dirname(p), exist_ok=True)
    with open(p, "w") as f:
        f.write(text)
    return p


def mc_cfg(name, mode, maxn, mutant="none", nows="{3, 4, 13}"):
    inv = "PctOK" if mode == "pct" else "FlagsOK"
    return _cfg(name, 'SPECIFICATION Spec\nCONSTANTS\n  Day = 1\n  MaxN = %d\n  TimeSet = {1, 2, 3}\n  Pcts <- McPcts\n'
                      '  Olders <- McOlders\n  Nows = %s\n  Mode = "%s"\n  Mutant = "%s"\nINVARIANT %s\nCHECK_DEADLOCK FALSE\n'
                % (maxn, nows, mode, mutant, inv))


def live_cfg(name, n, persist=False, mutant="none", pct="<- DefaultPct"):
    return _cfg(name, 'SPECIFICATION Spec\nCONSTANTS\n  Day = 1\n  N = %d\n  PersistBad = %s\n  Pct %s\n  Mutant = "%s"\n'
                      'INVARIANT TypeOK\nINVARIANT YoungNotSelected\nPROPERTY Covered\n' % (n, "TRUE" if persist else "FALSE", pct, mutant))


def run_tlc_retry(module, **kw):
    """spec/Array.tla is shared and may be mid-edit by someone else: a parse failure is retried a few times"""
    for attempt in range(4):
        r = vlib.run_tlc(module, **kw)
        if "Parsing or semantic analysis failed" in r.out and attempt < 3:
            time.sleep(20)
            continue
        return r
    return r


def tlc(module, cfg, timeout=1800, workers=16):
    r = run_tlc_retry(module, cfg=cfg, workers=workers, timeout=timeout, extra=NOGEN, tag=os.path.basename(cfg))
    if not r.violated:
        # this TLC words it "Temporal property X was violated" (vlib knows the older wording only)
        m = re.search(r"Temporal property (\S+) was violated", r.out)
        if m:
            r.violated = m.group(1)
            r.trace = re.findall(r"(?ms)^State \d+:.*?(?=^State \d+:|^Back to state|^\d+ states generated|^Finished checking|\Z)", r.out)
    if r.error and not r.violated:
        raise vlib.ToolFailure("TLC %s %s: %s\n%s" % (module, cfg, r.error, r.out[-3000:]))
    return r


def model_part(v, tier, cov):
    quick = tier != "thorough"
    states = trans = 0
    runs = []

    def note(what, r, expect_violation=False):
        nonlocal states, trans
        states += r.distinct
        trans += r.generated
        runs.append({"run": what, "distinct": r.distinct, "generated": r.generated, "violated": r.violated,
                     "expected_violation": expect_violation, "wall_s": round(r.wall, 1)})

    n_pct, n_flags = (5, 4) if quick else (6, 6)
    r = tlc("ScrubPlanMC", mc_cfg("C15-mc-pct", "pct", n_pct))
    note("ScrubPlanMC pct: all info arrays <= %d positions x {absent, 3 times x bad} x 7 percentages x 4 age limits x 3 clocks"
         % n_pct, r)
    if r.violated:
        v.violation("TLC: the transcription of scrub.c's percentage plan violates the declarative statement (%s):\n%s"
                    % (r.violated, "".join(r.trace)[-1500:]), {"kind": "tlc-trace", "trace": r.trace}, signature="model-pct")
    r = tlc("ScrubPlanMC", mc_cfg("C15-mc-flags", "flags", n_flags))
    note("ScrubPlanMC flags: all info arrays <= %d positions x {absent, 3 times x bad x justsynced}, plans full/new/bad" % n_flags, r)
    if r.violated:
        v.violation("TLC: the transcription of scrub.c's full/new/bad plans violates the declarative statement:\n%s"
                    % "".join(r.trace)[-1500:], {"kind": "tlc-trace", "trace": r.trace}, signature="model-flags")
    # the check bites: variants of the transcription are refuted
    for m in ("ge", "noties", "newest"):
        r = tlc("ScrubPlanMC", mc_cfg("C15-mc-mut-" + m, "pct", 4, mutant=m), timeout=600)
        note("ScrubPlanMC variant '%s' of the transcription (must be refuted)" % m, r, True)
        if not r.violated:
            raise vlib.ToolFailure("ScrubPlanMC does not refute the variant '%s' of the transcription: the model check is vacuous" % m)
    # liveness
    r = tlc("ScrubPlanLive", live_cfg("C15-live", 3 if quick else 4), timeout=1500)
    note("ScrubPlanLive: default scrub (1/12, 10 days), %d stripes, all age orders, any bad marks: every stripe checked again and again"
         % (3 if quick else 4), r)
    if r.violated:
        v.violation("TLC: repeated default scrubs do not cover every stripe (%s):\n%s" % (r.violated, "".join(r.trace)[-1500:]),
                    {"kind": "tlc-trace", "trace": r.trace}, signature="model-liveness")
    if not quick:
        r = tlc("ScrubPlanLive", live_cfg("C15-live-34", 3, pct="= 34"), timeout=900)
        note("ScrubPlanLive: scrub -p 34 repeated, 3 stripes", r)
        if r.violated:
            v.violation("TLC: repeated 34%% scrubs do not cover every stripe:\n%s" % "".join(r.trace)[-1500:],
                        {"kind": "tlc-trace", "trace": r.trace}, signature="model-liveness")
    r = tlc("ScrubPlanLive", live_cfg("C15-live-mut", 3, mutant="ge"), timeout=600)
    note("ScrubPlanLive with the variant 'ge' (never takes the stripes at the time limit; must be refuted)", r, True)
    if not r.violated:
        raise vlib.ToolFailure("ScrubPlanLive does not refute the starving variant: the liveness check is vacuous")
    # the assumption under which liveness holds
    r = tlc("ScrubPlanLive", live_cfg("C15-live-persist", 3, persist=True), timeout=600)
    note("ScrubPlanLive with one stripe whose error is never repaired (assumption boundary; starvation expected)", r, True)
    cov["persistent_bad_starves"] = bool(r.violated)
    cov["model_runs"] = runs
    return states, trans


# ---------------------------------------------------------------------------------------
# real arrays

PCTS = [-1, 0, 1, 5, 10, 20, 25, 34, 50, 75, 100]
OLDERS = [-1, 0, 0, 1, 2, 5, 10, 30]


class ScrubRec:
    """history of one real array, one ndjson line per step (vocabulary of spec/ScrubPlanTrace.tla)"""

    def __init__(self, seed, nd, np_, data_seed=None):
        self.rng = random.Random(seed)
        self.seed = seed
        self.conf = arr.Conf(nd=nd, np=np_, copies=1)
        self.a = arr.Array(self.conf, seed=seed if data_seed is None else data_seed)
        self.a.clock = BASE_TIME + 1000000
        self.T0 = self.a.clock
        self.nextv = 1
        self.tick = 10
        self.steps = []
        for d in range(nd):
            self.a.write_file(d, "zz", [self.val()], mtime=self.stamp())
        self.rec = recorder.Recorder(self.a)          # first line: Reset with the initial state
        self.lines = self.rec.lines
        self.nscrub = 0
        self.nsel = 0
        self.kinds = set()

    # -- helpers
    def val(self, short=False):
        v = self.nextv
        self.nextv += 1
        return ('s', v) if short else v

    def stamp(self):
        self.tick += 1
        return self.tick

    def any(self, what):
        self.lines.append({"e": "Any", "what": what, "state": self.rec.state()})
        self.steps.append(what)

    def info(self):
        return self.lines[-1]["state"]["info"]

    def cf(self):
        return self.lines[-1]["state"]["cf"]

    def files(self, d):
        p = self.a.ddir(d)
        return sorted(f for f in os.listdir(p) if os.path.isfile(os.path.join(p, f)))

    # -- environment / other commands
    def add_files(self, n=None):
        rng = self.rng
        done = []
        for _ in range(n or rng.randint(1, 3)):
            d = rng.randrange(self.conf.nd)
            name = rng.choice(["A", "B", "E", "F", "K", "M", "Q"]) + str(rng.randint(0, 3))
            nb = rng.randint(1, 3)
            vals = [self.val() for _ in range(nb)]
            if rng.random() < 0.3:
                vals[-1] = self.val(short=True)
            self.a.write_file(d, name, vals, mtime=self.stamp())
            done.append("%d/%s=%r" % (d, name, vals))
        self.any("write " + " ".join(done))

    def sync(self, dt=None):
        rng = self.rng
        self.a.clock += dt if dt is not None else rng.choice([0, 3, 8, 16, 3600, DAY, 2 * DAY, 5 * DAY, 11 * DAY])
        r = self.a.run("sync")
        self.any("sync at %d -> rc %d" % (self.a.clock - BASE_TIME, r.rc))
        return r

    def sync_partial(self):
        """a sync that covers only the first stripes (-B): the rest keeps deleted blocks whose data is still in the parity and
        new blocks without parity (an interrupted sync looks the same)"""
        rng = self.rng
        self.a.clock += rng.choice([8, 3600, DAY])
        n = rng.randint(1, 2)
        r = self.a.run("sync", "-B", str(n))
        self.any("sync -B %d at %d -> rc %d" % (n, self.a.clock - BASE_TIME, r.rc))
        self.kinds.add("partial-sync")
        return r

    def rehash(self):
        """schedule the hash migration (the array was created with the hash function that is not the best one here)"""
        r = self.a.run("rehash", hashflag=False)
        what = "rehash -> rc %d" % r.rc
        self.lines.append({"e": "Rehash", "what": what, "state": self.rec.state(), "out": {"rc": r.rc}})
        self.steps.append(what)
        if r.rc == 0:
            self.kinds.add("rehash")
        return r

    def delete_file(self, spare_ok=False):
        rng = self.rng
        d = rng.randrange(self.conf.nd)
        fl = [f for f in self.files(d) if f != "zz"]
        if not fl:
            return False
        n = rng.choice(fl)
        self.a.remove(d, n)
        self.any("delete %d/%s" % (d, n))
        return True

    def change_file(self):
        """a file changed since the last sync: new content and/or new time stamp"""
        rng = self.rng
        d = rng.randrange(self.conf.nd)
        fl = self.files(d)
        if not fl:
            return False
        n = rng.choice(fl)
        how = rng.choice(["touch", "rewrite", "rewrite", "grow"])
        st = self.a.get_stat(d, n)
        nb = max(1, (st.st_size + BS - 1) // BS)
        if how == "touch":
            self.a.set_mtime(d, n, self.stamp())
        elif how == "rewrite":
            self.a.overwrite_keep_inode(d, n, [self.val() for _ in range(nb)], mtime=self.stamp())
        else:
            self.a.overwrite_keep_inode(d, n, [self.val() for _ in range(nb + 1)], mtime=self.stamp())
        self.any("%s %d/%s (unsynced change)" % (how, d, n))
        self.kinds.add("unsynced")
        return True

    def corrupt_data(self):
        st = self.lines[-1]["state"]
        cands = [(int(d), n, i) for d in st["cf"] for n, f in st["cf"][d].items() for i in range(len(f["bl"]))
                 if n in st["fs"][d] and i < len(st["fs"][d][n]["b"])]
        if not cands:
            return False
        d, n, i = self.rng.choice(cands)
        self.a.corrupt_block(d, n, i, self.rng.choice(["flip", "byte", "whole"]))
        self.any("silent corruption %d/%s[%d]" % (d, n, i))
        self.kinds.add("silent-data")
        return True

    def corrupt_parity(self):
        st = self.lines[-1]["state"]
        l = self.rng.randrange(self.conf.np)
        if not st["par"][l]:
            return False
        p = self.rng.randrange(len(st["par"][l]))
        self.a.corrupt_parity(l, p, self.rng.choice(["flip", "whole"]))
        self.any("silent corruption parity %d@%d" % (l, p))
        self.kinds.add("silent-parity")
        return True

    def fix_e(self):
        r = self.a.run("fix", "-e")
        self.any("fix -e -> rc %d" % r.rc)
        self.kinds.add("fix-e")
        return r

    # -- scrub
    def pick_now(self, older):
        """a clock value on one side or the other of an age limit of some stripe, never before the latest time"""
        rng = self.rng
        times = sorted(set(e["t"] for e in self.info() if e["p"]))
        latest = max(times + [self.a.clock - BASE_TIME])
        o = 10 if older < 0 else older
        if times and rng.random() < 0.75:
            t = rng.choice(times)
            now = t + o * DAY + rng.choice([-8, -1, 0, 0, 1, 7, 8, 9, 3600, DAY])
        else:
            now = latest + rng.choice([0, 5, 8, DAY, 3 * DAY, 10 * DAY, 12 * DAY, 40 * DAY])
        return max(now, latest)

    def scrub(self, plan, pct=-1, older=-1, now=None, rules=None):
        a = self.a
        if now is None:
            now = self.pick_now(older) if plan == "pct" else (a.clock - BASE_TIME) + self.rng.choice([0, 8, 100, DAY])
        a.clock = BASE_TIME + now
        args = []
        if plan == "pct":
            if pct >= 0:
                args += ["-p", str(pct)]
            if older >= 0:
                args += ["-o", str(older)]
        else:
            args += ["-p", plan]
        present = [l + 1 for l in range(self.conf.np) if os.path.exists(a.pfile(l, 0))]
        r = a.run("scrub", *args, now=a.clock, trace=True, trace_reads=True, rules=rules)
        reads = {}
        for e in r.trace:
            if e.get("c") in ("pread", "read"):
                role = a.role(e.get("path", ""))
                if role.startswith("parity:"):
                    reads.setdefault(int(role.split(":")[1]), set()).add(e["off"] // BS)
        lim = {}
        for k in ("count_limit", "time_limit", "last_limit"):
            t = r.tag(k)
            if t:
                lim[k] = int(t[-1][1])
        if lim.get("count_limit", 0) > 0:
            lim["time_limit"] -= BASE_TIME
        de, pe = set(), set()
        for t in r.tag("error"):
            if len(t) >= 4 and t[1].isdigit():
                de.add((int(t[1]), str(self.conf.disk_names.index(t[2]))))
        for t in r.tag("parity_error"):
            if len(t) >= 4 and t[1].isdigit() and t[2] in arr.LEVELS:
                pe.add((int(t[1]), arr.LEVELS.index(t[2]) + 1))
        ex = [t[2] for t in r.tag("summary") if len(t) > 2 and t[1] == "exit"]
        out = {"exit": ex[-1] if ex else ("ok" if r.rc == 0 else "none"), "rc": r.rc,
               "derr": [list(x) for x in sorted(de)], "perr": [list(x) for x in sorted(pe)]}
        read0 = sorted(reads.get(0, ()))
        line = {"e": "Scrub", "args": {"plan": plan, "pct": pct, "older": older, "now": now, "present": present},
                "obs": {"read": read0, "limits": lim, "levels": {str(l): sorted(s) for l, s in reads.items()}},
                "state": self.rec.state(), "out": out}
        self.lines.append(line)
        self.steps.append("scrub %s pct=%s older=%s now=%d -> read %s limits %s exit %s" % (plan, pct, older, now, read0, lim, out["exit"]))
        self.nscrub += 1
        self.nsel += len(read0)
        self.kinds.add("plan-" + plan)
        if any(sorted(s) != read0 for s in reads.values()) or (read0 and len(reads) != self.conf.np):
            line["levels_disagree"] = True
        return r, line

    # -- histories
    def build(self):
        rng = self.rng
        for b in range(rng.randint(2, 4)):
            self.add_files()
            self.sync(dt=rng.choice([0, 4, 8, 24, DAY, 3 * DAY, 7 * DAY]))
            if rng.random() < 0.35:
                self.scrub("new")
        if rng.random() < 0.6 and self.delete_file():
            self.sync(dt=rng.choice([8, DAY]))                 # leaves unused positions (holes)
            self.kinds.add("holes")

    def random_history(self, nsteps):
        rng = self.rng
        self.build()
        for _ in range(nsteps):
            x = rng.random()
            if x < 0.50:
                self.scrub("pct", rng.choice(PCTS), rng.choice(OLDERS))
            elif x < 0.62:
                self.scrub(rng.choice(["new", "full", "bad", "bad"]))
            elif x < 0.70:
                self.corrupt_data()
            elif x < 0.75:
                self.corrupt_parity()
            elif x < 0.83:
                self.change_file()
            elif x < 0.86:
                if self.delete_file() and rng.random() < 0.6:
                    self.sync_partial()
            elif x < 0.90:
                self.add_files()
                self.sync()
            elif x < 0.93:
                self.rehash()
            else:
                self.fix_e()
                self.scrub("bad")

    def directed_bad_cycle(self):
        """scrub finds silent errors -> fix -e -> scrub -p bad clears the marks; unsynced differences never marked"""
        rng = self.rng
        self.build()
        self.corrupt_data()
        if rng.random() < 0.5:
            self.corrupt_parity()
        self.change_file()
        self.scrub("full")
        self.scrub("pct", rng.choice([10, 50]), 0)           # bad stripes are scrubbed in every plan
        self.scrub("bad")
        self.fix_e()
        self.scrub("bad")
        self.scrub("bad")
        self.scrub("pct", 100, 0)

    def directed_deleted_partial(self):
        """stripes that still hold the parity of a deleted file (and stripes of new files without parity) after a sync that
        did not reach them: every plan reports their differences as expected errors and never marks them"""
        rng = self.rng
        self.build()
        self.add_files(3)
        self.sync(dt=DAY)
        for _ in range(rng.randint(1, 2)):
            self.delete_file()
        if rng.random() < 0.5:
            self.add_files(1)
        self.sync_partial()
        self.scrub("full")
        self.scrub("pct", 100, 0)
        self.scrub("bad")
        self.sync(dt=DAY)
        self.scrub("full")

    def directed_rehash(self):
        """scrubs while the hash migration is in progress: stripes with a file error keep their old hashes and their mark, the
        others are converted; a second scrub finds nothing new"""
        rng = self.rng
        self.build()
        self.add_files(3)
        self.sync(dt=DAY)
        self.rehash()
        self.change_file()
        if rng.random() < 0.5:
            self.corrupt_data()
        self.scrub("full")
        self.scrub("full")
        self.scrub("pct", 100, 0)
        self.sync(dt=DAY)
        self.scrub("full")

    def directed_unsynced(self):
        """differences on stripes of files changed since the last sync are reported but never marked, whether the
        difference shows in the data (rewritten file) or in the parity (touched file whose stripe has another parity)"""
        rng = self.rng
        self.build()
        st = self.lines[-1]["state"]
        cands = [(int(d), n, f["bl"][i]["pos"]) for d in st["cf"] for n, f in st["cf"][d].items() for i in range(len(f["bl"]))]
        d, n, pos = rng.choice(cands)
        self.a.set_mtime(d, n, self.stamp())
        self.any("touch %d/%s (unsynced, same data)" % (d, n))
        l = rng.randrange(self.conf.np)
        self.a.corrupt_parity(l, pos, rng.choice(["flip", "whole"]))
        self.any("parity %d@%d differs on the stripe of the touched file" % (l, pos))
        self.kinds.add("unsynced-parity")
        self.scrub(rng.choice(["full", "full", "pct"]), 100, 0)
        self.change_file()
        self.scrub("full")
        self.scrub("bad")
        self.sync(dt=DAY)
        self.scrub("new")
        self.scrub("pct", 50, 0)

    def close(self):
        self.a.destroy()


def _scenario(job):
    seed, nd, np_, kind, nsteps, data_seed = job
    g = None
    try:
        g = ScrubRec(seed, nd, np_, data_seed=data_seed)
        if kind == "bad-cycle":
            g.directed_bad_cycle()
        elif kind == "unsynced":
            g.directed_unsynced()
        elif kind == "deleted-partial":
            g.directed_deleted_partial()
        elif kind == "rehash":
            g.directed_rehash()
        else:
            g.random_history(nsteps)
        return {"seed": seed, "nd": nd, "np": np_, "kind": kind, "nsteps": nsteps, "lines": g.lines, "vlen": g.rec.vlen,
                "names": sorted(g.rec.names), "hdr": g.rec.header(), "steps": g.steps, "nscrub": g.nscrub, "nsel": g.nsel,
                "kinds": sorted(g.kinds), "err": None}
    except Exception:
        return {"seed": seed, "nd": nd, "np": np_, "kind": kind, "nsteps": nsteps, "err": traceback.format_exc()}
    finally:
        if g:
            g.close()


_SNAP = None


def spec_snapshot():
    """spec/Array.tla is shared and edited concurrently: the trace validation of one run uses one private copy of the
    modules it needs, taken at a moment when they parse (removed by run())"""
    global _SNAP
    if _SNAP:
        return _SNAP
    import shutil, tempfile
    os.makedirs(os.path.join(vlib.OUT, "md"), exist_ok=True)
    for attempt in range(20):
        d = tempfile.mkdtemp(prefix="C15-spec-", dir=os.path.join(vlib.OUT, "md"))
        for m in ("Array", "ScrubPlan", "ScrubPlanTrace"):
            shutil.copy(os.path.join(vlib.SPEC, m + ".tla"), d)
        ok, out = vlib.sany("ScrubPlanTrace", cwd=d)
        if ok:
            _SNAP = d
            return d
        shutil.rmtree(d, ignore_errors=True)
        time.sleep(15)
    raise vlib.ToolFailure("spec/Array.tla + ScrubPlanTrace.tla do not parse:\n" + out[-2000:])


def drop_snapshot():
    global _SNAP
    if _SNAP:
        import shutil
        shutil.rmtree(_SNAP, ignore_errors=True)
        _SNAP = None


class _Rec:
    def __init__(self, d):
        self.lines, self.vlen, self.names, self._hdr = d["lines"], d["vlen"], set(d["names"]), d["hdr"]

    def header(self):
        return self._hdr


def validate(scs, tag):
    """TLC validation of executed scenarios (same nd, np) against ScrubPlanTrace.tla.
    Returns (findings, accepted scenarios, states)"""
    os.makedirs(os.path.join(vlib.OUT, "traces"), exist_ok=True)
    findings, accepted, states = [], 0, 0
    rest = list(scs)
    part = 0
    while rest:
        part += 1
        path = os.path.join(vlib.OUT, "traces", "%s-%d.ndjson" % (tag, part))
        n = recorder.write_traces(path, [_Rec(s) for s in rest])
        cfg = _cfg("%s-%d" % (tag, part), "SPECIFICATION Spec\nINVARIANT Conforms\nPOSTCONDITION Accepted\nCHECK_DEADLOCK FALSE\n")
        r = run_tlc_retry("ScrubPlanTrace", cfg=cfg, workers=1, env={"TRACE": path}, timeout=900, xmx="4g", extra=NOGEN,
                          tag="%s-%d" % (tag, part), cwd=spec_snapshot())
        states += r.distinct
        if not r.violated:
            if r.error or r.distinct != n:
                raise vlib.ToolFailure("trace validation failed: %s (%d of %d lines)\n%s" % (r.error, r.distinct, n, r.out[-3000:]))
            accepted += len(rest)
            os.remove(path)
            break
        m = re.findall(r"/\\ l = (\d+)", r.out)
        line = int(m[-1]) - 1 if m else 1
        last = r.out[r.out.rfind("State "):]
        m = re.search(r"/\\ diag = (.*?)(?=\n/\\ |\n\n|\Z)", last, re.S)
        diag = m.group(1)[:3000] if m else r.violated
        acc = k = 0
        for k, s in enumerate(rest):
            if line <= acc + len(s["lines"]):
                break
            acc += len(s["lines"])
        sc = rest[k]
        findings.append({"scenario": sc, "line": line - acc, "diag": diag, "violated": r.violated})
        accepted += k
        rest = rest[k + 1:]
        os.remove(path)
    return findings, accepted, states


def signature(diag):
    m = re.search(r"\[([^\]]*selection[^\]]*)\]", diag or "")
    if not m:
        return "scrub-step"
    bad = re.findall(r"(\w+) \|-> FALSE", m.group(1))
    return "scrub-" + "+".join(sorted(bad)) if bad else "scrub-step"


def selftest_tamper(scs):
    """the binding proves itself: one field of an accepted trace is corrupted, TLC must reject it"""
    import copy
    src = next((s for s in scs if any(l["e"] == "Scrub" and l["args"]["plan"] == "pct" and l["obs"]["read"] for l in s["lines"])), None)
    if src is None:
        raise vlib.ToolFailure("no percentage scrub with a non-empty selection was recorded")

    def drop_read(t):
        for l in t["lines"]:
            if l["e"] == "Scrub" and l["args"]["plan"] == "pct" and l["obs"]["read"]:
                l["obs"]["read"] = l["obs"]["read"][1:]
                return

    def flip_bad(t):
        for l in t["lines"]:
            if l["e"] == "Scrub" and l["obs"]["read"]:
                e = l["state"]["info"][l["obs"]["read"][0]]
                e["bad"] = not e["bad"]
                return
    n = 0
    for fn in (drop_read, flip_bad):
        t = copy.deepcopy(src)
        fn(t)
        f, _, _ = validate([t], "C15-tamper")
        if not f:
            raise vlib.ToolFailure("a corrupted trace (%s) was accepted by ScrubPlanTrace: the binding is vacuous" % fn.__name__)
        n += 1
    return n


def binding_part(v, tier, cov):
    quick = tier != "thorough"
    s0 = vlib.seed() * 100000
    shapes = [(2, 1), (2, 2), (3, 1), (3, 2)]
    jobs = []
    nrand, nsteps, ndir = (48, 14, 12) if quick else (260, 22, 48)
    for i in range(ndir):
        nd, np_ = shapes[i % len(shapes)]
        jobs.append((s0 + 500 + i, nd, np_, ("bad-cycle", "unsynced", "deleted-partial", "rehash")[i % 4], 0, None))
    for i in range(nrand):
        nd, np_ = shapes[i % len(shapes)]
        jobs.append((s0 + 1000 + i, nd, np_, "random", nsteps, None))
    with multiprocessing.Pool(8) as pool:
        scs = pool.map(_scenario, jobs, chunksize=1)
    for s in scs:
        if s.get("err"):
            raise vlib.ToolFailure("scenario failed: " + s["err"])
    states = 0
    accepted = 0
    groups = {}
    for s in scs:
        groups.setdefault((s["nd"], s["np"]), []).append(s)
    for key, lst in sorted(groups.items()):
        f, acc, st = validate(lst, "C15-%d-%d" % key)
        accepted += acc
        states += st
        for x in f:
            sc = x["scenario"]
            sig = signature(x["diag"])
            if len(v.violations) >= MAX_REPORTS:
                cov["findings_not_reconfirmed"] = cov.get("findings_not_reconfirmed", 0) + 1
                continue
            # a collision of random block contents cannot repeat: re-record with fresh data
            again = _scenario((sc["seed"], sc["nd"], sc["np"], sc["kind"], sc["nsteps"], sc["seed"] + 1000003))
            if again.get("err"):
                raise vlib.ToolFailure("re-recording failed: " + again["err"])
            f2, _, _ = validate([again], "C15-confirm-%d" % sc["seed"])
            if not any(signature(y["diag"]) == sig for y in f2):
                print("note: %s at seed %s did not repeat with fresh data; not reported" % (sig, sc["seed"]))
                continue
            ev = sc["lines"][x["line"] - 1]
            v.violation("%s: step %d of scenario seed=%d (%dd/%dp, %s): %s\n%s" % (
                sig, x["line"], sc["seed"], sc["nd"], sc["np"], sc["kind"],
                sc["steps"][x["line"] - 2] if 0 <= x["line"] - 2 < len(sc["steps"]) else ev.get("e"), x["diag"][:1500]),
                {"kind": "scrub-scenario", "seed": sc["seed"], "nd": sc["nd"], "np": sc["np"], "history": sc["kind"], "nsteps": sc["nsteps"],
                 "steps": sc["steps"][:x["line"]], "failing_event": {k: ev[k] for k in ev if k != "state"},
                 "info_before": sc["lines"][x["line"] - 2]["state"]["info"] if x["line"] >= 2 else None,
                 "info_after": ev.get("state", {}).get("info"), "diag": x["diag"]}, signature=sig)
    cov["tampered_traces_rejected"] = selftest_tamper(scs)
    for s in scs:
        for i, l in enumerate(s["lines"]):
            if l.get("levels_disagree"):
                v.violation("parity levels were not read at the same positions: %r (seed %d)" % (l["obs"]["levels"], s["seed"]),
                            {"kind": "scrub-scenario", "seed": s["seed"], "steps": s["steps"]}, signature="levels-disagree")
    # measured coverage
    nscrub = sum(s["nscrub"] for s in scs)
    plans = {}
    distinct = set()
    nontrivial = 0
    for s in scs:
        prev = None
        for l in s["lines"]:
            if l["e"] == "Scrub":
                a = l["args"]
                plans[a["plan"]] = plans.get(a["plan"], 0) + 1
                info = prev["info"] if prev else []
                used = [e for e in info if e["p"]]
                key = (a["plan"], a["pct"], a["older"], tuple((e["p"], e["t"] - a["now"], e["bad"], e["js"]) for e in info))
                if key not in distinct:
                    distinct.add(key)
                    # non-trivial: a proper, non-empty subset of the used stripes was selected
                    if 0 < len(l["obs"]["read"]) < len(used):
                        nontrivial += 1
            prev = l["state"]
    kinds = {}
    for s in scs:
        for k in s["kinds"]:
            kinds[k] = kinds.get(k, 0) + 1
    marks = sum(1 for s in scs for i, l in enumerate(s["lines"]) if l["e"] == "Scrub" and i > 0 and
                sum(e["bad"] for e in l["state"]["info"]) > sum(e["bad"] for e in s["lines"][i - 1]["state"]["info"]))
    cleared = sum(1 for s in scs for i, l in enumerate(s["lines"]) if l["e"] == "Scrub" and i > 0 and
                  sum(e["bad"] for e in l["state"]["info"]) < sum(e["bad"] for e in s["lines"][i - 1]["state"]["info"]))
    errs = sum(1 for s in scs for l in s["lines"] if l["e"] == "Scrub" and (l["out"]["derr"] or l["out"]["perr"]))
    cov.update({"traces_validated_against_impl": len(scs), "traces_accepted_without_finding": accepted,
                "scrub_steps_validated": nscrub, "scrub_steps_by_plan": plans, "distinct_scrub_cases": len(distinct),
                "distinct_nontrivial": nontrivial, "scrubs_that_set_bad_marks": marks, "scrubs_that_cleared_bad_marks": cleared,
                "scrubs_reporting_errors": errs, "scenarios_with": kinds,
                "samples": [{"seed": s["seed"], "shape": "%dd/%dp" % (s["nd"], s["np"]), "history": s["kind"], "steps": s["steps"]}
                            for s in scs[:1] + scs[ndir:ndir + 2]]})
    if not v.violations and (nscrub == 0 or marks == 0 or cleared == 0 or plans.get("pct", 0) == 0):
        raise vlib.ToolFailure("the histories did not exercise the property (scrubs %d, marks set %d, cleared %d)" % (nscrub, marks, cleared))
    return states


def replay(obj):
    """re-execute a recorded violation: obj = the "replay" member of a file under out/replays/C15 (kind scrub-scenario).
    Returns 1 if a scrub step is rejected again, 0 otherwise."""
    if obj.get("kind") != "scrub-scenario":
        print("replay: TLC counterexample on the model; re-run ./verif check C15 quick")
        return 2
    vlib.build("hooks")
    vlib.build_shim()
    sc = _scenario((obj["seed"], obj["nd"], obj["np"], obj["history"], obj.get("nsteps", 14), None))
    if sc.get("err"):
        raise vlib.ToolFailure(sc["err"])
    f, acc, st = validate([sc], "C15-replay-%d" % obj["seed"])
    for x in f:
        print("step %d rejected: %s\n%s" % (x["line"], signature(x["diag"]), x["diag"][:1500]))
    print("\n".join(sc["steps"]))
    return 1 if f else 0


def run(tier):
    v = vlib.Verdict("C15", tier, "model_checking")
    vlib.build("hooks")
    vlib.build_shim()
    cov = {}
    if os.environ.get("VERIF_SKIP_MODEL"):          # only for mutants/C15-C17-run-mutants.py: TLC on the models does not depend on the C sources
        st, tr = 1, 1
        cov["model_part_skipped"] = True
    else:
        st, tr = model_part(v, tier, cov)
    try:
        st2 = binding_part(v, tier, cov)
    finally:
        drop_snapshot()
    cov["states"] = st + st2
    cov["transitions"] = tr + st2
    cov["exhaustive"] = True
    cov["rule"] = ("model: every info array up to the stated size and every argument combination is a TLC state/evaluation "
                   "(exhaustive); binding: seeded random and directed histories on real arrays, a scrub case is distinct by (plan, "
                   "percentage, age limit, info array relative to the clock) and non-trivial when a proper non-empty subset of "
                   "the used stripes was selected")
    return v.finish(cov, assumptions=[
        "the set of stripes scrubbed is observed as the set of parity positions read (LD_PRELOAD shim) and cross-checked by the info words before/after",
        "hash and parity abstraction of Array.tla (a collision of random 1 KiB blocks cannot repeat: violations are re-recorded with fresh data before being reported)",
        "liveness is claimed for errors that get repaired (scrub -> fix -e -> scrub): with a stripe that stays bad for ever and a quota of one stripe TLC exhibits starvation (ScrubPlanLive, PersistBad = TRUE); the quota counts bad stripes that are old enough although they are scrubbed anyway",
        "the share of a percentage plan is rounded up to whole stripes (md() in scrub.c) and is a share of all allocated positions, used or not",
        "I/O errors (the other source of bad marks) are not injected here; C08 owns them"])
