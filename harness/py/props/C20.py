"""C20 Reports and derived views reflect the recorded state faithfully (list, dup, status, pool).

Model side (TLC):
  * spec/Reports.tla    : list / dup / status / pool as functions (or relations, where the statement leaves a freedom) of the
                          recorded content state, in the vocabulary of Array.tla;
  * spec/ReportsMC.tla  : sanity on all small states of three families: DupClasses is a partition of the fully hashed
                          non-empty files that coincides with equality of contents (clean arrays included), files with a CHG
                          block or of size 0 are never reported, the report relation accepts every star-shaped report and
                          rejects a missing / false line; list is insensitive to block states and hashes; the status counters
                          agree with Array!ParityInvalid and with each other; pool satisfies its relation, is idempotent,
                          keeps foreign files, leaves nothing empty, and the relation rejects kept stale links, lost foreign
                          files, missing links and kept empty directories.
Binding (real binary, code -> spec):
  * harness/py/reports.py: seeded histories with a nasty name alphabet (space, newline, CR, colon, backslash, glob and shell
    characters, leading '-', tab, control bytes, non-UTF-8 bytes, 255-byte components, sub-directories), symbolic and hard
    links, empty directories, duplicate groups across disks, cp -p copies (REP), syncs that are killed / partial / lose a file
    half way (CHG, deleted), silent corruption + scrub (bad), pre-existing pool contents (stale links, links elsewhere, foreign
    files, empty trees, links on directory paths), share prefix;
  * after every command of the history: list -l, list (terminal, with and without -v, --test-fmt file|disk), dup -l + terminal,
    status -l, status -G -l (+ terminal), pool twice; tag stream decoded with the inverse of esc_tag, terminal stream with
    the inverse of esc_shell;
  * spec/ReportsTrace.tla: per event  decoded output = Report(projected recorded state)  in both directions, and the frame.
"""
import json, os, re, time, threading, copy, collections
import vlib, arr, reports

PID = "C20"


tlc_retry = reports.tlc_retry


def model_sanity(tier, results):
    """TLC on ReportsMC (three families); runs in background threads while the histories are recorded"""
    def one(kind):
        r = tlc_retry("ReportsMC", cfg="ReportsMC_%s_%s.cfg" % (kind, tier), workers=4 if tier == "quick" else 8,
                      timeout=1500, xmx="4g", tag="C20-mc-" + kind)
        results[kind] = r
    ths = [threading.Thread(target=one, args=(k,)) for k in ("dup", "status", "pool")]
    for t in ths:
        t.start()
    return ths


def esc_model(tier, results):
    """TLC on ReportsEsc: round trip / cleanliness / unique parsing for all short strings, export of the encoding table,
    and the expected counterexample of an unescaped name in a tag line (F6 on the model)"""
    def run():
        m = 2 if tier == "quick" else 3
        out = os.path.join(vlib.OUT, "md", "C20-esc-%d-%d.json" % (m, os.getpid()))
        r = tlc_retry("ReportsEsc", cfg="ReportsEsc_%d.cfg" % m, workers=4, timeout=900, xmx="2g", tag="C20-esc", env={"ESCOUT": out})
        r2 = tlc_retry("ReportsEsc", cfg="ReportsEsc_raw_2.cfg", workers=2, timeout=300, xmx="2g", tag="C20-esc-raw",
                       env={"ESCOUT": out + ".raw"})
        results["esc"], results["raw"], results["table"] = r, r2, out
    t = threading.Thread(target=run)
    t.start()
    return t


def validate_chunks(scs, tag, chunk=24, par=4):
    """group by disk count, cut in chunks, run up to `par` TLC instances at a time; returns [(scenario, finding)], states, generated"""
    groups = collections.defaultdict(list)
    for s in scs:
        groups[s["nd"]].append(s)
    work = []
    for nd, lst in sorted(groups.items()):
        for i in range(0, len(lst), chunk):
            work.append((nd, i // chunk, lst[i:i + chunk]))
    out, errs = [], []
    tot = [0, 0]
    lock = threading.Lock()
    sem = threading.Semaphore(par)

    def one(nd, k, lst):
        with sem:
            try:
                f, st, gen = reports.validate(lst, "%s-%d-%d" % (tag, nd, k))
                with lock:
                    tot[0] += st; tot[1] += gen
                    out.extend((lst[x["scenario"]], x) for x in f)
            except Exception as e:          # re-raised in the main thread
                with lock:
                    errs.append(e)
    ths = [threading.Thread(target=one, args=w) for w in work]
    for t in ths:
        t.start()
    for t in ths:
        t.join()
    if errs:
        raise errs[0]
    return out, tot[0], tot[1]


def binding_selftest(sc):
    """corrupt single fields of the decoded outputs of an accepted trace; every corruption must be found (DESIGN.md 5)"""
    muts = []

    def mut(name, kind, fn):
        s2 = copy.deepcopy({k: v for k, v in sc.items()})
        for ev in s2["events"]:
            if ev["e"] == kind and fn(ev):
                s2["kind"] = "selftest:" + name
                muts.append((name, kind, s2))
                return
    def drop_file(ev):
        if ev["out"]["files"]:
            ev["out"]["files"].pop(0); return True
    def drop_pair(ev):
        if ev["out"]["pairs"]:
            ev["out"]["pairs"].pop(); return True
    def flip_block(ev):
        if ev["out"]["gui"] and ev["out"]["blocks"]:
            b = ev["out"]["blocks"][0]; b["unsynced"] = not b["unsynced"]; return True
    def drop_link(ev):
        for p, e in ev["state"]["pool"].items():
            if e["k"] == "l":
                del ev["state"]["pool"][p]; return True
    def rename_term(ev):
        if ev["out"]["term"]["files"]:
            ev["out"]["term"]["files"][0]["n"] += "x"; return True
    mut("list-drops-a-file", "List", drop_file)
    mut("list-terminal-name-differs", "List", rename_term)
    mut("dup-drops-a-line", "Dup", drop_pair)
    mut("status-block-flag-flipped", "Status", flip_block)
    mut("pool-link-missing", "Pool", drop_link)
    if not muts:
        return {}
    f, st, gen = reports.validate([m[2] for m in muts], "C20-selftest")
    hit = collections.Counter(x["scenario"] for x in f)
    res = {}
    for i, (name, kind, s2) in enumerate(muts):
        res[name] = hit.get(i, 0)
        if not hit.get(i):
            raise vlib.ToolFailure("binding self-test: corrupted output '%s' was accepted by ReportsTrace" % name)
    return res


def run(tier):
    v = vlib.Verdict(PID, tier, "model_checking")
    vlib.build("hooks"); vlib.build_shim()
    quick = tier != "thorough"
    t0 = time.time()
    mc = {}
    # the model part does not depend on the repository: the mutant runner skips it
    ths = [] if os.environ.get("VERIF_SKIP_MODEL") else model_sanity("quick" if quick else "thorough", mc)
    esc = {}
    esc_t = esc_model("quick" if quick else "thorough", esc)

    # ---- histories on the real binary
    s0 = vlib.seed() * 100000 + 2000
    n = 64 if quick else 480
    steps = 14 if quick else 22
    jobs = [(s0 + 900 + i, k, 0, False) for i, k in enumerate(reports.DIRECTED)]
    jobs += [(s0 + i, "random", steps, i % 3 == 0) for i in range(n)]
    scs = reports.record(jobs, procs=8 if quick else 12)
    for s in scs:
        if s.get("err"):
            raise vlib.ToolFailure("scenario %s/%s failed: %s" % (s["seed"], s["kind"], s["err"]))
    t_rec = time.time() - t0
    found, states, generated = validate_chunks(scs, "C20-%s" % tier)

    # ---- findings: one report per (signature, scenario); confirmed by re-recording with other block contents
    by_sig = collections.OrderedDict()
    for sc, x in found:
        by_sig.setdefault(reports.signature(sc, x), collections.OrderedDict()).setdefault(sc["seed"], (sc, []))[1].append(x)
    reported = {}
    for sig, per in by_sig.items():
        confirmed = None
        for seed, (sc, xs) in list(per.items())[:3]:
            again = reports._run_job((sc["seed"], sc["kind"], sc["nsteps"], sc["share"], sc["seed"] + 1000003))
            if again.get("err"):
                raise vlib.ToolFailure("re-recording failed: " + again["err"])
            f2, st2, g2 = reports.validate([again], "C20-confirm-%s" % seed)
            states += st2; generated += g2
            if any(reports.signature(again, y) == sig for y in f2):
                confirmed = (sc, xs)
                break
        if not confirmed:
            print("note: %s did not repeat when re-recorded with other block contents; not reported" % sig)
            continue
        sc, xs = confirmed
        x = xs[0]
        k = x["event"]
        replay = {"kind": "reports-scenario", "seed": sc["seed"], "scenario": sc["kind"], "share": sc["share"], "nsteps": sc["nsteps"],
                  "steps": sc["steps"], "failing_event": k, "check": x["check"], "detail": x.get("detail"),
                  "recorded_state_before": sc["events"][k - 1]["state"], "event": sc["events"][k],
                  "occurrences": {str(s): len(v[1]) for s, v in per.items()}}
        v.violation(reports.describe(sc, x) + " [%d occurrence(s) in %d scenario(s)]" % (sum(len(z[1]) for z in per.values()), len(per)),
                    replay_obj=replay, signature=sig)
        reported[sig] = sum(len(z[1]) for z in per.values())

    # ---- binding self-test on a trace without findings
    bad = {sc["seed"] for sc, x in found}
    clean = next((s for s in scs if s["seed"] not in bad and s["kind"] == "random" and
                  any(e["e"] == "Dup" and e["out"]["pairs"] for e in s["events"])), None)
    if clean is None:
        clean = next((s for s in scs if s["seed"] not in bad and s["kind"] == "random"), None)
    selftest = binding_selftest(clean) if clean else {}

    # ---- the encodings: model, then the exported table against the binary
    esc_t.join()
    r, r2 = esc["esc"], esc["raw"]
    if r.error and not r.violated:
        raise vlib.ToolFailure("TLC on ReportsEsc: %s\n%s" % (r.error, r.out[-2500:]))
    states += r.distinct; generated += r.generated
    if r.violated:
        v.violation("TLC: %s fails on ReportsEsc: %s" % (r.violated, "".join(r.trace)[:800]),
                    replay_obj={"kind": "tlc-trace", "trace": r.trace}, signature="model-encoding-" + str(r.violated))
    # sanity of the model only: without escaping a name is NOT recovered (this is why every tag that carries a name must use
    # esc_tag; it was finding F6 for status.c, repaired by 9208a90); the binary is judged on its own output below
    if r2.violated != "RawIsDecodable":
        raise vlib.ToolFailure("ReportsEsc no longer exhibits the counterexample of an unescaped name\n" + r2.out[-1500:])
    with open(esc["table"]) as f:
        table = json.load(f)["table"]
    for p in (esc["table"], esc["table"] + ".raw"):
        if os.path.exists(p):
            os.remove(p)
    ntab, mism = reports.esc_table_check(table, seed=vlib.seed())
    for kind, missing, extra in mism:
        v.violation("encoding-table-%s: the %s encoding printed by list differs from ReportsEsc for %d of %d names; expected but "
                    "absent %s; printed instead %s" % (kind, kind, max(len(missing), len(extra)), ntab, missing[:6], extra[:6]),
                    replay_obj={"kind": "encoding-table", "encoding": kind, "missing": missing, "extra": extra},
                    signature="encoding-table-" + kind)

    # ---- model sanity results
    for t in ths:
        t.join()
    mcc = [{"family": "encodings (ReportsEsc)", "distinct": r.distinct, "generated": r.generated, "violated": r.violated,
            "wall_s": round(r.wall, 1), "strings": ntab, "table_compared_with_binary": True}]
    for kind, r in sorted(mc.items()):
        if r.error and not r.violated:
            raise vlib.ToolFailure("TLC on ReportsMC (%s): %s\n%s" % (kind, r.error, r.out[-2500:]))
        states += r.distinct; generated += r.generated
        mcc.append({"family": kind, "distinct": r.distinct, "generated": r.generated, "violated": r.violated, "wall_s": round(r.wall, 1)})
        if r.violated:
            v.violation("TLC: sanity invariant of Reports.tla fails on the %s family: %s" % (kind, "".join(r.trace)[:1500]),
                        replay_obj={"kind": "tlc-trace", "cfg": "ReportsMC_%s" % kind, "trace": r.trace}, signature="model-sanity-" + kind)

    # ---- coverage (measured)
    nev = collections.Counter(e["e"] for s in scs for e in s["events"])
    classes = collections.Counter()
    names = set()
    for s in scs:
        for nme in s["names"]:
            b = reports.dec(nme)
            if b not in names:
                names.add(b)
                for c in reports.name_classes(b):
                    classes[c] += 1
    st_cov = collections.Counter()
    groups = collections.Counter()
    poolc = collections.Counter()
    for s in scs:
        for i, e in enumerate(s["events"]):
            if e["e"] == "Status" and e["out"]["gui"]:
                stt = s["events"][i - 1]["state"]
                sts = {b["st"] for fl in stt["cf"].values() for f in fl.values() for b in f["bl"]}
                for x in sts:
                    st_cov["status_events_with_%s_blocks" % x] += 1
                if any(h != "NONE" for dl in stt["del"].values() for h in dl):
                    st_cov["status_events_with_deleted_blocks"] += 1
                if e["out"]["has_bad"][0] > 0:
                    st_cov["status_events_with_bad_stripes"] += 1
                if e["out"]["sum"]["has_unsynced"] > 0:
                    st_cov["status_events_with_unsynced_stripes"] += 1
                if 0 < e["out"]["sum"]["has_unscrubbed"] < e["out"]["sum"]["block_count"]:
                    st_cov["status_events_partly_scrubbed"] += 1
                if e["out"]["sum"]["fragmented_file_count"] > 0:
                    st_cov["status_events_with_fragmented_files"] += 1
            if e["e"] == "Dup":
                # sizes of the reported classes (union of the reported pairs)
                parent = {}
                def find(a):
                    while parent.setdefault(a, a) != a:
                        a = parent[a]
                    return a
                for p in e["out"]["pairs"]:
                    parent[find((p["d"], p["n"]))] = find((p["d2"], p["n2"]))
                cl = collections.Counter(find(a) for a in list(parent))
                for root, k in cl.items():
                    groups["dup_classes_of_size_%d" % k] += 1
                stt = s["events"][i - 1]["state"]
                if any(b["st"] == "REP" for fl in stt["cf"].values() for f in fl.values() for b in f["bl"]):
                    groups["dup_events_with_REP_blocks"] += 1
                if len({p["d"] for p in e["out"]["pairs"]} | {p["d2"] for p in e["out"]["pairs"]}) > 1:
                    groups["dup_events_with_classes_across_disks"] += 1
            if e["e"] == "Pool" and not e["out"]["again"]:
                before, after = s["events"][i - 1]["state"]["pool"], e["state"]["pool"]
                poolc["pool_runs"] += 1
                poolc["stale_links_before"] += sum(1 for p, x in before.items() if x["k"] == "l" and p not in after)
                poolc["links_replaced"] += sum(1 for p, x in before.items() if x["k"] == "l" and p in after and after[p]["to"] != x["to"])
                poolc["foreign_files_before"] += sum(1 for x in before.values() if x["k"] == "f")
                poolc["directories_removed"] += sum(1 for p, x in before.items() if x["k"] == "d" and p not in after)
                poolc["links_after"] += sum(1 for x in after.values() if x["k"] == "l")
                poolc["links_resolving_to_their_file"] += sum(1 for x in after.values() if x["k"] == "l" and x["res"])
    cov = {"states": states, "transitions": generated, "traces_validated_against_impl": len(scs),
           "traces_without_finding": len(scs) - len(bad), "events_on_real_arrays": dict(nev),
           "report_outputs_decoded_and_checked": nev["List"] + nev["Dup"] + nev["Status"] + nev["Pool"],
           "model_sanity": mcc, "distinct_recorded_names": len(names), "names_by_alphabet_class": dict(classes),
           "status": dict(st_cov), "dup": dict(groups), "pool": dict(poolc),
           "scenarios_with_share_prefix": sum(1 for s in scs if s["share"]),
           "configurations": sorted(set("%dd/%dp" % (s["nd"], s["np"]) for s in scs)),
           "binding_selftest_findings": selftest, "findings_by_signature": reported,
           "log_lines_taken_as_continuation_of_msg_text": sum(s.get("msg_continuations", 0) for s in scs),
           "record_wall_s": round(t_rec, 1),
           "samples": [{"seed": s["seed"], "kind": s["kind"], "share": s["share"], "steps": s["steps"][:30]} for s in scs[:1] + scs[len(reports.DIRECTED):len(reports.DIRECTED) + 2]],
           "not_checked": "status figures that are not functions of the recorded content state (free/total blocks of disks and "
                          "parities, wasted space, parity_size_max, best_hash, prev_hash, memory figures, the graph); time stamps of "
                          "the pool links; free text of msg: lines (never escaped by design)"}
    return v.finish(cov, assumptions=[
        "no hash migration in the histories (dup is specified outside a rehash; has_rehash is checked to be 0)",
        "hash abstraction: two blocks have equal recorded hashes iff they have equal contents (random 1 KiB blocks; findings are re-recorded with other block contents before being reported)",
        "pool: the generators never put a foreign non-directory where the pool needs a directory (the command rightly fails there)",
        "inode-less scan (no usable UUID in the sandbox), forced alphabetical scan order, TZ=UTC, frozen clock"])
