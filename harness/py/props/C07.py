"""C07 Interrupted sync and fix are safe and resumable."""
import os, multiprocessing, traceback
import vlib, arr, arrayprop, crash, directed, recorder

PID = "C07"


def _pack(rec, desc, seed, profile, confkw):
    return {"seed": seed, "profile": profile, "conf": confkw, "lines": rec.lines, "vlen": rec.vlen,
            "names": sorted(rec.names), "steps": desc, "hdr": rec.header(), "err": None, "script": None, "nsteps": 0}


def _work(job):
    """one prepared array; a list of kill experiments on clones of it"""
    seed, confkw, pending, kinds, stride, lose_every, fixkill, sigint = job
    out, notes = [], []
    g = None
    try:
        g = crash.prepare(seed, arr.Conf(**confkw), pending=pending)
        n, calls = crash.state_changing_calls(g.a, "-E")
        nd, np_ = confkw["nd"], confkw["np"]
        devices = [("d", i) for i in range(nd)] + [("p", l) for l in range(np_)]
        idx = 0
        for kind in kinds:
            for k in range(1, n + 1):
                if kind != "killa" and (k + seed) % stride:
                    continue
                idx += 1
                lose = devices[idx % len(devices)] if (lose_every and idx % lose_every == 0) else None
                rec, desc = crash.experiment(g, "any,*,%d,%s" % (k, kind), flags=("-E",), lose=lose, seed=seed,
                                             restore=(idx % 3 == 1 or pending == "deletes"))
                out.append(_pack(rec, g.steps + desc + ["killed at call %d/%d %s %s" % (k, n, kind, calls[k - 1])],
                                 seed * 10000 + idx, "kill-%s-%s" % (kind, pending), confkw))
        for j in range(sigint):
            c = g.a.clone()
            try:
                rec = recorder.Recorder(c, obs=g.rec.obs.clone_for(c))
                rec.vlen.update(g.rec.vlen); rec.names |= g.rec.names
                # (single-thread mode for the runs followed by copies: the stop is right after the stripe of that parity write,
                # inside the first multi-block new file for the first ones)
                r, o = rec.sync("--test-io-cache", "1" if j % 2 == 1 else "3", rules=["pwrite,/p0,%d,sigint" % (j // 2 + 1 if j % 2 == 1 else j + 1)])
                d = ["SIGINT after parity write %d%s -> %s stop=%s" % (j // 2 + 1 if j % 2 == 1 else j + 1, " (single thread)" if j % 2 == 1 else "", o["exit"], rec.lines[-1]["args"]["opts"]["stop"])]
                if j % 2 == 1 and confkw["nd"] > 1:
                    # before the sync is run again, files are copied (cp -p) to another disk: also files the stopped sync had
                    # reached only in part
                    import shutil as _sh
                    done = []
                    cf = rec.lines[-1]["state"]["cf"]
                    # first the files the stopped sync went through only in part (synced blocks followed by pending ones)
                    partial = [(dd, f) for dd in range(confkw["nd"]) for f, e in sorted(cf.get(str(dd), {}).items())
                               if len(set(b["st"] for b in e["bl"])) > 1]
                    others = [(dd, f) for dd in range(confkw["nd"]) for f in sorted(os.listdir(c.ddir(dd))) if (dd, f) not in partial]
                    for dd, f in partial + others:
                        src = c.path(dd, f); dst = c.path((dd + 1) % confkw["nd"], f)
                        if f != "zz" and os.path.isfile(src) and not os.path.lexists(dst) and os.path.getsize(src) > 1024 and len(done) < 2:
                            _sh.copy2(src, dst); done.append("%d/%s%s" % (dd, f, " (partly synced)" if (dd, f) in partial else ""))
                    if done:
                        rec.env("cp -p %s to the next disk" % " ".join(done)); d.append("cp -p %s to the next disk" % " ".join(done))
                c.clock += 10
                r, o = rec.sync(); d.append("resume sync -> %s" % o["exit"])
                r, o = rec.check(); d.append("check -> %s" % o["exit"])
                out.append(_pack(rec, g.steps + d, seed * 10000 + 9000 + j, "sigint-" + pending, confkw))
            finally:
                c.destroy()
        if fixkill:
            g.rec.sync("-E")
            for j in range(2):
                r = crash.fix_sigint_experiment(g, seed=seed * 10 + j)
                if r:
                    out.append(_pack(r["rec"], g.steps + r["desc"], seed * 10000 + 7000 + j, "fixsigint", confkw))
                    if r["diffs"]:
                        notes.append({"seed": seed, "k": -1, "call": "SIGINT", "diffs": r["diffs"], "damage": "first file of each disk",
                                      "steps": g.steps + r["desc"]})
            dm = [devices[seed % len(devices)]] + ([devices[(seed + 3) % len(devices)]] if np_ > 1 else [])
            dm = list(dict.fromkeys(dm))
            nf, fcalls = crash.fix_calls(g, dm)
            for k in range(1, nf + 1):
                if (k + seed) % fixkill:
                    continue
                r = crash.fix_experiment(g, dm, "any,*,%d,killa" % k, seed=seed)
                out.append(_pack(r["rec"], g.steps + r["desc"] + ["fix killed at call %d/%d %s" % (k, nf, fcalls[k - 1])],
                                 seed * 10000 + 5000 + k, "fixkill", confkw))
                bad = [x for x in r["diffs"] if x[2] != "mtime"]
                if bad:
                    notes.append({"seed": seed, "k": k, "call": fcalls[k - 1], "diffs": bad, "damage": dm,
                                  "steps": g.steps + r["desc"]})
        return out, notes, None
    except Exception:
        return out, notes, traceback.format_exc()
    finally:
        if g:
            g.close()


def run(tier):
    v = vlib.Verdict(PID, tier, "fault_enumeration")
    vlib.build("hooks"); vlib.build_shim()
    quick = tier != "thorough"
    cov = {"mc": []}
    # (1) the step model: every crash point of the refined sync
    states = 0
    for cfg, expect in (("adds", None), ("mixed", None), ("replace", None), ("autosave", "F5-autosave-before-parity-writers-drained")):
        r = vlib.run_tlc("ArraySteps", cfg="ArraySteps_%s.cfg" % cfg, workers=4, timeout=900, tag="steps-" + cfg)
        if r.error and not r.violated:
            raise vlib.ToolFailure("TLC ArraySteps_%s: %s\n%s" % (cfg, r.error, r.out[-1500:]))
        states += r.distinct
        cov["mc"].append({"cfg": "ArraySteps_" + cfg, "distinct": r.distinct, "generated": r.generated, "violated": r.violated})
        if r.violated:
            acts = arrayprop.mc_trace_actions(r)
            sig = expect if (expect and r.violated == "CrashConsistent") else "steps-model:" + r.violated
            v.violation("TLC: %s violated on ArraySteps_%s after %s" % (r.violated, cfg, " ".join(acts)),
                        replay_obj={"kind": "tlc-trace", "cfg": cfg, "trace": r.trace}, signature=sig)
        elif expect:
            raise vlib.ToolFailure("the step model no longer exhibits %s; specification and known-findings.txt are out of step" % expect)
    # (2) the binary: enumeration of kill points
    s0 = vlib.seed() * 100
    if quick:
        jobs = [(s0 + 1, dict(nd=2, np=2, copies=2), "mixed", ("killa", "killb", "short"), 3, 3, 3, 2),
                (s0 + 2, dict(nd=3, np=1, copies=3, splits=[2]), "adds", ("killa", "short"), 3, 2, 0, 2),
                (s0 + 5, dict(nd=2, np=2, copies=2, splits=[1, 3]), "holes", ("killa",), 1, 3, 0, 0),
                (s0 + 6, dict(nd=2, np=1, copies=2), "deletes", ("killa",), 1, 4, 0, 0),
                (s0 + 7, dict(nd=2, np=2, copies=2), "emptydisk", ("killa",), 1, 4, 0, 2),
                (s0 + 3, dict(nd=2, np=3, copies=1), "mixed", ("killa", "killb"), 3, 4, 4, 1),
                (s0 + 4, dict(nd=4, np=2, copies=2), "adds", ("killa",), 1, 3, 5, 2),
                (s0 + 8, dict(nd=2, np=2, copies=2), "adds", (), 1, 0, 0, 4)]
    else:
        jobs = []
        # (sized to end within about half an hour)
        shapes = [dict(nd=2, np=2, copies=2), dict(nd=3, np=1, copies=3, splits=[2]), dict(nd=2, np=3, copies=1),
                  dict(nd=1, np=1, copies=2), dict(nd=2, np=2, copies=2, splits=[1, 3]),
                  dict(nd=3, np=2, copies=2, hash_size=8)]
        for i, sh in enumerate(shapes):
            for pending in ("adds", "mixed", "holes", "deletes", "emptydisk"):
                jobs.append((s0 + 10 + 5 * i + ("adds", "mixed", "holes", "deletes", "emptydisk").index(pending), sh, pending, ("killa", "killb", "short"), 1, 2, 1, 4))
    with multiprocessing.Pool(min(8, len(jobs))) as pool:
        res = pool.map(_work, jobs, chunksize=1)
    scs = []
    for out, notes, err in res:
        if err:
            raise vlib.ToolFailure("kill experiment failed: " + err)
        scs += out
        for n in notes:
            v.violation("interrupted fix + fix differs from an uninterrupted fix: %s" % n["diffs"], replay_obj=n,
                        signature="fix-not-idempotent")
    # directed: the autosave defect on the real binary
    d = arrayprop._run_scenario((s0 + 7, dict(nd=2, np=2, copies=2), "directed-F5", 0, directed.f5_autosave_not_drained))
    if d.get("err"):
        raise vlib.ToolFailure(d["err"])
    scs.append(d)
    groups = {}
    for s in scs:
        groups.setdefault((s["conf"]["nd"], s["conf"]["np"], s["conf"].get("copies", 2), bool(s.get("script"))), []).append(s)
    accepted = 0
    for key, lst in sorted(groups.items()):
        for i in range(0, len(lst), 60):
            f, acc, st = arrayprop.validate_batch(lst[i:i + 60], "c07-%d-%d-%d-%d-%d" % (key[0], key[1], key[2], int(key[3]), i))
            accepted += acc
            states += st
            for x in f:
                arrayprop.report(v, x, rerun=bool(x["scenario"].get("script")))
    kinds = {}
    for s in scs:
        kinds[s["profile"]] = kinds.get(s["profile"], 0) + 1
    cov.update({"evaluations": len(scs), "distinct_nontrivial": len(set(s["steps"][-1] if s["steps"] else "" for s in scs)),
                "rule": "one evaluation = one real sync or fix killed (SIGKILL before / after / in the middle of) at the k-th "
                        "state-changing system call, or stopped by SIGINT at a stripe, on a clone of a prepared array with pending "
                        "changes, followed by resume sync + check (+ loss of a device, fix, check); all k for kill-after, strided k "
                        "for kill-before/short-write in the quick tier; TLC validates every recorded execution against "
                        "ArrayTrace.tla (data untouched, every copy old/pre-save/final, synced stripes valid for every copy, "
                        "resume converges, C01 round). distinct = distinct (call index, call, kind); non-trivial = every one kills a real run",
                "experiments_by_kind": kinds, "traces_accepted_without_finding": accepted, "states": states,
                "samples": [{"profile": s["profile"], "conf": s["conf"], "steps": s["steps"][-8:]} for s in scs[:3]]})
    return v.finish(cov, assumptions=["kill model = SIGKILL of the process (no power loss: page cache survives)",
                                     "abstractions of Array.tla; inode-less scan"])
