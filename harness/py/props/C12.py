"""C12 Commands modify only what they are documented to modify."""
import arrayprop, directed


def run(tier):
    return arrayprop.standard_run(
        "C12", tier, profiles=["mixed", "damage", "filters", "ranges", "syncheavy", "filters"], nquick=36, nthorough=300, sim=False,
        directed_jobs=lambda s0: [(s0 + k, dict(nd=2, np=2, copies=2), "directed-fixframes", 0, directed.fix_frames) for k in (1, 2, 3)],
        rule="before and after every real command byte-level digests of the data trees (names, bytes, ns mtimes, links), of "
             "every parity stream, of every content copy and the list of all other files are recorded; TLC checks the frame "
             "of the command (C12_Frame) on every step: check/diff change nothing, scrub only content, sync no data file, "
             "fix no content file, no artefact other than the lock file beside the first content copy")
