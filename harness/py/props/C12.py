"""C12 Commands modify only what they are documented to modify."""
import arrayprop, directed


def through_symlink(v, cov):
    """frame condition outside the projected state: a symbolic link standing where a recorded file was (pointing to a file outside
    the array, or to another recorded file) is never written through: whatever check, fix, scrub and diff do with the name, the
    file the link points to keeps its bytes and its time stamp"""
    import os
    import vlib, arr
    n = 0
    for variant in ("outside", "inside"):
        a = arr.Array(arr.Conf(nd=2, np=1, copies=2), seed=vlib.seed() * 10 + len(variant))
        try:
            a.write_file(0, "A", [1, 2], mtime=11)
            a.write_file(0, "K", [5], mtime=12)
            a.write_file(1, "B", [3, 4], mtime=13)
            if a.run("sync").rc != 0:
                raise vlib.ToolFailure("sync failed in the symlink frame scenario")
            if variant == "outside":
                target = os.path.join(a.root, "outside.bin")
                with open(target, "wb") as f:
                    f.write(b"not a part of the array\n" * 150)
                os.utime(target, ns=(1500000000 * 10**9 + 7, 1500000000 * 10**9 + 7))
            else:
                target = a.path(1, "B")

            def snap():
                st = os.lstat(target)
                return (open(target, "rb").read(), st.st_mtime_ns, st.st_size)
            before = snap()
            os.remove(a.path(0, "A"))
            os.symlink(target, a.path(0, "A"))
            for cmd in (("check",), ("diff",), ("fix",), ("scrub", "-p", "full"), ("fix", "-m"), ("fix", "-f", "A"), ("check", "-a")):
                a.run(*cmd)
                n += 1
                if not os.path.exists(target) or snap() != before:
                    v.violation("'%s' wrote through a symbolic link standing where the recorded file d0/A was: the file it points to "
                                "(%s the array) was modified" % (" ".join(cmd), variant),
                                replay_obj={"kind": "symlink-frame", "variant": variant, "command": list(cmd)}, signature="written-through-symlink")
                    break
        finally:
            a.destroy()
    cov["frame_through_symlink_commands"] = n
    # the last name of a file: A and L are two names of one file (A recorded as the file, L as a hard link to it); A is deleted;
    # a fix that selects only the link (its target is outside the selection and cannot be re-created) must leave the remaining
    # name and its bytes alone - it is the only copy of the data on the disk
    m = 0
    for sel in (("-f", "L"), ("-f", "L", "-m"), ("-d", "d2")):
        a = arr.Array(arr.Conf(nd=2, np=1, copies=2), seed=vlib.seed() * 10 + 7)
        try:
            a.write_file(0, "A", [1, 2], mtime=11)
            os.link(a.path(0, "A"), a.path(0, "L"))
            a.write_file(0, "K", [5], mtime=12)
            a.write_file(1, "B", [3, 4], mtime=13)
            if a.run("sync").rc != 0:
                raise vlib.ToolFailure("sync failed in the hard link frame scenario")
            want = open(a.path(0, "L"), "rb").read()
            os.remove(a.path(0, "A"))
            a.run("fix", *sel)
            m += 1
            if not os.path.exists(a.path(0, "L")) or open(a.path(0, "L"), "rb").read() != want:
                v.violation("'fix %s' removed or changed d0/L, the remaining name of a file whose other name (outside the selection) is gone"
                            % " ".join(sel), replay_obj={"kind": "hardlink-frame", "options": list(sel)}, signature="last-hardlink-name-removed")
                break
        finally:
            a.destroy()
    cov["frame_last_hardlink_name_commands"] = m


def run(tier):
    return arrayprop.standard_run(
        "C12", tier, profiles=["mixed", "damage", "filters", "ranges", "syncheavy", "filters"], nquick=36, nthorough=300, sim=False, extra=through_symlink,
        directed_jobs=lambda s0: [(s0 + k, dict(nd=2, np=2, copies=2), "directed-fixframes", 0, directed.fix_frames) for k in (1, 2, 3)],
        rule="before and after every real command byte-level digests of the data trees (names, bytes, ns mtimes, links), of "
             "every parity stream, of every content copy and the list of all other files are recorded; TLC checks the frame "
             "of the command (C12_Frame) on every step: check/diff change nothing, scrub only content, sync no data file, "
             "fix no content file, no artefact other than the lock file beside the first content copy")
