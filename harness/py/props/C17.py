"""C17 Parity split over several files behaves as one parity.

Model side (TLC):
  * spec/SplitMapFill.tla : the growth loop of parity_handle_fill (binary search under a limit) ends at the closed form
                            SplitMap!GrowTo, for all block sizes, present sizes, targets, limits (aligned or not);
  * spec/SplitMapMC.tla   : all sequences of <= MaxSteps grow / shrink / lose a file / fix / junk tail / drop / add a split,
                            1..KMax splits, all per-split limits: Lookup is a bijection determined by the recorded sizes, no
                            stripe straddles, what was written is read back, only the last used split grows, shrinking
                            empties trailing splits, an unused trailing split can be dropped;
                            with limits that change between commands TLC exhibits the recorded finding F8.
Binding (real binary):
  * twin arrays, same data, same seed, same frozen clock: one with every parity level split over k files and
    --test-parity-limit N (the per-split limits are recomputed here as parity.c:29 does), one with single-file parity;
    after every step of a growth / shrink / out-of-space / junk-tail / drop-a-split / add-a-split history: the split files cut
    at the recorded sizes (independent content decoder) hold byte for byte the parity of the twin, no stripe straddles,
    sizes add up, and the parity recomputed independently from the data (observer) is what is stored at every used position;
  * every (sizes before, file sizes before, limits, total) -> (sizes after, file sizes after) step of sync and fix is validated
    by TLC against SplitMap!Chsize and the declarative ResizeOK / PlacesKept (spec/SplitMapTrace.tla);
  * C01 / C06 on the split array: lose a data disk and split files (within the parity count), fix, compare every data file
    with what was there before, parity with the twin, check clean.
"""
import json, os, random, re, shutil, time, traceback, multiprocessing, hashlib
import vlib, arr, observer, content
from arr import BS

NOGEN = ["-noGenerateSpecTE"]
F8 = "F8-empty-split-before-used-split-regrows"
F9 = "F9-rebuilt-split-cut-before-unused-stripes-check-read-errors"


def plimit(n, s, l):
    """cmdline/parity.c:29 PARITY_LIMIT: unsigned 32-bit arithmetic, then modulo the 64-bit size"""
    if not n:
        return 0
    x = (123562341 + s * 634542351 + l * 983491341) & 0xFFFFFFFF
    return n + x % n


# ---------------------------------------------------------------------------------------
# TLC on the models

def _cfg(name, text):
    p = os.path.join(vlib.OUT, "md", name + ".cfg")
    os.makedirs(os.path.dirname(p), exist_ok=True)
    with open(p, "w") as f:
        f.write(text)
    return p


def run_tlc_retry(module, **kw):
    for attempt in range(4):
        r = vlib.run_tlc(module, **kw)
        if "Parsing or semantic analysis failed" in r.out and attempt < 3:
            time.sleep(20)
            continue
        return r
    return r


def tlc(module, cfg, timeout=2400, workers=16, xmx="12g"):
    r = run_tlc_retry(module, cfg=cfg, workers=workers, timeout=timeout, extra=NOGEN, tag=os.path.basename(cfg), xmx=xmx)
    if not r.violated:
        m = re.search(r"Temporal property (\S+) was violated", r.out)
        if m:
            r.violated = m.group(1)
    if r.error and not r.violated:
        raise vlib.ToolFailure("TLC %s %s: %s\n%s" % (module, cfg, r.error, r.out[-3000:]))
    return r


def mc_cfg(name, kmax, maxblocks, limits, steps, vary=False, props=None):
    props = props or ["INVARIANT SumOK", "INVARIANT MapOK", "INVARIANT LookupOK", "INVARIANT ReadBack", "INVARIANT FilesFit",
                      "PROPERTY StepOK"]
    return _cfg(name, "SPECIFICATION Spec\nCONSTANTS\n  B = 2\n  KMax = %d\n  MaxBlocks = %d\n  LimitSet = {%s}\n  VaryLimits = %s\n"
                      "  MaxSteps = %d\n%s\nCHECK_DEADLOCK FALSE\n"
                % (kmax, maxblocks, ", ".join(map(str, limits)), "TRUE" if vary else "FALSE", steps, "\n".join(props)))


def model_part(v, tier, cov):
    quick = tier != "thorough"
    states = trans = 0
    runs = []

    def note(what, r, expect=False):
        nonlocal states, trans
        states += r.distinct
        trans += r.generated
        runs.append({"run": what, "distinct": r.distinct, "generated": r.generated, "violated": r.violated,
                     "expected_violation": expect, "wall_s": round(r.wall, 1)})

    r = tlc("SplitMapFill", "SplitMapFill.cfg", timeout=900)
    note("SplitMapFill: growth loop = closed form, block sizes 1/2/4/8, sizes and limits 0..40", r)
    if r.violated:
        v.violation("TLC: the growth loop of parity_handle_fill does not end at the largest aligned size within the limit (%s):\n%s"
                    % (r.violated, "".join(r.trace)[-1500:]), {"kind": "tlc-trace", "trace": r.trace}, signature="model-fill")
    if quick:
        k, mb, lim, st = 3, 4, [0, 1, 2, 3, 4, 5], 5
    else:
        k, mb, lim, st = 4, 4, [0, 1, 3, 4, 5], 5
    r = tlc("SplitMapMC", mc_cfg("C17-mc", k, mb, lim, st))
    note("SplitMapMC: 1..%d splits, <= %d stripes, block 2 units, limits %s (0 = none), all sequences of <= %d steps" % (k, mb, lim, st), r)
    if r.violated:
        v.violation("TLC: %s fails on SplitMapMC with constant limits:\n%s" % (r.violated, "".join(r.trace)[-2500:]),
                    {"kind": "tlc-trace", "trace": r.trace}, signature="model-" + str(r.violated))
    # limits that change between commands (free space of the parity disks): the recorded finding
    r = tlc("SplitMapMC", mc_cfg("C17-mc-vary", 3, 4, [0, 1, 2, 3, 4, 5], 5, vary=True, props=["PROPERTY StepOK"]), timeout=900)
    note("SplitMapMC with limits that change between commands: a sync moves recorded stripes (finding F8 expected)", r, True)
    cov["model_exhibits_F8"] = bool(r.violated)
    if r.violated:
        v.violation("TLC on SplitMapMC, limits changing between commands: an empty split in front of a used one is taken as the "
                    "growing split (parity_split_is_fixed looks at the next split only); when it gets room, recorded stripes change "
                    "place:\n%s" % "".join(r.trace)[-2500:], {"kind": "tlc-trace", "trace": r.trace}, signature=F8)
    cov["model_runs"] = runs
    return states, trans


# ---------------------------------------------------------------------------------------
# twin arrays

class SplitObserver(observer.Observer):
    """the shared observer concatenates the split files cut at the recorded sizes; after a fix a rebuilt split may be
    shorter than recorded (cut at the last stripe that has data): pad it so that later splits stay in place"""

    def parity_bytes(self, l, psizes):
        data = b""
        n = self.a.conf.splits[l]
        for s in range(n):
            p = self.a.pfile(l, s)
            b = b""
            if os.path.exists(p):
                with open(p, "rb") as f:
                    b = f.read()
            if psizes and s < len(psizes) and psizes[s] is not None:
                b = b[:psizes[s]] + b"\xa5" * max(0, psizes[s] - len(b))
            data += b
        return data


class Diverged(Exception):
    pass


class Twin:
    keep_going = False

    def __init__(self, seed, nd, np_, ks, n, data_seed=None):
        self.rng = random.Random(seed)
        self.seed, self.nd, self.np, self.n = seed, nd, np_, n
        ds = seed if data_seed is None else data_seed
        self.A = arr.Array(arr.Conf(nd=nd, np=np_, copies=1, splits=list(ks)), seed=ds)
        self.T = arr.Array(arr.Conf(nd=nd, np=np_, copies=1), seed=ds)
        self.T.clock = self.A.clock
        self.obs = SplitObserver(self.A)
        self.events = []          # resize steps for TLC
        self.problems = []        # (signature, text)
        self.steps = []
        self.const = True         # limits unchanged and no file beyond its limit so far
        self.pristine = True      # no parity file was lost / rebuilt: the whole streams must be identical
        self.nextv = 1
        self.tick = 10
        self.notes = []
        self.counts = {"sync": 0, "fix": 0, "grow": 0, "shrink": 0, "cross": 0, "oos": 0, "tail": 0, "drop": 0, "add": 0,
                       "loss": 0, "positions_compared": 0}
        for d in range(nd):
            self.write(d, "zz", [self.val()])

    # ---- data
    def val(self, short=False):
        v = self.nextv
        self.nextv += 1
        return ('s', v) if short else v

    def write(self, d, name, vals):
        self.tick += 1
        for a in (self.A, self.T):
            a.write_file(d, name, vals, mtime=self.tick)

    def remove(self, d, name):
        for a in (self.A, self.T):
            if os.path.lexists(a.path(d, name)):
                a.remove(d, name)

    def files(self, d):
        p = self.A.ddir(d)
        return sorted(f for f in os.listdir(p) if os.path.isfile(os.path.join(p, f)))

    def problem(self, sig, text):
        self.problems.append((sig, text))
        self.steps.append("!! %s: %s" % (sig, text[:300]))
        if sig != F9 and not self.keep_going:
            raise Diverged()              # the twins are no longer comparable: the history ends here

    # ---- observation
    def cs(self, a):
        p = a.cfile(0)
        if not os.path.exists(p):
            return None
        return content.load(p)

    def rec_sizes(self, cs, l):
        """recorded sizes of level l (None where the content has no record)"""
        k = self.A.conf.splits[l]
        out = [None] * k
        if cs:
            for p in cs["parity"]:
                if p["level"] == l:
                    for s, sp in enumerate(p["splits"][:k]):
                        out[s] = sp["size"]
        return out

    def fsizes(self, l):
        return [os.path.getsize(self.A.pfile(l, s)) if os.path.exists(self.A.pfile(l, s)) else 0
                for s in range(self.A.conf.splits[l])]

    def lims(self, l, n=None):
        n = self.n if n is None else n
        return [plimit(n, s, l) for s in range(self.A.conf.splits[l])]

    def used_positions(self, cs):
        used = set()
        for dd in cs["disks"].values():
            for f in dd["files"]:
                for pos, st, h in f["blocks"]:
                    used.add(pos)
        return used

    def split_block(self, l, sizes, p):
        """block of stripe p of level l through the recorded sizes (harness-side lookup), None if the file is too short"""
        off = p * BS
        for s, sz in enumerate(sizes):
            if off < sz:
                if off + BS > sz:
                    return "STRADDLE"
                f = self.A.pfile(l, s)
                if not os.path.exists(f):
                    return None
                with open(f, "rb") as fh:
                    fh.seek(off)
                    b = fh.read(BS)
                return b if len(b) == BS else None
            off -= sz
        return None

    def compare(self, what, after_fix=False):
        """the split array against its single-file twin and against the independent parity oracle"""
        ca, ct = self.cs(self.A), self.cs(self.T)
        if ca is None or ct is None:
            return self.problem("no-content", what)
        if ca["blockmax"] != ct["blockmax"]:
            return self.problem("twin-blockmax", "%s: blockmax %d vs twin %d" % (what, ca["blockmax"], ct["blockmax"]))
        bmax = ca["blockmax"]
        used = self.used_positions(ca)
        pr = None
        for l in range(self.np):
            sizes = self.rec_sizes(ca, l)
            if any(s is None for s in sizes):
                if self.A.conf.splits[l] == 1 and ca["hash_size"] == 16 and all(self.A.conf.splits[x] == 1 for x in range(self.np)):
                    sizes = self.fsizes(l)                     # format 2 has no size record (single file everywhere)
                else:
                    return self.problem("size-not-recorded", "%s: level %d sizes %r" % (what, l, sizes))
            fs = self.fsizes(l)
            if any(s % BS for s in sizes):
                self.problem("straddle", "%s: level %d recorded sizes %r are not multiples of the block size" % (what, l, sizes))
            if sum(sizes) != bmax * BS:
                self.problem("sizes-sum", "%s: level %d sizes %r sum to %d, array has %d stripes" % (what, l, sizes, sum(sizes), bmax))
            if not after_fix and fs != sizes:
                self.problem("file-size-differs", "%s: level %d files %r, recorded %r" % (what, l, fs, sizes))
            if after_fix and any(f > s for f, s in zip(fs, sizes)):
                self.problem("file-longer-than-recorded", "%s: level %d files %r, recorded %r" % (what, l, fs, sizes))
            tp = self.T.pfile(l, 0)
            tb = open(tp, "rb").read() if os.path.exists(tp) else b""
            if self.pristine and not after_fix:
                stream = b"".join((open(self.A.pfile(l, s), "rb").read() if os.path.exists(self.A.pfile(l, s)) else b"")[:sizes[s]]
                                  for s in range(len(sizes)))
                if stream != tb:
                    self.problem("stream-differs", "%s: level %d: concatenation of the splits (%d bytes, sizes %r) differs from the "
                                 "single-file parity (%d bytes)" % (what, l, len(stream), sizes, len(tb)))
            bad = []
            for p in sorted(used):
                b = self.split_block(l, sizes, p)
                t = tb[p * BS:(p + 1) * BS]
                self.counts["positions_compared"] += 1
                if b == "STRADDLE" or b is None or b != t:
                    bad.append(p)
            if bad:
                self.problem("parity-differs-from-twin", "%s: level %d stripes %r (sizes %r, files %r)" % (what, l, bad, sizes, fs))
        # independent oracle: the parity recomputed from the version store at every used, fully synced position
        pr = self.obs.project()
        cont = pr["cont"][0]
        if isinstance(cont, dict):
            want = {}
            unsynced = set()
            for d, fl in cont["files"].items():
                for name, f in fl.items():
                    for pos, st, hv in f["bl"]:
                        want.setdefault(pos, {})[d] = hv
                        if st != "BLK":
                            unsynced.add(pos)
            for d, dl in cont["del"].items():
                for pos in dl:
                    unsynced.add(int(pos))
            for l in range(self.np):
                row = pr["par"][l]
                wrong = []
                for p, w in sorted(want.items()):
                    if p in unsynced:
                        continue
                    cell = row[p] if p < len(row) else "ABSENT"
                    if not isinstance(cell, list) or not any(c == w for c in cell):
                        wrong.append(p)
                if wrong:
                    self.problem("parity-not-of-data", "%s: level %d stripes %r do not hold the parity of the recorded blocks" % (what, l, wrong))

    # ---- commands
    def runA(self, cmd, *args, n=None):
        n = self.n if n is None else n
        lim = ["--test-parity-limit", str(n)] if n else []
        cs0 = self.cs(self.A)
        fs0 = [self.fsizes(l) for l in range(self.np)]
        r = self.A.run(cmd, *lim, *args)
        if cmd not in ("sync", "fix"):
            return r
        cs1 = self.cs(self.A)
        fs1 = [self.fsizes(l) for l in range(self.np)]
        failed_level = None
        m = re.search(r"Without a(?:n accessible| usable) (\S+) file, it isn't possible", r.err)
        if m:
            names = ["Parity", "2-Parity", "3-Parity", "4-Parity", "5-Parity", "6-Parity"]
            failed_level = names.index(m.group(1)) if m.group(1) in names else 0
        saved = r.rc == 0 or failed_level is None
        if cmd == "sync":
            total = (cs1["blockmax"] if cs1 else 0) * BS
            m = re.search(r"You miss (\d+) bytes", r.err)
            if failed_level is not None and m:
                total = sum(fs1[failed_level]) + int(m.group(1))      # what was asked = what was obtained + what is missing
        else:
            total = (cs0["blockmax"] if cs0 else 0) * BS
        for l in range(self.np):
            if failed_level is not None and l > failed_level:
                break
            rec0 = self.rec_sizes(cs0, l)
            rec1 = self.rec_sizes(cs1, l)
            sizes0 = [fs0[l][s] if rec0[s] is None else rec0[s] for s in range(len(rec0))]
            ok = failed_level is None or l < failed_level
            if cmd == "sync" and ok and not saved:
                continue                      # resized in memory and on disk, but the command stopped before saving
            if cmd == "sync" and ok:
                sizes1 = [fs1[l][s] if rec1[s] is None else rec1[s] for s in range(len(rec1))]
            else:
                sizes1 = list(sizes0)         # fix records nothing; a failed sync saves nothing
                if rec1 != rec0:
                    self.problem("records-changed", "%s of level %d changed the recorded sizes %r -> %r" % (cmd, l, rec0, rec1))
            self.events.append({"B": BS, "cmd": cmd, "level": l, "sizes0": sizes0, "fs0": fs0[l], "lims": self.lims(l, n),
                                "total": total, "ok": ok, "sizes1": sizes1, "fs1": fs1[l], "const": self.const,
                                "recorded": all(x is not None for x in rec0),
                                "step": len(self.steps), "seed": self.seed})
        return r

    def sync(self, what, n=None):
        """sync the split array, then its twin.  If the split array runs out of parity space the twin is NOT synced
        (returns (result, None)): its allocation history must stay the one of the split array."""
        before = [self.rec_sizes(self.cs(self.A), l) for l in range(self.np)]
        ra = self.runA("sync", n=n)
        self.counts["sync"] += 1
        after = [self.rec_sizes(self.cs(self.A), l) for l in range(self.np)]
        if ra.rc != 0 and "Failed to allocate all the required parity space" in ra.err:
            self.steps.append("%s; sync -> rc %d (out of parity space) sizes %r" % (what, ra.rc, after))
            return ra, None
        rt = self.T.run("sync")
        self.steps.append("%s; sync -> rc %d (twin %d) sizes %r" % (what, ra.rc, rt.rc, after))
        for l in range(self.np):
            b = [x or 0 for x in before[l]]
            a = [x or 0 for x in after[l]]
            if sum(a) > sum(b):
                self.counts["grow"] += 1
            if sum(a) < sum(b):
                self.counts["shrink"] += 1
            if sum(1 for x in a if x) != sum(1 for x in b if x):
                self.counts["cross"] += 1
        if rt.rc != 0 or ra.rc != 0:
            self.problem("sync-failed", "%s: rc %d, twin %d: %s" % (what, ra.rc, rt.rc, (ra.err if ra.rc else rt.err)[-300:]))
            return ra, rt
        self.compare(what)
        return ra, rt

    def check(self, what):
        rt = self.T.run("check")
        ra = self.runA("check")
        self.steps.append("%s; check -> rc %d (twin %d)" % (what, ra.rc, rt.rc))
        ea = sorted(tuple(t[:4]) for t in ra.tags if t[0] in ("error", "parity_error"))
        et = sorted(tuple(t[:4]) for t in rt.tags if t[0] in ("error", "parity_error"))
        extra = [e for e in ea if e not in et]
        ca = self.cs(self.A)
        used = self.used_positions(ca) if ca else set()
        if extra and not [e for e in et if e not in ea] and \
                all(e[0] == "parity_error" and e[1].isdigit() and int(e[1]) not in used and "Read error" in e[3] for e in extra):
            # a rebuilt split file ends at its last stripe with data; the unused stripes behind it cannot be read
            self.problem(F9, "%s: check rc %d (twin %d): read errors on unused stripes %r of rebuilt split files; files %r, recorded %r"
                         % (what, ra.rc, rt.rc, sorted(set(int(e[1]) for e in extra)), [self.fsizes(l) for l in range(self.np)],
                            [self.rec_sizes(ca, l) for l in range(self.np)]))
        elif ra.rc != rt.rc or ea != et:
            self.problem("check-differs-from-twin", "%s: check rc %d %r, twin rc %d %r" % (what, ra.rc, ea[:4], rt.rc, et[:4]))
        elif ra.rc != 0:
            # the same complaints on the single-file twin: not a matter of splitting (noted for C01)
            self.counts["check_errors_same_as_twin"] = self.counts.get("check_errors_same_as_twin", 0) + 1
            self.notes.append("%s: check rc %d on both arrays: %r" % (what, ra.rc, ea[:4]))

    # ---- history steps
    def capacity(self, l):
        return sum(x // BS for x in self.lims(l)) if self.n else 10**6

    def grow(self):
        rng = self.rng
        added = []
        for _ in range(rng.randint(1, 3)):
            d = rng.randrange(self.nd)
            name = rng.choice("ABEFKMQ") + str(rng.randint(0, 4))
            nb = rng.randint(1, 4)
            vals = [self.val() for _ in range(nb)]
            if rng.random() < 0.3:
                vals[-1] = self.val(short=True)
            self.write(d, name, vals)
            added.append((d, name))
        ra, rt = self.sync("add %s" % ",".join("%d/%s" % x for x in added))
        if rt is None:
            # out of parity space on the split array: content not saved, files partly grown; undo the addition or add a split
            self.counts["oos"] += 1
            lv = [l for l in range(self.np) if self.A.conf.splits[l] < 8]
            if lv and rng.random() < 0.5:
                for l in range(self.np):
                    if self.A.conf.splits[l] < 8:
                        self.A.conf.splits[l] += 1
                self.A.write_conf()
                self.counts["add"] += 1
                ra, rt = self.sync("out of parity space: one more split per level %r" % self.A.conf.splits)
                if rt is not None:
                    return
            for d, name in added:
                if os.path.exists(self.A.path(d, name)):
                    self.remove(d, name)
            ra, rt = self.sync("out of parity space: additions removed again")
            if rt is None:
                self.problem("sync-failed-after-undo", ra.err[-400:])

    def shrink(self):
        """delete the files that hold the highest positions, so that the array (and its parity) gets shorter"""
        rng = self.rng
        cs = self.cs(self.A)
        if not cs or cs["blockmax"] < 2:
            return
        target = rng.randint(1, cs["blockmax"] - 1)
        names = [n.encode() for n in self.A.conf.disk_names]
        gone = []
        for dd in cs["disks"].values():
            if dd["name"] not in names:
                continue
            d = names.index(dd["name"])
            for f in dd["files"]:
                sub = f["sub"].decode("latin1")
                if sub != "zz" and any(pos >= target for pos, st, h in f["blocks"]) and os.path.exists(self.A.path(d, sub)):
                    self.remove(d, sub)
                    gone.append("%d/%s" % (d, sub))
        if gone:
            self.sync("delete " + ",".join(gone) + " (everything from stripe %d on)" % target)

    def tail(self):
        """a split file has an extra block at its end (growth that was interrupted before the content was saved)"""
        rng = self.rng
        l = rng.randrange(self.np)
        s = rng.randrange(self.A.conf.splits[l])
        f = self.A.pfile(l, s)
        if not os.path.exists(f):
            return
        lim = self.lims(l)[s]
        if lim and os.path.getsize(f) + BS > lim:
            return                        # would be beyond the capacity of that disk
        with open(f, "ab") as fh:
            fh.write(hashlib.sha256(b"tail%d" % rng.getrandbits(60)).digest() * (BS // 32))
        self.counts["tail"] += 1
        self.pristine = False
        if rng.random() < 0.5:
            self.fix("junk block at the end of level %d split %d" % (l, s))
        else:
            self.grow()

    def drop_split(self):
        """remove unused trailing splits from the configuration (and try to remove a used one: must be refused)"""
        cs = self.cs(self.A)
        if not cs:
            return
        done = []
        for l in range(self.np):
            sizes = self.rec_sizes(cs, l)
            k = len(sizes)
            if k > 1 and sizes[-1] == 0 and (k > 2 or self.rng.random() < 0.3):
                # one or several unused trailing splits at once (the first split always stays)
                tz = 0
                while tz < k - 1 and sizes[k - 1 - tz] == 0:
                    tz += 1
                self.A.conf.splits[l] = k - self.rng.randint(1, tz)
                done.append(l)
        if done:
            self.A.write_conf()
            self.counts["drop"] += 1
            self.check("unused trailing split dropped from the configuration of levels %r" % done)
            self.grow() if self.rng.random() < 0.5 else self.shrink()
            return
        # no unused trailing split: removing a used one must be refused without touching anything
        l = self.rng.randrange(self.np)
        sizes = self.rec_sizes(cs, l)
        if len(sizes) > 1 and sizes[-1]:
            snap = (open(self.A.cfile(0), "rb").read(), [self.fsizes(x) for x in range(self.np)])
            conf2 = os.path.join(self.A.root, "snapraid.short.conf")
            keep = self.A.conf.splits[l]
            self.A.conf.splits[l] = keep - 1
            self.A.write_conf(path=conf2)
            self.A.conf.splits[l] = keep
            r = self.A.run("sync", "--test-parity-limit", str(self.n), conf=conf2)
            os.remove(conf2)
            self.steps.append("used split removed from the configuration; sync -> rc %d" % r.rc)
            if r.rc == 0 or snap != (open(self.A.cfile(0), "rb").read(), [self.fsizes(x) for x in range(self.np)]):
                self.problem("used-split-dropped", "sync with level %d configured without its used last split: rc %d" % (l, r.rc))

    def fix(self, what, *args):
        ra = self.runA("fix", *args)
        self.counts["fix"] += 1
        self.pristine = False
        self.steps.append("%s; fix -> rc %d" % (what, ra.rc))
        if ra.rc != 0:
            self.problem("fix-failed", "%s: rc %d %s" % (what, ra.rc, ra.err[-300:]))
            return ra
        self.compare(what, after_fix=True)
        return ra

    def loss_and_fix(self):
        """C01 on the split array: lose up to np devices, among them split files; fix; compare; check"""
        rng = self.rng
        cs = self.cs(self.A)
        if not cs or not cs["blockmax"]:
            return
        snap = {d: self.A.snapshot_tree(self.A.conf.disk_names[d]) for d in range(self.nd)}
        lost = []
        levels = list(range(self.np))
        rng.shuffle(levels)
        budget = self.np
        if budget >= 2 or rng.random() < 0.4:
            d = rng.randrange(self.nd)
            self.A.lose_disk(d)
            self.T.lose_disk(d)
            lost.append("disk %d" % d)
            budget -= 1
        for l in levels[:budget]:
            sizes = self.rec_sizes(cs, l)
            usedsp = [s for s, z in enumerate(sizes) if z]
            if not usedsp:
                continue
            # one failed device = one disk; splits of a level lie on different disks: lose one of them, sometimes all
            which = usedsp if rng.random() < 0.25 else [rng.choice(usedsp)]
            for s in which:
                if os.path.exists(self.A.pfile(l, s)):
                    os.remove(self.A.pfile(l, s))
            self.T.lose_parity(l)              # the twin loses the equivalent device: the whole level
            lost.append("level %d splits %r" % (l, which))
        self.counts["loss"] += 1
        what = "lose " + ", ".join(lost)
        rt = self.T.run("fix")
        if rt.rc != 0:
            self.problem("twin-fix-failed", what + ": " + rt.err[-300:])
        ra = self.fix(what)
        if ra.rc == 0:
            now = {d: self.A.snapshot_tree(self.A.conf.disk_names[d]) for d in range(self.nd)}
            for d in range(self.nd):
                a = {k: (x[0], x[1], x[2], x[4]) for k, x in snap[d].items()}
                b = {k: (x[0], x[1], x[2], x[4]) for k, x in now[d].items()}
                if a != b:
                    diff = sorted(k for k in set(a) | set(b) if a.get(k) != b.get(k))
                    self.problem("fix-did-not-restore", "%s: disk %d files %r differ from before the loss" % (what, d, diff[:5]))
            self.check("after fix")

    def history(self, nsteps):
        rng = self.rng
        self.grow()
        for _ in range(nsteps):
            x = rng.random()
            if x < 0.40:
                self.grow()
            elif x < 0.65:
                self.shrink()
            elif x < 0.75:
                self.tail()
            elif x < 0.85:
                self.drop_split()
            elif x < 0.92:
                self.check("reopen")
            else:
                self.loss_and_fix()
        self.loss_and_fix()
        self.shrink()
        self.grow()

    def directed_f8(self):
        """an earlier split had no room for even one block when parity was first allocated, later it has"""
        small = next(n for n in range(513, 1024) if plimit(n, 0, 0) < BS and plimit(n, 1, 0) < BS and plimit(n, 2, 0) >= BS)
        self.n = small
        self.sync("first sync, limits %r: only the third file has room" % self.lims(0))
        self.check("after the first sync")
        self.const = False
        self.n = 100000
        self.write(1, "B", [self.val(), self.val()])
        self.sync("room appears on the first parity disk (limits %r), one more stripe" % self.lims(0))
        self.check("after the second sync")

    def directed_more_room(self):
        """every configured split is in use (no empty one in front of a used one), then every disk gets more room: only the last
        split may grow, the recorded stripes of the full splits stay where they are"""
        rng = self.rng
        n = next(n for n in range(2 * BS + 3, 40 * BS) if all(2 * BS <= plimit(n, s, 0) < 6 * BS for s in range(3)))
        self.n = n
        need = sum(x // BS for x in self.lims(0)[:2]) + 2
        vals = [self.val() for _ in range(need)]
        self.write(0, "A", vals[:need // 2]); self.write(1, "B", vals[need // 2:])
        self.write(0, "C", [self.val() for _ in range(need - need // 2)])
        self.sync("first sync, limits %r: all three splits are in use" % self.lims(0))
        self.check("after the first sync")
        self.const = False
        self.n = 3 * n + 1
        self.write(1, "D", [self.val(), self.val(), self.val()])
        self.sync("more room on every parity disk (limits %r), three more stripes" % self.lims(0))
        self.check("after the second sync")
        self.loss_and_fix()

    def directed_less_room(self):
        """three of four configured splits are in use; the file of a split that is followed by used ones is lost and its disk is
        replaced by a smaller one (one block less room than its recorded size) while the later splits could take that block: fix
        cannot bring the split back to its recorded size and must stop without touching the other splits (the map is fixed by the
        recorded sizes, the stripes behind must not move); with the room back, fix restores everything"""
        n = next(n for n in range(2 * BS + 3, 40 * BS) if all(3 * BS <= plimit(n, s, 0) < 4 * BS for s in range(4)))
        self.n = n
        vals = [self.val() for _ in range(16)]
        self.write(0, "A", vals[:8]); self.write(1, "B", vals[8:])
        self.sync("first sync, limits %r: three splits are in use" % self.lims(0))
        self.check("after the first sync")
        which = self.rng.randrange(2)
        keep = {s: open(self.A.pfile(0, s), "rb").read() for s in range(4) if s != which and os.path.exists(self.A.pfile(0, s))}
        os.remove(self.A.pfile(0, which))
        self.const = False
        n2 = next(m for m in range(BS + 1, n) if 2 * BS <= plimit(m, which, 0) < 3 * BS)
        ra = self.runA("fix", n=n2)
        self.steps.append("split %d of level 0 lost, its disk now has room for %d bytes only (limits %r); fix -> rc %d"
                          % (which, plimit(n2, which, 0), self.lims(0, n2), ra.rc))
        if ra.rc == 0:
            self.problem("fix-accepted-a-short-fixed-split", "fix ended with status 0 although split %d could not be restored to its recorded size" % which)
        for s, b in keep.items():
            if open(self.A.pfile(0, s), "rb").read()[:len(b)] != b:
                self.problem("fix-changed-other-splits", "split %d was rewritten by a fix that could not restore split %d" % (s, which))
        # the room is back: everything is restored
        self.T.lose_parity(0)
        rt = self.T.run("fix")
        self.fix("room for split %d is back" % which)
        self.check("after fix")

    def close(self):
        self.A.destroy()
        self.T.destroy()


def choose_limit(rng, ks, np_):
    """N for --test-parity-limit: unaligned, at least one block, total capacity of a level between ~5 and ~20 blocks"""
    for _ in range(100):
        target = rng.choice([8, 12, 20, 30])
        n = max(BS, int(BS * target / max(1, min(ks)) * rng.uniform(0.35, 0.8))) + rng.randrange(BS)
        if all(sum(plimit(n, s, l) // BS for s in range(ks[l])) >= 4 for l in range(np_)):
            return n
    return 8 * BS + 7


def _scenario(job):
    seed, nd, np_, kmax, kind, nsteps, data_seed = job
    t = None
    try:
        rng = random.Random(seed * 7 + 1)
        if kind == "f8":
            t = Twin(seed, 2, 1, [3], 0, data_seed)
            t.keep_going = True
            t.directed_f8()
        elif kind == "more-room":
            t = Twin(seed, 2, 1, [3], 0, data_seed)
            try:
                t.directed_more_room()
            except Diverged:
                pass
        elif kind == "less-room":
            t = Twin(seed, 2, 1, [4], 0, data_seed)
            try:
                t.directed_less_room()
            except Diverged:
                pass
        else:
            ks = [rng.randint(1, kmax) for _ in range(np_)]
            if kind == "wide":
                ks = [kmax] * np_
            n = choose_limit(rng, ks, np_)
            t = Twin(seed, nd, np_, ks, n, data_seed)
            t.steps.append("splits %r, --test-parity-limit %d, limits %r" % (ks, n, [t.lims(l) for l in range(np_)]))
            try:
                t.history(nsteps)
            except Diverged:
                pass
        return {"seed": seed, "nd": nd, "np": np_, "kind": kind, "kmax": kmax, "nsteps": nsteps, "events": t.events,
                "problems": t.problems, "notes": t.notes, "steps": t.steps, "counts": t.counts, "splits": list(t.A.conf.splits), "n": t.n, "err": None}
    except Exception:
        return {"seed": seed, "kind": kind, "err": traceback.format_exc()}
    finally:
        if t:
            t.close()


def validate(events, tag):
    """TLC validation of resize events against SplitMapTrace.tla; returns (list of (event index, diag), states)"""
    os.makedirs(os.path.join(vlib.OUT, "traces"), exist_ok=True)
    findings, states = [], 0
    base = 0
    rest = list(events)
    part = 0
    while rest:
        part += 1
        path = os.path.join(vlib.OUT, "traces", "%s-%d.ndjson" % (tag, part))
        with open(path, "w") as f:
            for e in rest:
                f.write(json.dumps(e) + "\n")
        cfg = _cfg("%s-%d" % (tag, part), "SPECIFICATION Spec\nINVARIANT Conforms\nPOSTCONDITION Accepted\nCHECK_DEADLOCK FALSE\n")
        r = run_tlc_retry("SplitMapTrace", cfg=cfg, workers=1, env={"TRACE": path}, timeout=900, xmx="4g", extra=NOGEN,
                          tag="%s-%d" % (tag, part))
        states += r.distinct
        os.remove(path)
        if not r.violated:
            if r.error or r.distinct != len(rest) + 1:
                raise vlib.ToolFailure("trace validation failed: %s (%d states for %d lines)\n%s" % (r.error, r.distinct, len(rest), r.out[-3000:]))
            break
        last = r.out[r.out.rfind("State "):]
        m = re.search(r"/\\ diag = (.*?)(?=\n/\\ |\n\n|\Z)", last, re.S)
        diag = m.group(1)[:2500] if m else str(r.violated)
        m = re.search(r'<<\s*"(?:sync|fix)",\s*(\d+)', diag)
        idx = int(m.group(1)) if m else 1
        findings.append((base + idx - 1, diag))
        if len(findings) >= 8:
            break                         # enough to report; each further finding costs one more TLC run
        rest = rest[idx:]
        base += idx
    return findings, states


def diag_sig(diag):
    bad = re.findall(r"(\w+) \|-> FALSE", diag.split("]")[0])
    return "resize-" + "+".join(sorted(bad)) if bad else "resize-step"


def binding_part(v, tier, cov):
    quick = tier != "thorough"
    s0 = vlib.seed() * 100000
    kmax = 4 if quick else 8
    shapes = [(2, 1), (2, 2), (3, 2), (3, 3), (2, 3), (3, 1)]
    nrand, nsteps = (48, 9) if quick else (420, 14)
    jobs = [(s0 + 700, 2, 1, 3, "f8", 0, None), (s0 + 701, 2, 1, 3, "more-room", 0, None), (s0 + 702, 2, 1, 3, "more-room", 0, None),
            (s0 + 703, 2, 1, 3, "less-room", 0, None), (s0 + 704, 2, 1, 3, "less-room", 0, None)]
    for i in range(nrand):
        nd, np_ = shapes[i % len(shapes)]
        jobs.append((s0 + 2000 + i, nd, np_, kmax, "wide" if i % 5 == 4 else "random", nsteps, None))
    with multiprocessing.Pool(8) as pool:
        scs = pool.map(_scenario, jobs, chunksize=1)
    for s in scs:
        if s.get("err"):
            raise vlib.ToolFailure("scenario failed: " + s["err"])
    # TLC on all resize steps
    events, owner = [], []
    for i, s in enumerate(scs):
        for e in s["events"]:
            events.append(e)
            owner.append(i)
    findings, states = validate(events, "C17-resize")
    for idx, diag in findings:
        s = scs[owner[idx]]
        e = events[idx]
        sig = F8 if s["kind"] == "f8" else diag_sig(diag)
        v.violation("%s: %s of level %d at step %d of scenario seed=%d (%s): sizes %r files %r limits %r total %d -> sizes %r files %r ok=%s\n%s"
                    % (sig, e["cmd"], e["level"], e["step"], s["seed"], s["kind"], e["sizes0"], e["fs0"], e["lims"], e["total"],
                       e["sizes1"], e["fs1"], e["ok"], diag[:1200]),
                    {"kind": "split-scenario", "seed": s["seed"], "shape": [s["nd"], s["np"]], "splits": s["splits"], "limit": s["n"],
                     "history": s["kind"], "kmax": s["kmax"], "nsteps": s["nsteps"],
                     "steps": s["steps"][:e["step"] + 1], "event": e, "diag": diag}, signature=sig)
    for s in scs:
        seen = set()
        probs = s["problems"]
        if s["kind"] == "f8" and probs:
            probs = [(F8, " | ".join(t for _, t in probs))]
        for sig, text in probs:
            sg = F8 if s["kind"] == "f8" else sig
            if (sg, text) in seen:
                continue
            seen.add((sg, text))
            if len(v.violations) >= 6 and sg != F8:
                cov["problems_not_reported_in_detail"] = cov.get("problems_not_reported_in_detail", 0) + 1
                continue
            v.violation("%s: scenario seed=%d (%s, %dd/%dp, splits %r, limit %s): %s" % (sg, s["seed"], s["kind"], s["nd"], s["np"],
                                                                                       s["splits"], s["n"], text),
                        {"kind": "split-scenario", "seed": s["seed"], "shape": [s["nd"], s["np"]], "splits": s["splits"],
                         "limit": s["n"], "history": s["kind"], "kmax": s["kmax"], "nsteps": s["nsteps"],
                         "steps": s["steps"], "problem": text}, signature=sg)
    f8 = next(s for s in scs if s["kind"] == "f8")
    cov["binary_exhibits_F8"] = bool(f8["problems"])
    tot = {}
    for s in scs:
        for k, n in s["counts"].items():
            tot[k] = tot.get(k, 0) + n
    distinct = set()
    nontriv = 0
    for e in events:
        key = (e["cmd"], tuple(e["sizes0"]), tuple(e["fs0"]), tuple(e["lims"]), e["total"])
        if key not in distinct:
            distinct.add(key)
            # non-trivial: more than one split configured and the recorded sizes change
            if len(e["sizes0"]) > 1 and e["sizes0"] != e["sizes1"]:
                nontriv += 1
    ksplits = sorted(set(k for s in scs for k in s["splits"]))
    cov.update({"traces_validated_against_impl": len(scs), "resize_steps_validated_by_tlc": len(events),
                "distinct_resize_cases": len(distinct), "distinct_nontrivial": nontriv, "totals": tot,
                "splits_per_level_seen": ksplits, "failed_resizes_validated": sum(1 for e in events if not e["ok"]),
                "samples": [{"seed": s["seed"], "shape": "%dd/%dp" % (s["nd"], s["np"]), "splits": s["splits"], "limit": s["n"],
                             "steps": s["steps"]} for s in scs[1:3]] + [{"resize_event": events[len(events) // 2]}]})
    if not v.violations or all(F8 in w for w, _ in v.violations):
        if tot.get("cross", 0) == 0 or tot.get("loss", 0) == 0 or tot.get("shrink", 0) == 0:
            raise vlib.ToolFailure("the histories did not exercise the property: %r" % tot)
    return states


def replay(obj):
    """re-execute a recorded violation: obj = the "replay" member of a file under out/replays/C17 (kind split-scenario)."""
    if obj.get("kind") != "split-scenario":
        print("replay: TLC counterexample on the model; re-run ./verif check C17 quick")
        return 2
    vlib.build("hooks")
    vlib.build_shim()
    sc = _scenario((obj["seed"], obj["shape"][0], obj["shape"][1], obj.get("kmax", 4), obj.get("history", "random"),
                    obj.get("nsteps", 9), None))
    if sc.get("err"):
        raise vlib.ToolFailure(sc["err"])
    f, st = validate(sc["events"], "C17-replay-%d" % obj["seed"])
    for idx, diag in f:
        print("resize step rejected: %r\n%s" % (sc["events"][idx], diag[:1500]))
    for sig, text in sc["problems"]:
        print("%s: %s" % (sig, text))
    print("\n".join(sc["steps"]))
    return 1 if f or sc["problems"] else 0


def run(tier):
    v = vlib.Verdict("C17", tier, "model_checking")
    vlib.build("hooks")
    vlib.build_shim()
    cov = {}
    if os.environ.get("VERIF_SKIP_MODEL"):          # only for mutants/C15-C17-run-mutants.py
        st, tr = 1, 1
        cov["model_part_skipped"] = True
    else:
        st, tr = model_part(v, tier, cov)
    st2 = binding_part(v, tier, cov)
    cov["states"] = st + st2
    cov["transitions"] = tr + st2
    cov["exhaustive"] = True
    cov["rule"] = ("model: every reachable state of SplitMapMC within the stated bounds (exhaustive); binding: seeded random histories "
                   "on twin arrays; a resize case is distinct by (command, recorded sizes, file sizes, limits, total) and non-trivial "
                   "when the level has more than one split and its recorded sizes change")
    return v.finish(cov, assumptions=[
        "the per-split limits of --test-parity-limit are recomputed by the harness as parity.c:29 does (checked by TLC against the sizes the binary ends with)",
        "a limit stands for the capacity of the disk of that split: constant during a history and no file beyond it (the case of capacities changing between commands is the finding F8)",
        "stripes without any data block are compared with the twin only while no parity file has been lost or rebuilt (their parity bytes are history, not a function of the data)",
        "block size 1 KiB, content format 3 ('Q' records); a single-file level in a format 2 content has no size record and is taken at its file size as parity_create does"])
