"""C03  Any erasure pattern within the parity count is exactly recoverable.

M: spec/RaidCode.tla.  Part "witness": the oracle tables.  Part "minors": premises of the extended-Cauchy theorem
   on the whole matrix; Det # 0 for all minors of the leading block, of all column windows up to column 251,
   all small minors of the full 6 x 251 matrix and of the 3 x 251 power matrix.  Part "cases": TLC enumerates the
   admissible index-set cases of raid_rec / raid_data / raid_check (RecAdmissible, DataAdmissible,
   CheckAdmissible; which parities are used / regenerated / ignored), checks that each one is solvable and writes
   the case table.
B: harness/c/raid_conf.c executes every case of that table against the real objects with every decoder
   (int8, ssse3, avx2) x generator family, in Cauchy and z mode: lost blocks bit-exact, nothing else modified,
   raid_check verdicts equal to an independent consistency oracle and to the contract, raid_scan minimal; plus a
   native brute force over the minors of the exported matrices as a cross-check.
"""
import concurrent.futures as cf
import json, os, re, shutil, time

import vlib
import gfwitness
import raidconf as rc


def _cfg_constants(d, cfg):
    txt = open(os.path.join(d, cfg)).read()
    c = {}
    for k in ("LeadW", "WinW", "FullMaxK", "PowMaxK"):
        c[k] = int(re.search(r"\b%s\s*=\s*(\d+)" % k, txt).group(1))
    c["CaseNd"] = sorted(int(x) for x in re.search(r"CaseNd\s*=\s*\{([^}]*)\}", txt).group(1).split(","))
    c["BoundaryCols"] = sorted(int(x) for x in re.search(r"BoundaryCols\s*=\s*\{([^}]*)\}", txt).group(1).split(","))
    return c


def _minor_counts(c):
    b = rc.binom
    lead = sum(b(6, k) * b(c["LeadW"], k) for k in range(1, 7))
    slide = 0
    for c1 in range(1, 252):
        hi = min(c1 + c["WinW"] - 1, 251)
        slide += sum(b(6, k) * b(hi - c1, k - 1) for k in range(1, 7))
    full = sum(b(6, k) * b(251, k) for k in range(1, c["FullMaxK"] + 1))
    pw = sum(b(3, k) * b(251, k) for k in range(1, c["PowMaxK"] + 1))
    return {"leading_block_6x%d" % c["LeadW"]: lead, "windows_span_le_%d" % c["WinW"]: slide,
            "full_6x251_up_to_%dx%d" % (c["FullMaxK"], c["FullMaxK"]): full,
            "power_3x251_up_to_%dx%d" % (c["PowMaxK"], c["PowMaxK"]): pw}


def _expected_counts(nd, np_, consts):
    """Closed forms for the number of admissible cases (sanity of the TLC enumeration, not an oracle)."""
    b = rc.binom
    nuniv = (len(consts["BoundaryCols"]) if nd == 251 else nd)
    nrec = sum(b(nuniv + np_, k) for k in range(0, np_ + 1))
    ndata = sum(b(nuniv, k) * b(np_, k) for k in range(1, min(nuniv, np_) + 1))
    return nrec, ndata


def _convert_cases(d, consts, out_cases, out_vectors):
    nlines = 0
    per_geom = []
    tlc_samples = []
    with open(out_cases + ".tmp", "w") as out:
        for nd in consts["CaseNd"] + [251]:
            for np_ in range(1, 7):
                p = os.path.join(d, "cases_%d_%d.json" % (nd, np_))
                if not os.path.exists(p):
                    raise vlib.ToolFailure("TLC did not write " + p)
                c = json.load(open(p))
                if c["nd"] != nd or c["np"] != np_ or c["nrec"] != len(c["rec"]) or c["ndata"] != len(c["data"]):
                    raise vlib.ToolFailure("inconsistent case table " + p)
                if (c["nrec"], c["ndata"]) != _expected_counts(nd, np_, consts):
                    raise vlib.ToolFailure("case table %s has %d/%d cases, closed form says %s"
                                           % (p, c["nrec"], c["ndata"], _expected_counts(nd, np_, consts)))
                for r in c["rec"]:
                    out.write("R %d %d %d %d %s %d %s %d %s\n" % (
                        nd, np_, r["chk"], len(r["ir"]), " ".join(map(str, r["ir"])),
                        len(r["used"]), " ".join(map(str, r["used"])), len(r["ign"]), " ".join(map(str, r["ign"]))))
                for x in c["data"]:
                    out.write("D %d %d %d %s %s\n" % (nd, np_, len(x["id"]), " ".join(map(str, x["id"])),
                                                      " ".join(map(str, x["ip"]))))
                nlines += c["nrec"] + c["ndata"]
                if np_ == 6 and len(tlc_samples) < 3:
                    big = [r for r in c["rec"] if len(r["ir"]) == min(4, nd + 1) and r["ign"] and r["regen"] and r["used"]]
                    if big:
                        tlc_samples.append({"kind": "raid_rec case as written by TLC", "nd": nd, "np": np_,
                                            "record": big[len(big) // 2]})
                per_geom.append({"nd": nd, "np": np_, "rec": c["nrec"], "data": c["ndata"]})
    os.replace(out_cases + ".tmp", out_cases)
    vec = json.load(open(os.path.join(d, "vectors.json")))
    with open(out_vectors + ".tmp", "w") as f:
        for i, s in enumerate(vec):
            f.write("%d %s %s %s\n" % (i + 1, " ".join(map(str, s["d"])), " ".join(map(str, s["cauchy"])),
                                       " ".join(map(str, s["power"]))))
    os.replace(out_vectors + ".tmp", out_vectors)
    return nlines, per_geom, len(vec), tlc_samples


def run(tier):
    tier = "thorough" if tier == "thorough" else "quick"
    v = vlib.Verdict("C03", tier, "exploration")
    d, gfj, matj = rc.prepare("C03")
    ex = cf.ThreadPoolExecutor(max_workers=3)
    try:
        sha0 = (gfwitness.sha(gfj), gfwitness.sha(matj))
        consts = _cfg_constants(d, "RaidCode_minors_%s.cfg" % tier)
        consts_cases = _cfg_constants(d, "RaidCode_cases_%s.cfg" % tier)
        tmo = 900 if tier == "quick" else 3000
        t0 = time.time()
        f_wit = ex.submit(rc.tlc_part, d, "witness", tier, tmo)
        f_cas = ex.submit(rc.tlc_part, d, "cases", tier, tmo)
        f_min = ex.submit(rc.tlc_part, d, "minors", tier, tmo)

        res_w = f_wit.result()
        rc.require_witness_ok(res_w)
        res_c = f_cas.result()
        if res_c.error:
            raise vlib.ToolFailure("TLC (case enumeration) failed: %s\n%s" % (res_c.error, rc.tlc_tail(res_c)))
        if res_c.violated:
            v.violation("TLC: an admissible erasure case is not solvable with the documented generator matrix "
                        "(%s violated in job %s)" % (res_c.violated, res_c.job),
                        {"tlc": "RaidCode.tla Part=cases tier=%s" % tier, "job": res_c.job, "output": rc.tlc_tail(res_c, 40)})
            raise_after = True
        else:
            raise_after = False
        if (gfwitness.sha(gfj), gfwitness.sha(matj)) != sha0:
            raise vlib.ToolFailure("witness files changed while TLC was checking them")

        hr = rc.HarnessRun()
        nlines = 0
        per_geom = []
        nvec = 0
        tlc_samples = []
        if not raise_after:
            keep = os.path.join(vlib.OUT, "raidconf", "C03")
            os.makedirs(keep, exist_ok=True)
            blob = os.path.join(keep, "witness.bin")
            gfwitness.write_blob(gfj, matj, blob + ".tmp")
            os.replace(blob + ".tmp", blob)
            cases = os.path.join(keep, "cases_%s.txt" % tier)
            vectors = os.path.join(keep, "vectors.txt")
            nlines, per_geom, nvec, tlc_samples = _convert_cases(d, consts_cases, cases, vectors)

            exe, binfo = rc.build_harness("raid_conf_C03")
            seed = str(vlib.seed())
            n = rc.NSHARDS
            rc.run_harness([[exe, "rec", blob, cases, tier, seed, str(k), str(n), vectors] for k in range(n)],
                           timeout=1500 if tier == "quick" else 5400, into=hr)
            lead, fullk = (32, 3) if tier == "quick" else (64, 4)
            rc.run_harness([[exe, "minors", blob, str(lead), str(fullk), str(k), str(n)] for k in range(n)],
                           timeout=1500, into=hr)
            rc.report_fails(v, hr, tier, extra={"witness_sha256": sha0, "cases": cases})
            # completeness of the run (a shard that stopped because the code under test crashed has already
            # produced a violation; its remaining cases are then legitimately missing)
            if not hr.crashed:
                if hr.stat("rec_cases") != nlines or hr.stat("distinct") != nlines:
                    raise vlib.ToolFailure("harness executed %d of %d cases" % (hr.stat("rec_cases"), nlines))
                if hr.stat("oracle_vectors") != n * nvec * 9:
                    raise vlib.ToolFailure("oracle self-check against TLC ParityOf did not run")
                if hr.stat("rec_calls") == 0 or hr.stat("check_calls") == 0 or hr.stat("scan_calls") == 0 \
                        or hr.stat("native_minors") == 0:
                    raise vlib.ToolFailure("a part of the harness executed nothing")

        res_m = f_min.result()
        if res_m.error:
            raise vlib.ToolFailure("TLC (minors) failed: %s\n%s" % (res_m.error, rc.tlc_tail(res_m)))
        if res_m.violated:
            what = "premises of the extended-Cauchy theorem do not hold" if res_m.job and res_m.job[0] == "premises" \
                else "a square sub-matrix of the documented generator matrix is singular"
            v.violation("TLC: %s (%s violated in job %s)" % (what, res_m.violated, res_m.job),
                        {"tlc": "RaidCode.tla Part=minors tier=%s" % tier, "job": res_m.job,
                         "output": rc.tlc_tail(res_m, 40)})
        tlc_wall = time.time() - t0

        minors = _minor_counts(consts)
        samples = hr.samples[:3]
        samples += tlc_samples[:2]
        samples.append({"kind": "raid_check candidates", "corrupted": [0, 250, 252], "nd": 251, "np": 6,
                        "candidates": "[0,250,252] accept; [250,252], [0,252], [0,250] reject; each of those with a "
                                      "good block added reject; [0,250,252,x] accept"})
        cov = {
            "evaluations": hr.stat("rec_calls") + hr.stat("check_calls") + hr.stat("scan_calls"),
            "distinct_nontrivial": hr.stat("rec_cases_nontrivial"),
            "rule": "cases = index-set cases enumerated by TLC from RecAdmissible/DataAdmissible of RaidCode.tla for the "
                    "geometries nd in %s x np in 1..6 (all index sets) and nd = 251 (failed data among columns %s). "
                    "Each case is executed for every decoder family x generator family x {Cauchy, z if np <= 3} x sizes; "
                    "raid_rec twice when the contract has ignored parities (intact / garbage). distinct_nontrivial = "
                    "distinct case lines (hashed in the harness) with at least one lost block; evaluations = calls of "
                    "raid_rec/raid_data/raid_recN_<variant>/raid_check/raid_scan, each followed by the comparison of "
                    "all blocks, guards, zero block and pointer vector."
                    % (consts_cases["CaseNd"], consts_cases["BoundaryCols"]),
            "samples": samples,
            "exhaustive": True,
            "exhaustive_over": "index sets of the listed geometries; NOT over nd, sizes or contents",
            "cases_from_tlc": nlines,
            "cases_per_geometry": per_geom,
            "rec_calls": hr.stat("rec_calls"),
            "check_calls": hr.stat("check_calls"),
            "scan_calls": hr.stat("scan_calls"),
            "native_minors_evaluated": hr.stat("native_minors"),
            "native_singular": hr.stat("native_singular"),
            "decoders_skipped_cpu": hr.skips,
            "tlc_minors_by_closed_form": minors,
            "tlc_minor_jobs": res_m.distinct // 2,
            "tlc_case_jobs": res_c.distinct // 2,
            "tlc_witness_jobs": res_w.distinct // 2,
            "states": res_m.distinct + res_c.distinct + res_w.distinct,
            "tlc_wall_s": {"witness": round(res_w.wall, 1), "cases": round(res_c.wall, 1), "minors": round(res_m.wall, 1),
                           "elapsed_until_all_done": round(tlc_wall, 1)},
            "harness_wall_s": round(hr.wall, 1),
            "harness_failures": hr.stat("failures"),
            "harness_shards_stopped_by_crash": hr.crashed,
            "witness_sha256": list(sha0),
            "repo": vlib.REPO,
        }
        return v.finish(coverage=cov, assumptions=[
            "TRUSTED THEOREM: an extended Cauchy matrix (distinct x_i, distinct y_j, x_i + y_j # 0, a row of ones added, "
            "rows scaled by non-zero factors) has only non-singular square sub-matrices. TLC checks the premises on the "
            "whole 6 x 251 matrix and the conclusion on the minors listed in tlc_minors_by_closed_form; the remaining "
            "minors of the 3.8e11 rest on the theorem.",
            "raid_check 'must reject' needs |corrupted U candidate| <= np (minimum distance np+1); other candidates are "
            "judged by the independent Gauss-elimination oracle of the harness, which is itself asserted to agree with "
            "the contract operators CheckMustAccept / CheckMustReject",
            "raid_scan is required to return exactly the corrupted set when 2|C| <= np, otherwise a consistent set of "
            "minimal size (verified by the oracle when it differs)",
            "block alignment 256 bytes, sizes multiples of 64; decoders whose instruction set the CPU lacks are skipped",
        ])
    finally:
        ex.shutdown(wait=True)
        shutil.rmtree(d, ignore_errors=True)
