"""C11 A successful sync captures every change and converges."""
import arrayprop, directed


def run(tier):
    return arrayprop.standard_run(
        "C11", tier, profiles=["c11", "inodes", "c11", "c19", "inodes"], nquick=40, nthorough=400, steps=(30, 44), sim=False,
        directed_jobs=lambda s0: [(s0 + 1, dict(nd=2, np=1, copies=2), "directed-linkkinds", 0, directed.link_kinds),
                                  (s0 + 2, dict(nd=2, np=1, copies=2), "directed-restore-after-kill", 0, directed.restore_after_killed_sync),
                                  (s0 + 3, dict(nd=2, np=1, copies=2), "directed-restore-after-kill", 0, directed.restore_after_killed_sync),
                                  (s0 + 4, dict(nd=2, np=1, copies=2, inomode=True), "directed-twins-swapped", 0, directed.twins_swapped_fix),
                                  (s0 + 5, dict(nd=2, np=1, copies=2, inomode=True), "directed-uuid-appears", 0, directed.uuid_appears)],
        shapes=[(2, 2), (3, 1), (2, 1), (4, 2), (3, 3), (1, 1)],
        rule="histories over the full alphabet of changes (create, same-size rewrite, append, truncate, delete, rename within and "
             "between directories incl. onto existing names, move across disks, copy, replacing a file by a directory or link and "
             "back, symbolic and hard links, empty directories, time-stamp-only changes, sub-second stamps, the touch command), "
             "several operations between syncs; TLC validates every sync against Array.tla and evaluates on the real states: after "
             "a successful full sync no file/link/empty-dir difference and no unsynced block remain (C11_AfterSync), diff exits 2 "
             "exactly when something differs or a sync was incomplete (C11_Diff), list prints exactly the recorded files and links "
             "(C11_List), and every block recorded as synced carries the hash of the data now on disk (changed files are read again)",
        assumptions=["the sandbox has no UUIDs: the profile 'inodes' runs every command with --test-fake-uuid (the first two data disks "
                     "get a UUID, their recorded inode numbers are trusted from the second sync on: moves, exchanged names, files "
                     "coming back with a new inode, reordered data lines = changed UUIDs); the other profiles scan by path, size and "
                     "time stamp", "forced alphabetical order and sequential disk scan in the conformance runs"])
