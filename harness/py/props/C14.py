"""C14 Safety interlocks refuse destructive syncs and change nothing."""
import re
import os, signal, subprocess, time, random, traceback, multiprocessing
import vlib, arr, arrayprop, recorder, scen


def _history(seed, confkw):
    """returns an executed scenario record"""
    g = scen.Gen(seed, conf=arr.Conf(**confkw), profile="syncheavy")
    rng, a, rec = g.rng, g.a, g.rec
    steps = g.steps
    try:
        for _ in range(rng.randint(3, 6)):
            d = g.op_add()
            rec.env(d); steps.append(d)
        rec.sync("-E"); steps.append("sync -E")

        def add_nonempty():
            """an ordinary pending change: a new or rewritten file that is not empty (an empty file written over a recorded
            non-empty one would be a second trigger - the zero-size interlock - of its own)"""
            dd = rng.randrange(confkw["nd"])
            free = [x for x in g.names if not os.path.lexists(a.path(dd, x))]
            if not free:
                return None
            nm = rng.choice(free)
            vals = g.content()
            while not vals:
                vals = g.content()
            a.write_file(dd, nm, vals, mtime=g.stamp())
            return "write %d/%s %r" % (dd, nm, vals)

        def touch_one_of_many():
            """a changed time stamp on a disk that keeps at least one other recorded file as it is (touching the only file of a
            disk is the "all files rewritten" trigger)"""
            cfst = rec.lines[-1]["state"]["cf"]
            fsst = rec.lines[-1]["state"]["fs"]
            for dd in rng.sample(range(confkw["nd"]), confkw["nd"]):
                same = [n for n, e in cfst.get(str(dd), {}).items() if n in fsst.get(str(dd), {}) and fsst[str(dd)][n].get("mt") == e["mt"]
                        and fsst[str(dd)][n].get("sz") == e["sz"]]
                if len(same) >= 2:
                    n = rng.choice(same)
                    a.set_mtime(dd, n, g.stamp())
                    return "touch %d/%s" % (dd, n)
            return None

        def pending(onto=None):
            if rng.random() < 0.5:
                d = rng.choice([add_nonempty, touch_one_of_many])()
                if d:
                    rec.env(d); steps.append(d)
            if onto is not None and confkw["nd"] > 1 and rng.random() < 0.6:
                # a file of another disk is copied (cp -p) onto the disk that lost everything: a "copy" for the scan
                others = [(e, f) for e in range(confkw["nd"]) if e != onto for f in g.files(e) if f != "zz"
                          and os.path.getsize(a.path(e, f)) > 0]
                if others:
                    e, f = rng.choice(others)
                    data = open(a.path(e, f), "rb").read(); stt = os.lstat(a.path(e, f))
                    with open(a.path(onto, f), "wb") as fh:
                        fh.write(data)
                    os.utime(a.path(onto, f), ns=(stt.st_mtime_ns, stt.st_mtime_ns))
                    rec.env("cp -p %d/%s to disk %d" % (e, f, onto)); steps.append("cp -p %d/%s to disk %d" % (e, f, onto))

        def expect_refused(*flags, own=None):
            r, o = rec.sync(*flags)
            rec.lines[-1]["args"]["expect_refused"] = True
            steps.append("sync %s -> %s (must be refused)" % (list(flags), o["exit"]))
            # the override of ANOTHER interlock does not lift this one
            # (when the plain sync went on - finding F12 - the trigger is gone)
            if own is not None and r.rc != 0:
                for other in [x for x in ("-E", "-Z", "-F") if x != own and rng.random() < 0.7]:
                    r, o = rec.sync(other)
                    rec.lines[-1]["args"]["expect_refused"] = True
                    steps.append("sync [%s] -> %s (must be refused: it overrides another interlock)" % (other, o["exit"]))

        def proceed(*flags):
            a.clock += 10
            r, o = rec.sync(*flags)
            steps.append("sync %s -> %s" % (list(flags), o["exit"]))

        triggers = ["all-missing", "all-rewritten", "zero-size", "parity-small", "parity-lost", "blocksize", "hashsize", "disk-dropped", "lock"]
        rng.shuffle(triggers)
        for trig in triggers:
            d = rng.randrange(confkw["nd"])
            files = g.files(d)
            if trig == "all-missing" and files:
                for f in files:
                    a.remove(d, f)
                rec.env("delete all files of disk %d" % d); steps.append("delete all files of disk %d" % d)
                pending(onto=d); expect_refused(own="-E"); proceed("-E")
            elif trig == "all-rewritten" and files:
                for f in files:
                    a.set_mtime(d, f, g.stamp())
                rec.env("touch all files of disk %d" % d); steps.append("touch all files of disk %d" % d)
                pending(); expect_refused(own="-E"); proceed("-E")
            elif trig == "zero-size":
                cand = [f for f in files if os.path.getsize(a.path(d, f)) > 0 and f in rec.lines[-1]["state"]["cf"][str(d)]]
                if not cand or len(files) < 2:
                    continue
                f = rng.choice(cand)
                pending()
                a.write_file(d, f, [], mtime=g.stamp())
                rec.env("truncate %d/%s to zero size" % (d, f)); steps.append("truncate %d/%s to zero" % (d, f))
                expect_refused(own="-Z"); proceed("-Z")
            elif trig in ("parity-small", "parity-lost"):
                l = rng.randrange(confkw["np"])
                p = a.pfile(l)
                if not os.path.exists(p) or os.path.getsize(p) == 0:
                    continue
                pending()
                if trig == "parity-lost":
                    os.remove(p)
                else:
                    # one block less than what the state will use after the scan: the highest synced block of a file that is
                    # still as recorded (parity.c parity_used_size; the file may be longer than that)
                    cfst, fsst = rec.lines[-1]["state"]["cf"], rec.lines[-1]["state"]["fs"]
                    used = 1 + max([b["pos"] for dd, fl in cfst.items() for n, e in fl.items()
                                    if n in fsst.get(dd, {}) and fsst[dd][n].get("mt") == e["mt"] and fsst[dd][n].get("sz") == e["sz"]
                                    for b in e["bl"] if b["st"] == "BLK"] + [-1])
                    if used < 1 or used * arr.BS > os.path.getsize(p):
                        continue
                    os.truncate(p, (used - 1) * arr.BS)
                rec.env("%s level %d" % (trig, l), damage=True); steps.append("%s level %d" % (trig, l))
                expect_refused(own="-F"); proceed("-F")
                r, o = rec.check(); steps.append("check -> %s" % o["exit"])
            elif trig in ("blocksize", "hashsize", "disk-dropped"):
                if trig == "disk-dropped" and not rec.lines[-1]["state"]["cf"][str(d)]:
                    continue
                p = os.path.join(a.root, "alt.conf")
                a.write_conf(path=p, drop_disks=(d,) if trig == "disk-dropped" else ())
                s = open(p).read()
                if trig == "blocksize":
                    s = s.replace("blocksize 1", "blocksize 2")
                if trig == "hashsize":
                    if "hashsize" in s:
                        s = re.sub(r"hashsize \d+", "hashsize 16", s)
                    else:
                        s = s.replace("blocksize 1", "blocksize 1\nhashsize 8")
                open(p, "w").write(s)
                pending()
                for cmd in ("sync", "sync", "check", "status")[:rng.randint(1, 4)]:
                    rec.refused(cmd, trig, conf=p); steps.append("%s with %s in the configuration (must be refused)" % (cmd, trig))
                os.remove(p)
                proceed()
            elif trig == "lock":
                # command 1 is stopped (SIGSTOP by the shim) at its k-th state-changing call; every other command must be refused
                pending()
                k = rng.randint(2, 12)      # call 1 is the open of the lock file itself: the lock is taken right after it
                first = rng.choice([("sync", "-F"), ("scrub", "-p", "full"), ("fix",), ("check",)])
                rule = "any,*,%d,stop" % k
                if confkw.get("copies", 2) >= 2 and rng.random() < 0.5:
                    # the first content copy of the configuration is lost before the first command starts; that command (a sync
                    # with something to do) writes it again before it goes through the stripes, and is stopped at its first
                    # parity write: the commands started then must find the array locked all the same
                    dd = add_nonempty()
                    if dd:
                        rec.env(dd); steps.append(dd)
                    first = ("sync", "-F")
                    os.remove(a.cfile(0))
                    steps.append("the first content copy is lost")
                    rule = "pwrite,/%s,1,stop" % os.path.relpath(a.pfile(0), a.root)
                    k = "first parity write"
                env = dict(os.environ, LD_PRELOAD=a.shim, VSHIM_ROOT=a.root, VSHIM_RULES=rule,
                           VSHIM_TIME=str(a.clock), VSHIM_URANDOM=a.urandom, VSHIM_STATFS="1")
                p1 = subprocess.Popen([a.bin, "-c", a.conf_path()] + a.BASE_FLAGS + ["--test-force-murmur3"] + list(first), env=env,
                                      stdout=subprocess.PIPE, stderr=subprocess.PIPE)
                stopped = False
                for _ in range(100):
                    time.sleep(0.02)
                    try:
                        st = open("/proc/%d/stat" % p1.pid).read().split()[2]
                    except OSError:
                        break
                    if st in ("T", "t"):
                        stopped = True
                        break
                    if p1.poll() is not None:
                        break
                if stopped:
                    # the refusals are compared with the state at the moment the first command was stopped
                    rec.lines.append({"e": "Reset", "dmg": True, "state": rec.state()})
                    steps.append("%s stopped at its state-changing call %s" % (" ".join(first), k))
                    for cmd in rng.sample([("sync",), ("check",), ("fix",), ("scrub",), ("status",), ("diff",), ("list",), ("dup",)], 4):
                        rec.refused(cmd[0], "lock:%s-while-%s" % (cmd[0], first[0]), *cmd[1:])
                        steps.append("%s while %s is running (must be refused)" % (cmd[0], first[0]))
                    os.kill(p1.pid, signal.SIGCONT)
                try:
                    p1.wait(timeout=60)
                except subprocess.TimeoutExpired:
                    p1.kill()
                    raise vlib.ToolFailure("stopped command did not finish after SIGCONT")
                rec.lines.append({"e": "Reset", "dmg": True, "state": rec.state()})
                steps.append("first command finished rc=%s" % p1.returncode)
                # second flow: command A is stopped just before it would remove or unlink the lock file (if it ever does: the
                # lock is released by then), command B starts and is stopped holding the lock, A is continued and ends; every
                # further command must still be refused while B holds the lock
                envA = dict(env, VSHIM_RULES="unlink,.lock,1,stopb;remove,.lock,1,stopb")
                pA = subprocess.Popen([a.bin, "-c", a.conf_path()] + a.BASE_FLAGS + ["--test-force-murmur3", "status"], env=envA,
                                      stdout=subprocess.PIPE, stderr=subprocess.PIPE)
                for _ in range(150):
                    time.sleep(0.02)
                    if pA.poll() is not None:
                        break
                    try:
                        if open("/proc/%d/stat" % pA.pid).read().split()[2] in ("T", "t"):
                            break
                    except OSError:
                        break
                envB = dict(env, VSHIM_RULES="any,*,%d,stop" % rng.randint(2, 6))
                pB = subprocess.Popen([a.bin, "-c", a.conf_path()] + a.BASE_FLAGS + ["--test-force-murmur3", "check"], env=envB,
                                      stdout=subprocess.PIPE, stderr=subprocess.PIPE)
                bstopped = False
                for _ in range(150):
                    time.sleep(0.02)
                    if pB.poll() is not None:
                        break
                    try:
                        if open("/proc/%d/stat" % pB.pid).read().split()[2] in ("T", "t"):
                            bstopped = True
                            break
                    except OSError:
                        break
                if pA.poll() is None:
                    os.kill(pA.pid, signal.SIGCONT)
                    try:
                        pA.wait(timeout=60)
                    except subprocess.TimeoutExpired:
                        pA.kill(); pB.kill()
                        raise vlib.ToolFailure("command A did not finish after SIGCONT")
                if bstopped:
                    rec.lines.append({"e": "Reset", "dmg": True, "state": rec.state()})
                    steps.append("status has ended, check is stopped holding the lock")
                    for cmd in rng.sample([("sync",), ("fix",), ("scrub",), ("status",), ("diff",)], 3):
                        rec.refused(cmd[0], "lock:%s-while-check-after-status-ended" % cmd[0], *cmd[1:])
                        steps.append("%s while check holds the lock (must be refused)" % cmd[0])
                    os.kill(pB.pid, signal.SIGCONT)
                try:
                    pB.wait(timeout=60)
                except subprocess.TimeoutExpired:
                    pB.kill()
                    raise vlib.ToolFailure("command B did not finish after SIGCONT")
                rec.lines.append({"e": "Reset", "dmg": True, "state": rec.state()})
                a.clock += 10
                r, o = rec.sync("-F", "-E"); steps.append("sync -F -E -> %s" % o["exit"])
        r, o = rec.check(); steps.append("check -> %s" % o["exit"])
        return {"seed": seed, "profile": "c14", "conf": confkw, "lines": rec.lines, "vlen": rec.vlen, "names": sorted(rec.names),
                "steps": steps, "hdr": rec.header(), "err": None, "script": None, "nsteps": 0}
    except Exception:
        return {"seed": seed, "err": traceback.format_exc()}
    finally:
        g.close()


def _job(x):
    return _history(*x)


def run(tier):
    v = vlib.Verdict("C14", tier, "model_checking")
    vlib.build("hooks"); vlib.build_shim()
    quick = tier != "thorough"
    cov = {"mc": []}
    # the guards of Sync on the model: TLC checks that the specification's Sync is refused exactly under its triggers
    # and that a refused Sync changes nothing (ArrayMC explores SyncResult with force_empty etc. fixed; the guard
    # operators EmptyInterlock/ZeroInterlock/small parity are exercised through the traces below)
    # the lock: Lock.tla - one lock file whose path is a function of the configuration alone excludes two holders for every
    # interleaving of three commands, saves and lost copies; the unstable choice "first copy that exists" does not (sanity of the
    # model: TLC must find that counterexample, it is the flow the harness plays with the first copy lost)
    r = vlib.run_tlc("Lock", cfg="Lock.cfg", workers=2, timeout=300, tag="C14-lock")
    if r.error and not r.violated:
        raise vlib.ToolFailure("TLC on Lock.tla: %s\n%s" % (r.error, r.out[-1500:]))
    cov["mc"].append({"cfg": "Lock.cfg (3 commands, 3 content copies, lock file beside the first configured copy)", "distinct": r.distinct,
                      "generated": r.generated, "violated": r.violated})
    if r.violated:
        v.violation("TLC: %s violated on Lock.tla" % r.violated, replay_obj={"kind": "tlc-trace", "trace": r.trace}, signature="lock-model")
    r2 = vlib.run_tlc("Lock", cfg="Lock_byexistence.cfg", workers=2, timeout=300, tag="C14-lock-byexistence")
    if r2.violated != "MutualExclusion":
        raise vlib.ToolFailure("Lock.tla no longer shows that a lock path chosen among the existing copies admits two holders")
    cov["mc"].append({"cfg": "Lock_byexistence.cfg (the unstable choice; counterexample expected)", "distinct": r2.distinct, "found": True})
    mc_states = r.distinct + r2.distinct
    s0 = vlib.seed() * 1000
    n = 10 if quick else 80
    # every fifth array has a reduced hash size, every seventh a parity split over several files (content format 3)
    jobs = [(s0 + i, dict(nd=[2, 3, 2, 4][i % 4], np=[2, 1, 3, 2][i % 4], copies=[2, 1, 3, 2][i % 4],
                          **({"hash_size": 8} if i % 5 == 4 else {"splits": [2] + [1] * ([2, 1, 3, 2][i % 4] - 1)} if i % 7 == 6 else {})))
            for i in range(n)]
    with multiprocessing.Pool(8) as pool:
        scs = pool.map(_job, jobs, chunksize=1)
    for s in scs:
        if s.get("err"):
            raise vlib.ToolFailure("scenario failed: " + s["err"])
    groups = {}
    for s in scs:
        groups.setdefault((s["conf"]["nd"], s["conf"]["np"]), []).append(s)
    states = accepted = 0
    for key, lst in sorted(groups.items()):
        f, acc, st = arrayprop.validate_batch(lst, "c14-%d-%d" % key)
        accepted += acc; states += st
        for x in f:
            arrayprop.report(v, x, rerun=False)
    trig = {}
    for s in scs:
        for l in s["lines"]:
            if l["e"] == "Refused":
                trig[l["args"]["trigger"].split(":")[0]] = trig.get(l["args"]["trigger"].split(":")[0], 0) + 1
            if l["e"] == "Sync" and l["args"].get("expect_refused"):
                trig["modelled-interlock"] = trig.get("modelled-interlock", 0) + 1
    cov.update({"states": states + mc_states, "transitions": states + r.generated + r2.generated, "traces_validated_against_impl": len(scs),
                "traces_accepted_without_finding": accepted, "refusals_by_trigger": trig,
                "samples": [{"seed": s["seed"], "conf": s["conf"], "steps": s["steps"]} for s in scs[:2]],
                "rule": "each history applies every trigger (all files of a disk missing / rewritten, zero-size file, parity too small or "
                        "lost, block size / hash size mismatch, disk dropped from the configuration, second command while the first is "
                        "stopped at a random system call) on some disk/level, with or without other pending changes; TLC checks that "
                        "the specification's Sync refuses exactly then (SyncStep conformance + expect_refused), that nothing changed "
                        "(content and parity digests, missing = empty parity), and that the override (-E, -Z, -F) proceeds"})
    return v.finish(cov, assumptions=["a missing and an empty parity file are the same abstract value"])
