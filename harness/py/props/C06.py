"""C06 Stripes recorded as synced always have valid parity."""
import arrayprop, directed


def run(tier):
    return arrayprop.standard_run(
        "C06", tier, profiles=["syncheavy", "grammar", "ranges", "copy", "grammar", "mixed", "ranges", "copy"], nquick=48, nthorough=400, steps=(22, 34),
        directed_jobs=lambda s0: [(s0 + 1, dict(nd=3, np=2, copies=2), "directed-deleted-next-to-rotten", 0, directed.deleted_next_to_rotten),
                                  (s0 + 2, dict(nd=3, np=2, copies=2), "directed-rehash-silent-sync", 0, directed.rehash_silent_sync),
                                  (s0 + 3, dict(nd=3, np=2, copies=2), "directed-zero-chg-second-disk", 0, directed.zero_chg_second_disk)],
        rule="ParityValid (every all-synced stripe holds, in every level, the generator applied to the recorded blocks, parity "
             "files long enough) and MapSane (no position shared, every block mapped, positions increasing) are evaluated by "
             "TLC on the projection of the real array after every command of every history (independent content decoder, "
             "independent GF(2^8) parity recomputation from the version store); histories interleave edits with full, "
             "forced (-F), killed-after-parity and partially skipped syncs, scrub and fix")
