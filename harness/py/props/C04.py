"""C04 Every silent corruption of synced data or parity is detected and located."""
import arrayprop, directed


def run(tier):
    return arrayprop.standard_run(
        "C04", tier, profiles=["detect"],
        directed_jobs=lambda s0: [(s0 + k, dict(nd=2, np=1, copies=2), "directed-touched-rotten", 0, directed.touched_then_rotten) for k in (1, 2)] +
                                 [(s0 + 3, dict(nd=2, np=2, copies=2), "directed-audit-two-blocks", 0, directed.audit_two_blocks)], nquick=24, nthorough=240, steps=(20, 30),
        rule="on synced arrays single or combined silent corruptions (bit, byte, whole block, zeroing; data blocks first/"
             "middle/last-short; parity blocks of every level) are followed by check -a, check and scrub full/new/bad; TLC "
             "compares the reported error:<pos>:<disk> / parity_error:<pos>:<level> sets, the bad marks and the exit class "
             "with the damage computed in TLA+ from the projected state (both directions), and requires silence on "
             "undamaged arrays")
