"""C04 Every silent corruption of synced data or parity is detected and located."""
import arrayprop


def run(tier):
    return arrayprop.standard_run(
        "C04", tier, profiles=["detect"], nquick=24, nthorough=240, steps=(20, 30),
        rule="on synced arrays single or combined silent corruptions (bit, byte, whole block, zeroing; data blocks first/"
             "middle/last-short; parity blocks of every level) are followed by check -a, check and scrub full/new/bad; TLC "
             "compares the reported error:<pos>:<disk> / parity_error:<pos>:<level> sets, the bad marks and the exit class "
             "with the damage computed in TLA+ from the projected state (both directions), and requires silence on "
             "undamaged arrays")
