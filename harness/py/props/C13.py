"""C13  Results do not depend on thread scheduling or I/O cache depth.

(a) TLC on spec/IoRing.tla: Ownership, OnceInOrder, Deterministic, the asserts of io.c, no deadlock,
    and termination under weak fairness, over a family of small configurations (IoRing_small*.cfg,
    thorough: IoRing_med*.cfg), all interleavings.
(b) H1 traces (hook in cmdline/io.c, -DSNAPRAID_VERIF) of real sync / sync -F / scrub runs on tiny arrays with
    --test-io-cache in {1,3,4,8,32,128} x seeded schedule perturbation are validated against
    spec/IoRingTrace.tla (every record = one IoRing step, all invariants checked in every trace state).
(c) determinism: every (cache, seed) variant starts from an identical copy of the pre-state and must end with
    byte-identical parity files, identical content (modulo times / free space / inodes, see norm_content)
    and the same set of error tags and exit status as the mono-thread reference run.
(d) self-test of the binding in every run: corrupted copies of an accepted trace must be rejected.

exit 0 = held, 1 = VIOLATION printed, 2 = tool failure.
"""
import copy, hashlib, json, os, random, re, shutil, signal, subprocess, sys, time
from concurrent.futures import ThreadPoolExecutor

import vlib

try:
    import content as content_mod
except Exception:                                    # pragma: no cover
    content_mod = None

CACHES = [1, 3, 4, 8, 32, 128]
RUN_TIMEOUT = 12            # seconds; a normal run takes 0.1 - 1.5 s
LEVELS = ["parity", "2-parity", "3-parity", "4-parity", "5-parity", "6-parity"]
TAGS = ("error:", "parity_error:", "summary:", "fixed:", "unrecoverable:", "block_count:", "info_count:",
        "outofparity:", "scan:")

# model checking configurations: phases run one after the other, the (cfg, workers) of a phase in parallel.
# Liveness checking in TLC scales poorly with workers, so the configurations with the Termination property
# share the 16 cores; the larger safety-only configurations follow with all workers.
MC_QUICK = [[("IoRing_small.cfg", 5), ("IoRing_small_out.cfg", 4), ("IoRing_small_scrub.cfg", 3),
             ("IoRing_small_n4.cfg", 2), ("IoRing_small_mono.cfg", 1)]]
MC_THOROUGH = [[("IoRing_med.cfg", 6), ("IoRing_med_out.cfg", 3), ("IoRing_med_scrub.cfg", 2), ("IoRing_med_n5.cfg", 2),
                ("IoRing_med_r3.cfg", 1), ("IoRing_small_mono.cfg", 1), ("IoRing_small.cfg", 1)],
               [("IoRing_safe_w2.cfg", 16)], [("IoRing_safe_n4w2.cfg", 16)]]
# every action of the model must have been taken by at least one configuration (thorough: -coverage 1)
ACTIONS = ["RTaskBegin", "RTaskEnd", "RExit", "RTake", "RSignal", "RWait", "WTaskBegin", "WTaskEnd", "WTake",
           "WSignal", "WExit", "WWait", "ReadNext", "MBroadcastR", "CallerGot", "CallerWaitRead",
           "CallerWriteOk", "CallerWaitWrite", "WriteNext", "MBroadcastW", "Stop", "Join", "MonoReadNext",
           "MonoRead", "MonoPreset", "MonoWrite", "MonoWriteNext", "MonoStop", "SpuriousWake"]


# ---------------------------------------------------------------------------------------
# scenarios on real arrays

def rbytes(seed, n):
    return random.Random(seed).randbytes(n)


class Scenario:
    """name, nd data disks, np parities, base files (synced once), edit (function on the array dir applied
    after the base sync), command line of the traced command."""

    def __init__(self, name, nd, np, base, edit, cmd, expect_rc=(0,)):
        self.name, self.nd, self.np, self.base, self.edit, self.cmd = name, nd, np, base, edit, cmd
        self.expect_rc = expect_rc


def write_conf(root, nd, np):
    lines = ["blocksize 1"]
    for l in range(np):
        lines.append("%s %s/p%d/parity" % (LEVELS[l], root, l + 1))
    lines.append("content %s/c1/content" % root)
    lines.append("content %s/c2/content" % root)
    for d in range(nd):
        lines.append("data d%d %s/d%d/" % (d + 1, root, d + 1))
    with open(os.path.join(root, "conf"), "w") as f:
        f.write("\n".join(lines) + "\n")


def put(root, rel, data, mtime=1600000000):
    p = os.path.join(root, rel)
    os.makedirs(os.path.dirname(p), exist_ok=True)
    with open(p, "wb") as f:
        f.write(data)
    os.utime(p, ns=(mtime * 10 ** 9, mtime * 10 ** 9))


def snap_args(binary, root, cache, cmd, log):
    return [binary, "-c", os.path.join(root, "conf"), "--test-skip-device", "--test-skip-self",
            "--test-force-order-alpha", "--no-warnings", "-q", "-q", "-q", "-l", log,
            "--test-io-cache", str(cache)] + cmd


SHIM = [None]
T_BASE, T_RUN = 1700000000, 1700100000     # frozen clock of the base syncs / of the compared runs


def run_snap(binary, root, cache, cmd, log, trace=None, yseed=None, sigint_after=None, outside=False, now=T_RUN, slow=None,
             slowscan=None):
    """returns (rc, timed_out, stdout+stderr).  The clock is frozen by the LD_PRELOAD shim (time() only;
    nothing is traced or injected) so that the info times recorded in the content files are comparable."""
    env = dict(os.environ)
    env.pop("SNAPRAID_VERIF_IOTRACE", None)
    env.pop("SNAPRAID_VERIF_YIELD", None)
    for k in list(env):
        if k.startswith("VSHIM_"):
            env.pop(k)
    if SHIM[0]:
        env["LD_PRELOAD"] = SHIM[0]
        env["VSHIM_TIME"] = str(now)
        env["VSHIM_STATFS"] = "1"
    if slow and SHIM[0]:
        # the reads of one data disk are made slow (2 ms each): its reader finishes last in every stripe, whatever its index
        env["VSHIM_ROOT"] = root
        env["VSHIM_RULES"] = "pread,/d%d/,0,delay,2" % slow
    if slowscan and SHIM[0]:
        # the scanner thread of one data disk starts 40 ms after the others (opendir of its root and of its directories)
        env["VSHIM_ROOT"] = root
        env["VSHIM_RULES"] = (env.get("VSHIM_RULES", "") + ";" if slow else "") + "opendir,/d%d/,0,delay,40" % slowscan
    if trace:
        env["SNAPRAID_VERIF_IOTRACE"] = trace
    if yseed is not None:
        env["SNAPRAID_VERIF_YIELD"] = str(yseed)
    args = snap_args(binary, root, cache, (["--test-cond-signal-outside"] if outside else []) + cmd, log)
    p = subprocess.Popen(args, stdout=subprocess.PIPE, stderr=subprocess.STDOUT, env=env)
    if sigint_after is not None:
        # early stop request: SIGINT once the trace has reached the given size, i.e. inside the stripe loop
        # (before signal_init() the default action would just kill the process)
        t0 = time.time()
        while p.poll() is None and time.time() - t0 < RUN_TIMEOUT:
            try:
                if os.path.getsize(trace) >= sigint_after:
                    p.send_signal(signal.SIGINT)
                    break
            except OSError:
                pass
            time.sleep(0.0005)
    try:
        out, _ = p.communicate(timeout=RUN_TIMEOUT)
        return p.returncode, False, out.decode(errors="replace")
    except subprocess.TimeoutExpired:
        p.kill()
        out, _ = p.communicate()
        return None, True, out.decode(errors="replace")


def build_prestate(binary, sc, root):
    """array with the base files synced once (plain, cache 1), then edited. Returns max info time."""
    os.makedirs(root)
    for l in range(sc.np):
        os.makedirs(os.path.join(root, "p%d" % (l + 1)))
    for c in (1, 2):
        os.makedirs(os.path.join(root, "c%d" % c))
    for d in range(sc.nd):
        os.makedirs(os.path.join(root, "d%d" % (d + 1)))
    write_conf(root, sc.nd, sc.np)
    for rel, data in sc.base:
        put(root, rel, data)
    rc, to, out = run_snap(binary, root, 1, ["sync"], os.path.join(root, "log-base"), now=T_BASE)
    if rc != 0:
        raise vlib.ToolFailure("base sync of scenario %s failed rc=%s\n%s" % (sc.name, rc, out))
    os.remove(os.path.join(root, "log-base"))
    sc.edit(root)


def copy_prestate(pre, dst):
    shutil.copytree(pre, dst, symlinks=True)
    write_conf(dst, len([d for d in os.listdir(dst) if re.fullmatch(r"d\d+", d)]),
               len([d for d in os.listdir(dst) if re.fullmatch(r"p\d+", d)]))


def sha(path):
    h = hashlib.sha256()
    with open(path, "rb") as f:
        h.update(f.read())
    return h.hexdigest()


def norm_content(path, tbase):
    """content file with the run dependent fields removed: free/total space, inode numbers (every run works on
    its own copy of the pre-state), parity directory and the CRC.  Info times are kept: the clock is frozen."""
    cs = content_mod.load(path)
    for k in ("crc", "info_oldest", "info_runs", "order"):
        cs.pop(k, None)
    cs["info"] = [None if e is None else (e["t"], e["bad"], e["rehash"], e["justsynced"]) for e in cs["info"]]
    for m in cs.get("maps", []):
        m.pop("total", None), m.pop("free", None)
    for p in cs.get("parity", []):
        p.pop("total", None), p.pop("free", None)
        for s in p.get("splits", []):
            if s.get("path"):
                s["path"] = os.path.basename(os.path.dirname(s["path"])) + "/" + os.path.basename(s["path"])
    for d in cs.get("disks", {}).values():
        for f in d.get("files", []):
            f.pop("inode", None)
    cs["items"] = [tuple(x for x in it) if not isinstance(it, dict) else it for it in cs.get("items", [])]
    return json.dumps(cs, sort_keys=True, default=lambda o: o.hex() if isinstance(o, (bytes, bytearray)) else str(o))


def max_info_time(path):
    cs = content_mod.load(path)
    ts = [e["t"] for e in cs["info"] if e is not None]
    return max(ts) if ts else 0


def result_of(root, sc, rc, log, tbase):
    """the observable result of a run: parity bytes, content, error tags, exit status"""
    res = {"rc": rc}
    res["parity"] = [sha(os.path.join(root, "p%d" % (l + 1), "parity")) for l in range(sc.np)
                     if os.path.exists(os.path.join(root, "p%d" % (l + 1), "parity"))]
    c1, c2 = os.path.join(root, "c1", "content"), os.path.join(root, "c2", "content")
    res["copies_equal"] = os.path.exists(c1) and os.path.exists(c2) and sha(c1) == sha(c2)
    res["content"] = hashlib.sha256(norm_content(c1, tbase).encode()).hexdigest()
    tags = []
    if os.path.exists(log):
        for line in open(log, errors="replace"):
            if line.startswith(TAGS):
                tags.append(line.rstrip("\n"))
    res["tags"] = sorted(tags)
    return res


def load_trace(path):
    """events of one process sorted by the sequence number; returns list of executions (each starts with Start)"""
    evs = []
    if os.path.exists(path):
        for line in open(path):
            line = line.strip()
            if line:
                evs.append(json.loads(line))
    evs.sort(key=lambda e: e["q"])
    for k, e in enumerate(evs):
        if e["q"] != k:
            raise vlib.ToolFailure("trace %s: sequence numbers not contiguous at %d" % (path, k))
    execs = []
    for e in evs:
        if e["k"] == "Start":
            execs.append([e])
        elif not execs:
            raise vlib.ToolFailure("trace %s does not start with a Start record" % path)
        else:
            execs[-1].append(e)
    return execs


def group_key(ex):
    h = ex[0]
    return json.dumps([h["n"], h["dc"], h["pc"], h["wmax"], h["bs"], h["bm"], h["en"]])


class TraceCheck:
    def __init__(self, ok, line=None, event=None, invariant=None, out="", wall=0.0, states=0):
        self.ok, self.line, self.event, self.invariant, self.out, self.wall, self.states = \
            ok, line, event, invariant, out, wall, states


def tlc_trace(path, tag):
    """validate one ndjson file (one or more executions with equal headers) against IoRingTrace"""
    res = vlib.run_tlc("IoRingTrace", cfg="IoRingTrace.cfg", workers=1, timeout=900,
                       env={"TRACE": path, "JAVA_TOOL_OPTIONS": "-XX:ParallelGCThreads=2 -XX:CICompilerCount=2"},
                       xmx="2g", tag=tag)
    o = res.out
    if "Model checking completed. No error has been found." in o:
        return TraceCheck(True, out=o, wall=res.wall, states=res.distinct)
    m = re.search(r"Invariant (\w+) is violated", o)
    if m:
        # the trace state where it fails: value of i in the last printed state
        idx = re.findall(r"/\\ i = (\d+)", o)
        return TraceCheck(False, line=(int(idx[-1]) - 1) if idx else None, invariant=m.group(1), out=o, wall=res.wall)
    if "TRACE-REJECTED" in o:
        m = re.search(r'"TRACE-REJECTED",\s*"line",\s*(\d+)', o)
        return TraceCheck(False, line=int(m.group(1)) if m else None, out=o, wall=res.wall)
    raise vlib.ToolFailure("TLC failed on trace %s: %s\n%s" % (path, res.error, o[-3000:]))


def write_ndjson(path, events):
    """the trace file for IoRingTrace, and <path>.hdr = one-line copy of the header record (see IoRingTrace.tla)"""
    with open(path, "w") as f:
        for e in events:
            f.write(json.dumps(e) + "\n")
    with open(path + ".hdr", "w") as f:
        f.write(json.dumps(events[0]) + "\n")


# ---------------------------------------------------------------------------------------
# scenario definitions

def make_scenarios(seed, big=True):
    S = []
    kb = 1024

    # S1: nearly empty array synced, then everything added: plain sync of 9 new stripes, 2 disks, 1 parity
    def e1(root):
        put(root, "d1/a", rbytes(seed * 100 + 1, 5 * kb + 100), 1600000100)
        put(root, "d1/b", rbytes(seed * 100 + 2, 2 * kb), 1600000100)
        put(root, "d2/c", rbytes(seed * 100 + 3, 7 * kb + 1), 1600000100)
    S.append(Scenario("sync-new-2d1p", 2, 1, [("d1/keep", rbytes(seed * 100 + 4, 300)), ("d2/keep", rbytes(seed * 100 + 5, kb))],
                      e1, ["sync"]))

    # S2: incremental sync with gaps (enabled subset), a file deleted after the scan (--test-run) => ERROR_CONTINUE
    base2 = [("d1/keep", rbytes(seed * 100 + 10, 2 * kb)), ("d2/keep", rbytes(seed * 100 + 11, kb + 5)),
             ("d3/keep", rbytes(seed * 100 + 12, 3 * kb)),
             ("d1/f1", rbytes(seed * 100 + 13, 6 * kb)), ("d2/f2", rbytes(seed * 100 + 14, 9 * kb + 17)),
             ("d3/f3", rbytes(seed * 100 + 15, 4 * kb)), ("d1/f4", rbytes(seed * 100 + 16, 5 * kb))]

    def e2(root):
        put(root, "d2/f2", rbytes(seed * 100 + 17, 9 * kb + 17), 1600000200)      # changed in place
        os.remove(os.path.join(root, "d3/f3"))                                      # deleted
        put(root, "d3/g", rbytes(seed * 100 + 18, 3 * kb), 1600000200)              # added
        put(root, "d1/h", rbytes(seed * 100 + 19, 2 * kb + 9), 1600000200)          # added, vanishes during sync
    S.append(Scenario("sync-incr-3d2p-vanish", 3, 2, base2, e2, ["--test-run", "rm -f {root}/d1/h", "sync"],
                      expect_rc=(1,)))

    # S3: forced full sync, 4 disks, 3 parities, 40 stripes (quick: 20)
    base3 = []
    for d in range(4):
        for k in range(4 if big else 2):
            base3.append(("d%d/s%d" % (d + 1, k), rbytes(seed * 100 + 30 + d * 4 + k, 10 * kb - (7 * d + k))))
    S.append(Scenario("sync-full-4d3p", 4, 3, base3, lambda root: None, ["-F", "sync"]))

    # S4: scrub of everything with a silent corruption and a missing file: reader errors, data errors
    base4 = [("d1/a", rbytes(seed * 100 + 50, 8 * kb)), ("d1/b", rbytes(seed * 100 + 51, 5 * kb + 3)),
             ("d2/c", rbytes(seed * 100 + 52, 11 * kb)), ("d3/d", rbytes(seed * 100 + 53, 6 * kb)),
             ("d3/e", rbytes(seed * 100 + 54, 6 * kb + 1000))]

    def e4(root):
        p = os.path.join(root, "d2/c")
        st = os.stat(p)
        with open(p, "r+b") as f:
            f.seek(3 * kb + 77)
            f.write(b"\xff\x00\xff")
        os.utime(p, ns=(st.st_atime_ns, st.st_mtime_ns))
        os.remove(os.path.join(root, "d3/d"))
    S.append(Scenario("scrub-full-3d2p-errors", 3, 2, base4, e4, ["-p", "full", "scrub"], expect_rc=(1,)))

    # S5: sync over 12 stripes with two silent errors each (synced blocks whose data rotted) next to a changed block:
    # the failed-block list has three entries, is filled in arrival order of the readers and must be sorted
    # before raid_rec (sync.c "because with threads it may be in any order"); 3 disks, 3 parities
    base5 = [("d1/a", rbytes(seed * 100 + 60, 12 * kb)), ("d2/b", rbytes(seed * 100 + 61, 12 * kb)),
             ("d3/c", rbytes(seed * 100 + 62, 12 * kb)),
             ("d1/keep", rbytes(seed * 100 + 63, 100)), ("d2/keep", rbytes(seed * 100 + 65, 100)),
             ("d3/keep", rbytes(seed * 100 + 66, 100))]

    def e5(root):
        for rel in ("d1/a", "d2/b"):
            p = os.path.join(root, rel)
            st = os.stat(p)
            with open(p, "r+b") as f:
                for blk in range(12):
                    f.seek(blk * kb + 11)
                    f.write(b"rotten")
            os.utime(p, ns=(st.st_atime_ns, st.st_mtime_ns))
        put(root, "d3/c", rbytes(seed * 100 + 64, 12 * kb), 1600000300)
    S.append(Scenario("sync-silent-3d3p", 3, 3, base5, e5, ["sync"], expect_rc=(1,)))

    # S6: scrub of stripes in which one disk has a file whose time stamp changed since the sync (errors expected there) and
    # another disk has silently rotted blocks (must be found and marked whatever the order in which the readers finish)
    base6 = [("d1/a", rbytes(seed * 100 + 70, 6 * kb)), ("d2/b", rbytes(seed * 100 + 71, 6 * kb)),
             ("d3/c", rbytes(seed * 100 + 72, 6 * kb)), ("d1/keep", rbytes(seed * 100 + 73, 100)),
             ("d2/keep", rbytes(seed * 100 + 74, 100)), ("d3/keep", rbytes(seed * 100 + 75, 100))]

    def e6(root):
        os.utime(os.path.join(root, "d1/a"), ns=(1600000400 * 10**9, 1600000400 * 10**9))      # touched only
        p = os.path.join(root, "d2/b")
        st = os.stat(p)
        with open(p, "r+b") as f:
            for blk in (1, 2, 4):
                f.seek(blk * kb + 5)
                f.write(b"rot")
        os.utime(p, ns=(st.st_atime_ns, st.st_mtime_ns))
        p = os.path.join(root, "d3/c")
        st = os.stat(p)
        with open(p, "r+b") as f:
            f.seek(3 * kb + 9)
            f.write(b"rot")
        os.utime(p, ns=(st.st_atime_ns, st.st_mtime_ns))
    S.append(Scenario("scrub-touched-and-rotten-3d2p", 3, 2, base6, e6, ["-p", "full", "scrub"], expect_rc=(1,)))

    # S7: files moved from one disk to another, in both directions of the configuration order (same name, size and time stamp,
    # gone from the source): the copy detection of each scanner thread looks into the files of the other disks, the result must
    # not depend on which scanner finishes first (jobs with one late scanner each)
    base7 = [("d1/m", rbytes(seed * 100 + 80, 3 * kb)), ("d2/keep", rbytes(seed * 100 + 81, 2 * kb)),
             ("d3/n", rbytes(seed * 100 + 82, 2 * kb + 7)), ("d1/keep", rbytes(seed * 100 + 83, 100)),
             ("d3/keep", rbytes(seed * 100 + 84, 100)), ("d2/o", rbytes(seed * 100 + 85, 4 * kb))]

    def e7(root):
        for src, dst in (("d1/m", "d2/m"), ("d3/n", "d1/n"), ("d2/o", "d3/sub/o")):
            ps = os.path.join(root, src)
            st = os.stat(ps)
            os.makedirs(os.path.dirname(os.path.join(root, dst)), exist_ok=True)
            shutil.copyfile(ps, os.path.join(root, dst))
            os.utime(os.path.join(root, dst), ns=(st.st_mtime_ns, st.st_mtime_ns))
            os.remove(ps)
    S.append(Scenario("sync-moved-across-disks-3d1p", 3, 1, base7, e7, ["sync"]))

    # S8: scrub plans that select no stripe at all (nothing bad, nothing new): no task may be executed, whatever the cache depth
    base8 = [("d1/a", rbytes(seed * 100 + 90, 4 * kb)), ("d2/b", rbytes(seed * 100 + 91, 3 * kb + 1)),
             ("d3/c", rbytes(seed * 100 + 92, 5 * kb))]
    S.append(Scenario("scrub-bad-nothing-3d2p", 3, 2, base8, lambda root: None, ["-p", "bad", "scrub"]))
    S.append(Scenario("scrub-new-nothing-3d2p", 3, 2, base8, lambda root: None, ["-p", "new", "scrub"]))

    # S9: a new file takes the positions freed by a deleted one and vanishes after the scan; in the same stripes another disk has
    # changed blocks: these stripes need a parity update and are skipped, nothing may be written there - the parity keeps
    # protecting the unchanged blocks of the third disk - in every mode
    base9 = [("d1/keep", rbytes(seed * 100 + 110, 2 * kb)), ("d2/keep", rbytes(seed * 100 + 111, 2 * kb)),
             ("d3/keep", rbytes(seed * 100 + 112, 2 * kb)),
             ("d1/f1", rbytes(seed * 100 + 113, 6 * kb)), ("d2/f2", rbytes(seed * 100 + 114, 11 * kb)),
             ("d3/f3", rbytes(seed * 100 + 115, 11 * kb)), ("d1/f4", rbytes(seed * 100 + 116, 5 * kb))]

    def e9(root):
        os.remove(os.path.join(root, "d1/f4"))                                     # frees 8..12 on d1
        put(root, "d1/h", rbytes(seed * 100 + 117, 3 * kb), 1600000500)             # takes 8..10, vanishes / is touched during sync
        put(root, "d2/f2", rbytes(seed * 100 + 118, 11 * kb), 1600000500)           # changed in place
    S.append(Scenario("sync-skipped-needing-update-3d2p", 3, 2, base9, e9, ["--test-run", "rm -f {root}/d1/h", "sync"],
                      expect_rc=(1,)))
    S.append(Scenario("sync-skipped-needing-update-touch-3d2p", 3, 2, base9, e9,
                      ["--test-run", "touch -d @1600000777 {root}/d1/h", "sync"], expect_rc=(1,)))
    return S


# ---------------------------------------------------------------------------------------

def model_check(v, tier, cov):
    phases = MC_QUICK if tier == "quick" else MC_THOROUGH
    t0 = time.time()
    results = []
    for cfgs in phases:
        with ThreadPoolExecutor(max_workers=len(cfgs)) as ex:
            futs = [(cfg, ex.submit(lambda cfg=cfg, w=w: vlib.run_tlc(
                "IoRing", cfg=cfg, workers=w, timeout=3000, xmx="6g", coverage=(tier == "thorough"), tag="C13-" + cfg)))
                for cfg, w in cfgs]
            results += [(cfg, f.result()) for cfg, f in futs]
    states = trans = 0
    taken = {}
    for cfg, r in results:
        if r.violated:
            v.violation("model %s: %s violated on IoRing.tla (TLC counterexample attached)" % (cfg, r.violated),
                        {"cfg": cfg, "violated": r.violated, "trace": r.trace[-40:], "replay": "cd spec && tlc -config %s IoRing.tla" % cfg})
        elif r.error:
            raise vlib.ToolFailure("TLC %s: %s\n%s" % (cfg, r.error, r.out[-2000:]))
        states += r.distinct
        trans += r.generated
        for a, (n, _) in r.coverage.items():
            taken[a] = taken.get(a, 0) + n
        cov["model_configs"].append({"cfg": cfg, "distinct": r.distinct, "generated": r.generated, "depth": r.depth,
                                     "wall_s": round(r.wall, 1),
                                     "liveness": "Termination under FairSpec" if "_safe_" not in cfg else "none (safety only)"})
        print("  model %-26s %9d distinct %10d generated depth %3d  %.0fs" % (cfg, r.distinct, r.generated, r.depth, r.wall))
    if tier == "thorough":
        never = [a for a in ACTIONS if taken.get(a, 0) == 0]
        cov["action_coverage"] = {a: taken.get(a, 0) for a in ACTIONS}
        if never:
            raise vlib.ToolFailure("model actions never taken by any configuration (property not exercised): %s" % never)
    cov["states"], cov["transitions"] = states, trans
    cov["model_wall_s"] = round(time.time() - t0, 1)


def run(tier):
    """any unexpected exception of the harness is a tool failure (exit 2), never a verdict"""
    try:
        return _run(tier)
    except vlib.ToolFailure:
        raise
    except Exception as e:
        import traceback
        traceback.print_exc()
        raise vlib.ToolFailure("C13 harness exception: %r" % (e,))


def _run(tier):
    v = vlib.Verdict("C13", tier, "model_checking")
    cov = {"model_configs": [], "samples": [], "exhaustive": True}
    if content_mod is None:
        raise vlib.ToolFailure("harness/py/content.py (independent content decoder) is required")
    binary = vlib.build("hooks")
    SHIM[0] = vlib.build_shim()
    seed = vlib.seed()
    rnd = random.Random(seed)
    nseeds = 2 if tier == "quick" else 8
    scratch = vlib.scratch_root()
    try:
        # (a) the model, in the background of nothing: run first, it is the long part
        # (VERIF_C13_PART=traces skips the model, =model skips the traces: development aid only,
        #  the registered commands never set it)
        part = os.environ.get("VERIF_C13_PART", "all")
        if part != "traces":
            model_check(v, tier, cov)
        else:
            cov["states"], cov["transitions"] = 0, 0
        if part == "model":
            return v.finish(cov)

        # (b)+(c) real runs
        scenarios = make_scenarios(seed, big=(tier != "quick"))
        pres = {}
        tbase = {}
        for sc in scenarios:
            pre = os.path.join(scratch, "pre-" + sc.name)
            build_prestate(binary, sc, pre)
            pres[sc.name] = pre
            tbase[sc.name] = max_info_time(os.path.join(pre, "c1", "content"))

        tdir = os.path.join(scratch, "traces")
        os.makedirs(tdir)
        jobs = []          # (scenario, cache, yseed, outside)
        for sc in scenarios:
            for c in CACHES:
                for k in range(nseeds):
                    jobs.append((sc, c, rnd.randrange(1, 2 ** 31), (k % 2 == 1) and c > 1))
            # skewed readers: each data disk in turn is the slow one (threaded modes only)
            for dsk in range(1, sc.nd + 1):
                jobs.append((sc, [3, 8, 128][dsk % 3], rnd.randrange(1, 2 ** 31), False, dsk))
            # skewed scanners: each data disk in turn is scanned late (commands that scan: sync)
            if "sync" in sc.cmd:
                for dsk in range(1, sc.nd + 1):
                    jobs.append((sc, [4, 1, 32][dsk % 3], rnd.randrange(1, 2 ** 31), False, None, dsk))
        counter = [0]

        def do_run(job, sigint=None, tagx=""):
            sc, cache, yseed, outside = job[:4]
            slow = job[4] if len(job) > 4 else None
            slowscan = job[5] if len(job) > 5 else None
            counter[0] += 1
            rid = "%s-c%d-y%d%s%s%s" % (sc.name, cache, yseed, "-out" if outside else "", ("-slow%d" % slow if slow else "") + ("-slowscan%d" % slowscan if slowscan else ""), tagx)
            root = os.path.join(scratch, "w-" + rid)
            copy_prestate(pres[sc.name], root)
            tr = os.path.join(tdir, rid + ".ndjson")
            log = os.path.join(root, "log")
            cmd = [a.replace("{root}", root) for a in sc.cmd]
            rc, to, out = run_snap(binary, root, cache, cmd, log, trace=tr, yseed=yseed, sigint_after=sigint,
                                   outside=outside, slow=slow, slowscan=slowscan)
            r = {"id": rid, "scenario": sc.name, "cache": cache, "yseed": yseed, "outside": outside, "rc": rc,
                 "timeout": to, "trace": tr, "out": out[-1500:],
                 "replay_cmd": "SNAPRAID_VERIF_YIELD=%d SNAPRAID_VERIF_IOTRACE=<file> " % yseed +
                               " ".join(snap_args("<binary>", "<copy of pre-state>", cache,
                                                  (["--test-cond-signal-outside"] if outside else []) + sc.cmd, "<log>"))}
            if not to and sigint is None:
                r["result"] = result_of(root, sc, rc, log, tbase[sc.name])
            shutil.rmtree(root, ignore_errors=True)
            return r

        # reference results: mono mode, no perturbation, no trace
        refs = {}
        for sc in scenarios:
            root = os.path.join(scratch, "ref-" + sc.name)
            copy_prestate(pres[sc.name], root)
            log = os.path.join(root, "log")
            rc, to, out = run_snap(binary, root, 1, [a.replace("{root}", root) for a in sc.cmd], log)
            if to or rc not in sc.expect_rc:
                raise vlib.ToolFailure("reference run of %s: rc=%s timeout=%s\n%s" % (sc.name, rc, to, out[-1500:]))
            refs[sc.name] = result_of(root, sc, rc, log, tbase[sc.name])
            if not refs[sc.name]["copies_equal"]:
                raise vlib.ToolFailure("reference run of %s: content copies differ" % sc.name)
            shutil.rmtree(root, ignore_errors=True)

        with ThreadPoolExecutor(max_workers=6) as ex:
            runs = list(ex.map(do_run, jobs))

        # early stop runs (SIGINT at a seeded instant): trace validation only
        nint = 4 if tier == "quick" else 24
        ijobs = [(scenarios[k % len(scenarios)], [3, 4, 8, 1][k % 4], rnd.randrange(1, 2 ** 31), False) for k in range(nint)]
        with ThreadPoolExecutor(max_workers=4) as ex:
            iruns = list(ex.map(lambda jk: do_run(jk[1], sigint=1000 + 2500 * (jk[0] % 6) + rnd.randrange(2000), tagx="-int%d" % jk[0]),
                                list(enumerate(ijobs))))

        jobmap = {r["id"]: j for r, j in list(zip(runs, jobs)) + list(zip(iruns, ijobs))}
        interrupted = set(r["id"] for r in iruns)

        def abnormal(r):
            """a run that did not end by itself with an exit status of snapraid"""
            if r["timeout"]:
                return "does not terminate within %d s" % RUN_TIMEOUT
            if r["rc"] is None or r["rc"] < 0 or r["rc"] >= 126:
                return "abnormal termination (exit status %s): %s" % (r["rc"], r["out"][-300:].replace("\n", " | "))
            return None

        def trace_problem(r):
            """stand-alone check of one recording: None if it is a complete, accepted trace"""
            ab = abnormal(r)
            if ab:
                return ab, None
            execs = load_trace(r["trace"])
            if not execs:
                return ("no trace", None) if r["id"] not in interrupted and "-int" not in r["id"] else (None, None)
            if any(exn[-1]["k"] not in ("Join", "Stop") for exn in execs):
                return "trace truncated (rc %s)" % r["rc"], None
            p2 = os.path.join(tdir, r["id"] + ".sorted.ndjson")
            for exn in execs:          # one file per execution: the headers may differ
                write_ndjson(p2, exn)
                tc = tlc_trace(p2, "C13-trace-re")
                if not tc.ok:
                    return describe(tc, tc.line, exn), tc
            return None, None

        def describe(tc, line, exn):
            what = ("invariant %s violated in the trace state after record %d" % (tc.invariant, line)) if tc.invariant \
                else ("record %d is not a step of IoRing" % line)
            rec = json.dumps(exn[line - 1]) if line and 0 < line <= len(exn) else "?"
            return what + ": " + rec

        # suspects: (run, description, context) - everything that is not a complete accepted trace
        suspects = []
        hangs = 0
        def prefix_info(r):
            """what IoRingTrace says about the (truncated) trace of a run that hung or crashed"""
            try:
                execs = load_trace(r["trace"])
                if not execs:
                    return ""
                p2 = os.path.join(tdir, r["id"] + ".prefix.ndjson")
                write_ndjson(p2, execs[-1])
                tc = tlc_trace(p2, "C13-trace-prefix")
                if tc.ok or tc.invariant == "LastIsDone":
                    return "; the %d records it logged are a prefix of a behaviour of IoRing" % len(execs[-1])
                return "; trace prefix: " + describe(tc, tc.line, execs[-1])
            except vlib.ToolFailure:
                return ""

        for r in runs + iruns:
            ab = abnormal(r)
            if ab:
                hangs += 1 if r["timeout"] else 0
                suspects.append((r, ab, None))

        # (c) determinism against the reference
        ndet = 0
        for r in runs:
            if abnormal(r) or "result" not in r:
                continue
            ref, got = refs[r["scenario"]], r["result"]
            diffs = [k for k in ("rc", "parity", "content", "tags", "copies_equal") if ref[k] != got[k]]
            ndet += 1
            if diffs:
                v.violation("determinism: %s with --test-io-cache %d yield %d differs from the mono-thread reference in %s"
                            % (r["scenario"], r["cache"], r["yseed"], diffs),
                            {"run": r, "reference": ref, "differs": diffs})

        # (b) trace validation, batched per parameter group
        groups = {}
        nevents = 0
        early = 0
        for r in runs + iruns:
            if abnormal(r):
                continue
            execs = load_trace(r["trace"])
            if not execs and r["id"] in interrupted:
                continue           # interrupted before io_start
            if not execs:
                raise vlib.ToolFailure("run %s produced no trace (hook H1 not active in %s?)" % (r["id"], binary))
            if any(exn[-1]["k"] not in ("Join", "Stop") for exn in execs):
                suspects.append((r, "trace truncated (rc %s)" % r["rc"], None))
                continue
            for exn in execs:
                nevents += len(exn)
                stopped = [e for e in exn if e["k"] == "ReadNext"]
                if stopped and (stopped[-1].get("cp", stopped[-1]["pos"]) < exn[0]["bm"]):
                    early += 1
                groups.setdefault(group_key(exn), []).append((r, exn))

        def check_group(item):
            """returns (number accepted, list of failing (run, description, context))"""
            gi, (key, members) = item
            members = list(members)
            accepted, failed = 0, []
            while members:
                path = os.path.join(tdir, "group%03d.ndjson" % gi)
                write_ndjson(path, [e for _, exn in members for e in exn])
                tc = tlc_trace(path, "C13-trace-g%d" % gi)
                if os.environ.get("VERIF_C13_DEBUG"):
                    print("    group %d: %d executions %d records %.1fs ok=%s" % (gi, len(members), sum(len(x) for _, x in members), tc.wall, tc.ok))
                if tc.ok:
                    accepted += len(members)
                    break
                # which execution holds the failing line
                line, k, off = tc.line or 1, 0, 0
                while k < len(members) - 1 and off + len(members[k][1]) < line:
                    off += len(members[k][1])
                    k += 1
                accepted += k
                r, exn = members[k]
                line -= off
                failed.append((r, describe(tc, line, exn),
                               {"header": exn[0], "rejected_at": line, "invariant": tc.invariant,
                                "records_before": exn[max(0, line - 8):line + 1], "tlc": tc.out[-3000:]}))
                members = members[k + 1:]
                if len(failed) >= 2:
                    break          # enough for this group; the rest is not counted as validated
            return accepted, failed

        with ThreadPoolExecutor(max_workers=8) as ex:
            gres = list(ex.map(check_group, list(enumerate(groups.items()))))
        validated = sum(a for a, _ in gres)
        for _, failed in gres:
            suspects.extend(failed)

        # a suspect is reported only if a second recording of the same scenario / cache / seed fails too
        rejected = 0
        MAXS = 6
        if len(suspects) > MAXS:
            print("  note: %d suspect recordings, only the first %d are re-recorded" % (len(suspects), MAXS))

        def confirm(sus):
            r, what, ctx = sus
            for attempt in range(2):
                r2 = do_run(jobmap[r["id"]], tagx="-re%d" % attempt,
                            sigint=None)
                prob, tc2 = trace_problem(r2)
                if prob:
                    return sus, prob, r2
            return sus, None, None
        with ThreadPoolExecutor(max_workers=3) as ex:
            for (r, what, ctx), prob2, r2 in ex.map(confirm, suspects[:MAXS]):
                if prob2:
                    rejected += 1
                    kind = "termination" if r["timeout"] else "trace"
                    if abnormal(r):
                        what += prefix_info(r)
                    v.violation("%s: %s with --test-io-cache %d, yield seed %d%s: %s  [second recording: %s]"
                                % (kind, r["scenario"], r["cache"], r["yseed"], " (signal outside)" if r["outside"] else "",
                                   what, prob2),
                                {"run": r, "what": what, "context": ctx, "second_recording": {"what": prob2, "run": r2}})
                else:
                    print("  note: %s: %s - but two further recordings were complete and accepted; not reported" % (r["id"], what))
                    cov.setdefault("unconfirmed_suspects", []).append({"run": r["id"], "what": what})

        # (d) self-test of the binding on one accepted threaded sync trace
        selftest = []
        cand = [(r, exn) for key, ms in groups.items() for r, exn in ms
                if exn[0]["n"] > 1 and exn[0]["wmax"] > 0 and not r["timeout"]]
        if not cand or v.violations:
            if not v.violations:
                raise vlib.ToolFailure("no threaded sync trace available for the binding self-test")
        else:
            r, exn = cand[0]
            base = os.path.join(tdir, "selftest-base.ndjson")
            write_ndjson(base, exn)
            if not tlc_trace(base, "C13-self").ok:
                raise vlib.ToolFailure("self-test base trace is not accepted alone")
            muts = []
            a = copy.deepcopy(exn)
            ks = [j for j, e in enumerate(a) if e["k"] == "ReaderTake"]
            j = ks[len(ks) // 2]
            a[j]["ri"] = (a[j]["ri"] + 1) % a[0]["n"]
            muts.append(("shift reader_index of one ReaderTake", a))
            a = copy.deepcopy(exn)
            ks = [j for j, e in enumerate(a) if e["k"] == "WriterTake"]
            del a[ks[len(ks) // 2]]
            muts.append(("drop one WriterTake", a))
            a = copy.deepcopy(exn)
            ks = [j for j, e in enumerate(a) if e["k"] == "CallerGot"]
            a[ks[len(ks) // 2]]["st"] = -3
            muts.append(("CallerGot returns a state the reader never produced", a))
            a = copy.deepcopy(exn)
            ks = [j for j, e in enumerate(a) if e["k"] == "TaskEnd" and e["a"].startswith("r")]
            j = ks[len(ks) // 2]
            # move a reader TaskEnd after the CallerGot that consumes it: the caller used the buffer while busy
            g = next(x for x in range(j + 1, len(a)) if a[x]["k"] == "CallerGot" and a[x]["x"] == a[j]["t"] and a[x]["pos"] == a[j]["pos"])
            e = a.pop(j)
            a.insert(g, e)
            muts.append(("reader TaskEnd moved after the CallerGot of its slot", a))

            def st(m):
                name, evs = m
                p = os.path.join(tdir, "selftest-%s.ndjson" % hashlib.sha1(name.encode()).hexdigest()[:6])
                write_ndjson(p, evs)
                return name, tlc_trace(p, "C13-self")
            with ThreadPoolExecutor(max_workers=4) as ex:
                for name, tc in ex.map(st, muts):
                    selftest.append({"mutation": name, "rejected": not tc.ok, "at": tc.line, "invariant": tc.invariant})
                    if tc.ok:
                        raise vlib.ToolFailure("binding self-test: corrupted trace accepted (%s)" % name)

        sample = None
        for key, ms in groups.items():
            r, exn = ms[0]
            if exn[0]["n"] == 3 and sample is None:
                sample = {"run": {k: r[k] for k in ("scenario", "cache", "yseed", "outside", "rc")},
                          "header": exn[0], "first_records": exn[1:25], "records": len(exn)}
        cov["samples"] = [sample] if sample else []
        cov["samples"].append({"scenario_list": [{"name": s.name, "disks": s.nd, "parities": s.np, "cmd": s.cmd} for s in scenarios],
                               "caches": CACHES})
        cov["samples"].append({"reference_result": {k: refs[scenarios[1].name][k] for k in ("rc", "tags")}})
        cov.update({"traces_validated_against_impl": validated, "trace_events": nevents, "trace_groups": len(groups),
                    "runs": len(runs) + len(iruns), "determinism_comparisons": ndet, "early_stop_traces": early,
                    "hangs": hangs, "trace_rejections_confirmed": rejected, "binding_selftest": selftest,
                    "yield_seeds_per_cache": nseeds})
        print("  traces: %d executions validated (%d events, %d TLC batches), %d determinism comparisons, %d early stops, self-test %s"
              % (validated, nevents, len(groups), ndet, early, [s["rejected"] for s in selftest]))
        if not v.violations and not cov.get("unconfirmed_suspects") and validated < len(runs):
            raise vlib.ToolFailure("only %d of %d traces validated" % (validated, len(runs)))
        return v.finish(cov, assumptions=[
            "io_mutex is represented by the atomicity of the IoRing actions (each = the code between lock and unlock/cond_wait)",
            "wake-ups are not observable in a trace: a step logged by a thread is taken as evidence that it was woken",
            "writer errors reported to the caller are excluded from Deterministic (known defect F4, see IoRing_errors.cfg)",
            "content files are compared modulo free space, inode numbers, parity directory and CRC; the clock is frozen by the LD_PRELOAD shim (time() only)",
            "hook H1 (cmdline/io.c under SNAPRAID_VERIF) is trusted to log what it executes"])
    finally:
        shutil.rmtree(scratch, ignore_errors=True)
