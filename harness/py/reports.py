"""C20: reports and derived views (list, dup, status, pool) against spec/Reports.tla.

Histories (seeded, scen.Gen style) on real arrays with a nasty name alphabet, links, duplicate groups, interrupted
syncs, silent corruption + scrub (bad marks), pre-existing pool contents and share prefixes.  After every command
of the history the battery
    list -l / list (terminal) / list -v (terminal, full time stamps) / dup -l (+ terminal) / status -l /
    status -G -l / pool / pool (again)
is run; the -l tag stream is decoded with the inverse of the documented tag escaping and the terminal stream
with the inverse of the shell-style escaping (support.c esc_tag / esc_shell); one trace event per command carries
the full projected recorded state and the decoded output.  spec/ReportsTrace.tla decides output = function(state).

Names: three spellings are used
    bytes           the truth (what is on the file system and in the content file)
    latin1 str      observer / recorder vocabulary (content decoder)
    enc str         printable ASCII, injective ('%XX' for everything outside 0x20..0x7e and for '%'): the trace
"""
import os, re, json, random, calendar, hashlib, stat, shlex, subprocess, time, traceback, multiprocessing, tempfile
import vlib, arr, observer, recorder, scen
from arr import BS, BASE_TIME

SPECIAL_TAG = b":\n\r\\"          # what esc_tag escapes


# ---------------------------------------------------------------------------------------
# spellings
def enc(b):
    if isinstance(b, str):
        b = b.encode("latin1")
    return "".join(chr(c) if 0x20 <= c <= 0x7e and c != 0x25 else "%%%02X" % c for c in b)


def dec(s):
    out = bytearray()
    i = 0
    while i < len(s):
        if s[i] == "%":
            out.append(int(s[i + 1:i + 3], 16)); i += 3
        else:
            out.append(ord(s[i])); i += 1
    return bytes(out)


def l1(b):
    return b.decode("latin1")


def fsname(b):
    """bytes -> the str the os module wants (surrogateescape)"""
    return os.fsdecode(b)


# ---------------------------------------------------------------------------------------
# decoders (inverse of esc_tag / esc_shell); they know nothing about the recorded state
def tag_fields(line):
    """one log line (bytes, without the newline) -> list of fields (bytes) or None when the line is not a
    well-formed tag line under the documented escaping (\\d \\n \\r \\\\; no raw CR)"""
    if b"\r" in line:
        return None
    i = 0
    while i < len(line):
        if line[i] == 0x5c:
            if i + 1 >= len(line) or line[i + 1:i + 2] not in (b"d", b"n", b"r", b"\\"):
                return None
            i += 2
        else:
            i += 1
    return [f.encode("latin1") for f in arr.split_tag(line)]


HEADER_TAGS = {b"version", b"unixtime", b"time", b"command", b"argv", b"conf", b"blocksize", b"data", b"mode", b"pool",
               b"share", b"autosave", b"filter", b"content", b"msg", b"memory", b"resolve", b"hashsize", b"z-parity",
               b"thermal", b"smartctl"} | {x.encode() for x in arr.LEVELS}


def _int(b):
    if not re.fullmatch(rb"-?\d+", b):
        raise ValueError(b)
    return int(b)


def unesc_shell(b):
    """inverse of esc_shell (unix): a backslash quotes the next byte; returns None for a dangling backslash"""
    out = bytearray()
    i = 0
    while i < len(b):
        if b[i] == 0x5c:
            if i + 1 >= len(b):
                return None
            out.append(b[i + 1]); i += 2
        else:
            out.append(b[i]); i += 1
    return bytes(out)


SHELL_SPECIAL = b" ~`#$&*()\\|[]{};'\"<>?"


def shell_wellformed(b):
    """every special byte is quoted and nothing else is (esc_shell is a function: its image is exactly this)"""
    i = 0
    while i < len(b):
        if b[i] == 0x5c:
            if i + 1 >= len(b) or b[i + 1] not in SHELL_SPECIAL:
                return False
            i += 2
        else:
            if b[i] in SHELL_SPECIAL:
                return False
            i += 1
    return True


def split_unescaped(b, sep):
    """split an escaped string at the first occurrence of sep that is not inside an escape pair"""
    i = 0
    while i < len(b):
        if b[i] == 0x5c:
            i += 2
            continue
        if b.startswith(sep, i):
            return b[:i], b[i + len(sep):]
        i += 1
    return None


class Decoder:
    """disk names <-> ids of one array"""

    def __init__(self, disk_names):
        self.ids = {n.encode(): str(i) for i, n in enumerate(disk_names)}
        self.msg_continuations = 0

    # ---- tag stream
    def log(self, raw, handlers):
        """handlers: {tag: fn(fields) -> None or raises}; returns list of junk lines (enc)"""
        junk = []
        lines = raw.split(b"\n")
        if lines and lines[-1] == b"":
            lines.pop()
        in_msg = False            # 'msg:' lines mirror the free text of the terminal messages (never escaped, may span lines)
        for line in lines:
            f = tag_fields(line)
            if f is not None and f[0] in handlers:
                in_msg = False
                try:
                    handlers[f[0]](f)
                except (ValueError, KeyError, IndexError):
                    junk.append(enc(line))
            elif f is not None and f[0] in HEADER_TAGS:
                in_msg = f[0] == b"msg"
            elif in_msg:
                self.msg_continuations += 1
            else:
                junk.append(enc(line))
        return junk

    def list_log(self, raw):
        files, links, summ = [], [], {"file_count": -1, "file_size": -1, "link_count": -1, "exit": ""}

        def h_file(f):
            if len(f) != 7:
                raise ValueError
            files.append({"d": self.ids[f[1]], "n": enc(f[2]), "sz": _int(f[3]), "s": _int(f[4]) - BASE_TIME, "ns": _int(f[5]),
                          "ino": f[6].decode()})

        def h_link(kind):
            def h(f):
                if len(f) != 4:
                    raise ValueError
                links.append({"d": self.ids[f[1]], "n": enc(f[2]), "k": kind, "to": enc(f[3])})
            return h

        def h_sum(f):
            if f[1] == b"exit":
                summ["exit"] = f[2].decode()
            elif f[1].decode() in summ and len(f) == 3:
                summ[f[1].decode()] = _int(f[2])
            else:
                raise ValueError
        hs = {b"file": h_file, b"summary": h_sum}
        for k in ("hardlink", "symlink", "symdir", "junction"):
            hs[b"link_" + k.encode()] = h_link(k)
        junk = self.log(raw, hs)
        return {"files": files, "links": links, "sum": summ, "junk": junk}

    def dup_log(self, raw):
        pairs, summ = [], {"dup_count": -1, "dup_size": -1, "exit": ""}

        def h_dup(f):
            if len(f) != 7 or f[6] != b" dup":
                raise ValueError
            pairs.append({"d": self.ids[f[1]], "n": enc(f[2]), "d2": self.ids[f[3]], "n2": enc(f[4]), "sz": _int(f[5])})

        def h_sum(f):
            if f[1] == b"exit":
                summ["exit"] = f[2].decode()
            elif f[1].decode() in summ and len(f) == 3:
                summ[f[1].decode()] = _int(f[2])
            else:
                raise ValueError
        junk = self.log(raw, {b"dup": h_dup, b"summary": h_sum})
        return {"pairs": pairs, "sum": summ, "junk": junk}

    SUMMARY_INT = ("block_size", "parity_block_count", "has_unsynced", "has_unscrubbed", "has_rehash", "file_count",
                   "file_block_count", "fragmented_file_count", "excess_fragment_count", "zerosubsecond_file_count",
                   "file_size", "parity_size")
    SUMMARY_DISK = {"disk_file_count": "file_count", "disk_block_count": "block_count",
                    "disk_fragmented_file_count": "fragmented", "disk_excess_fragment_count": "excess",
                    "disk_zerosubsecond_file_count": "zerosub", "disk_file_size": "file_size",
                    "disk_block_allocated": "allocated"}
    # figures of the file systems sampled by the last sync, CPU dependent choices: not functions of the recorded state
    SUMMARY_SKIP = ("parity_block_total", "parity_block_free", "parity_block_free_min", "disk_block_total", "disk_block_free",
                    "disk_block_max_by_space", "disk_block_max_by_parity", "disk_block_max", "disk_space_wasted",
                    "parity_size_max", "prev_hash", "best_hash")

    def status_log(self, raw, nd):
        out = {"blocks": [], "sum": {k: -1 for k in self.SUMMARY_INT}, "has_bad": [-1, -1, -1], "hash": "",
               "disks": {str(d): {v: -1 for v in self.SUMMARY_DISK.values()} for d in range(nd)}, "zs": [], "info_times": []}
        out["sum"]["block_count"] = -1
        out["sum"]["info_count"] = -1

        def flag(b, word):
            if b == word:
                return True
            if b == b"":
                return False
            raise ValueError

        def h_block(f):
            if len(f) != 7:
                raise ValueError
            out["blocks"].append({"pos": _int(f[1]), "info": True, "t": _int(f[2]) - BASE_TIME, "used": flag(f[3], b"used"),
                                  "unsynced": flag(f[4], b"unsynced"), "bad": flag(f[5], b"bad"), "rh": flag(f[6], b"rehash")})

        def h_noinfo(f):
            if len(f) != 4:
                raise ValueError
            out["blocks"].append({"pos": _int(f[1]), "info": False, "t": 0, "used": flag(f[2], b"used"),
                                  "unsynced": flag(f[3], b"unsynced"), "bad": False, "rh": False})

        def h_zs(f):
            if len(f) != 4 or f[3] not in (b" ", b" (more follow)"):
                raise ValueError
            out["zs"].append({"d": self.ids[f[1]], "n": enc(f[2]), "more": f[3] != b" "})

        def h_sum(f):
            k = f[1].decode()
            if k in self.SUMMARY_INT and len(f) == 3:
                out["sum"][k] = _int(f[2])
            elif k in self.SUMMARY_DISK and len(f) == 4:
                out["disks"][self.ids[f[2]]][self.SUMMARY_DISK[k]] = _int(f[3])
            elif k == "has_bad" and len(f) == 5:
                out["has_bad"] = [_int(f[2]), _int(f[3]), _int(f[4])]
            elif k == "hash" and len(f) == 3:
                out["hash"] = f[2].decode()
            elif k in self.SUMMARY_SKIP:
                pass
            else:
                raise ValueError

        def h_count(key):
            def h(f):
                if len(f) != 2:
                    raise ValueError
                out["sum"][key] = _int(f[1])
            return h

        def h_it(f):
            if len(f) != 4 or f[3] not in (b"scrubbed", b"new"):
                raise ValueError
            out["info_times"].append({"t": _int(f[1]) - BASE_TIME, "n": _int(f[2]), "js": f[3] == b"new"})
        out["junk"] = self.log(raw, {b"block": h_block, b"block_noinfo": h_noinfo, b"zerosubsecond": h_zs, b"summary": h_sum,
                                     b"block_count": h_count("block_count"), b"info_count": h_count("info_count"),
                                     b"info_time": h_it})
        return out

    def pool_log(self, raw):
        out = {"link_count": -1, "exit": ""}

        def h_sum(f):
            if f[1] == b"link_count" and len(f) == 4 and f[2] == b"":
                out["link_count"] = _int(f[3])
            elif f[1] == b"exit":
                out["exit"] = f[2].decode()
            else:
                raise ValueError
        out["junk"] = self.log(raw, {b"summary": h_sum})
        return out

    # ---- terminal stream
    def _name(self, esc, mode):
        """escaped terminal name -> (disk id or "", name bytes) or None"""
        if not shell_wellformed(esc):
            return None
        b = unesc_shell(esc)
        if b is None:
            return None
        if mode == "disk":
            i = b.find(b":")
            if i < 0 or b[:i] not in self.ids:
                return None
            return self.ids[b[:i]], b[i + 1:]
        return "", b

    RE_FILE = re.compile(rb"^([ \d]{12}) (\d{4})/(\d\d)/(\d\d) (\d\d):(\d\d)(?::(\d\d)\.(\d{9}))? ")
    RE_LINK = re.compile(rb"^ *(hardlink|symlink|symdir|junction) {18}( {13})?")

    def list_term(self, out, mode, verbose):
        res = {"mode": mode, "verbose": verbose, "files": [], "links": [], "junk": []}
        if verbose:
            i = out.find(b"Listing...\n")
            if i < 0:
                res["junk"].append("no-listing-marker"); return res
            out = out[i + len(b"Listing...\n"):]
        m = re.search(rb"\n +\d+ files, for \d+ GB\n +\d+ links\n\Z", out)
        if not m:
            res["junk"].append("no-trailer"); return res
        body = out[:m.start()]
        if not body:
            return res
        if not body.endswith(b"\n"):
            res["junk"].append("last-record-not-terminated"); return res
        recs = []          # (kind, match, rest-bytes)
        for line in body[:-1].split(b"\n"):
            mf = self.RE_FILE.match(line)
            ml = self.RE_LINK.match(line) if not mf else None
            if mf and len(mf.group(1).lstrip(b" ")) > 0 and mf.group(1).lstrip(b" ").isdigit() and (bool(mf.group(7)) == verbose):
                recs.append(["f", mf, line[mf.end():]])
            elif ml and len(line[:ml.start(1)]) + len(ml.group(1)) == 12 and (bool(ml.group(2)) == verbose):
                recs.append(["l", ml, line[ml.end():]])
            elif recs:
                recs[-1][2] += b"\n" + line          # a raw newline inside a name
            else:
                res["junk"].append(enc(line))
        for kind, m, rest in recs:
            if kind == "f":
                nm = self._name(rest, mode)
                if nm is None:
                    res["junk"].append(enc(rest)); continue
                t = calendar.timegm((int(m.group(2)), int(m.group(3)), int(m.group(4)), int(m.group(5)), int(m.group(6)),
                                     int(m.group(7) or 0)))
                if verbose:
                    s, ns = t - BASE_TIME, int(m.group(8))
                else:
                    s, ns = t // 60 - BASE_TIME // 60, -1
                res["files"].append({"d": nm[0], "n": enc(nm[1]), "sz": int(m.group(1)), "s": s, "ns": ns})
            else:
                sp = split_unescaped(rest, b" -> ")
                if sp is None:
                    res["junk"].append(enc(rest)); continue
                a, b = self._name(sp[0], mode), self._name(sp[1], mode)
                if a is None or b is None or a[0] != b[0]:
                    res["junk"].append(enc(rest)); continue
                res["links"].append({"d": a[0], "n": enc(a[1]), "k": m.group(1).decode(), "to": enc(b[1])})
        return res

    RE_DUP = re.compile(rb"^([ \d]{12}) ")

    def dup_term(self, out, mode):
        res = {"mode": mode, "pairs": [], "junk": []}
        m = re.search(rb"\n +\d+ duplicates, for \d+ GB\n(There are duplicates!|No duplicates)\n\Z", out)
        if not m:
            res["junk"].append("no-trailer"); return res
        body = out[:m.start()]
        if not body:
            return res
        if not body.endswith(b"\n"):
            res["junk"].append("last-record-not-terminated"); return res
        recs = []
        for line in body[:-1].split(b"\n"):
            mf = self.RE_DUP.match(line)
            if mf and mf.group(1).lstrip(b" ").isdigit():
                recs.append([mf, line[mf.end():]])
            elif recs:
                recs[-1][1] += b"\n" + line
            else:
                res["junk"].append(enc(line))
        for m, rest in recs:
            sp = split_unescaped(rest, b" = ")
            if sp is None:
                res["junk"].append(enc(rest)); continue
            a, b = self._name(sp[0], mode), self._name(sp[1], mode)
            if a is None or b is None:
                res["junk"].append(enc(rest)); continue
            res["pairs"].append({"d": a[0], "n": enc(a[1]), "d2": b[0], "n2": enc(b[1]), "sz": int(m.group(1))})
        return res

    def status_term(self, out, err, nd):
        text = out.decode("latin1")
        res = {"junk": [], "empty": "The array is empty." in err.decode("latin1"),
               "disks": {str(d): {"file_count": -1, "fragmented": -1, "excess": -1} for d in range(nd)},
               "v": {"unsynced": False, "pct_synced": -1, "pct_unscrubbed": 0, "zerosub": 0, "rehash": False, "bad": 0,
                     "bad_first": 0, "bad_last": 0, "days": [-1, -1, -1], "file_count": -1, "fragmented": -1, "excess": -1},
               "bad_list": []}
        lines = text.split("\n")
        try:
            i0 = next(i for i, x in enumerate(lines) if x.startswith("            Files  Fragments"))
            i1 = next(i for i, x in enumerate(lines) if x.startswith(" ------"))
        except StopIteration:
            res["junk"].append("no-table"); return res
        for x in lines[i0 + 1:i1]:
            name = x.split(" ")[-1].encode("latin1")
            if name not in self.ids or len(x) < 24:
                res["junk"].append(enc(x)); continue
            res["disks"][self.ids[name]] = {"file_count": int(x[0:8]), "fragmented": int(x[8:16]), "excess": int(x[16:24])}
        tot = lines[i1 + 1]
        res["v"].update({"file_count": int(tot[0:8]), "fragmented": int(tot[8:16]), "excess": int(tot[16:24])})
        if res["empty"]:
            return res
        m = re.search(r"The oldest block was scrubbed (\d+) days ago, the median (\d+), the newest (\d+)\.", text)
        if m:
            res["v"]["days"] = [int(m.group(1)), int(m.group(2)), int(m.group(3))]
        else:
            res["junk"].append("no-days-line")
        m = re.search(r"You have a sync in progress at (\d+)%\.", text)
        if "WARNING! The array is NOT fully synced." in text and m:
            res["v"]["unsynced"] = True; res["v"]["pct_synced"] = int(m.group(1))
        elif "No sync is in progress." not in text:
            res["junk"].append("no-sync-line")
        m = re.search(r"\n(\d+)% of the array is not scrubbed\.", text)
        if m:
            res["v"]["pct_unscrubbed"] = int(m.group(1))
        elif "The full array was scrubbed at least one time." not in text:
            res["junk"].append("no-scrub-line")
        m = re.search(r"You have (\d+) files with a zero sub-second timestamp\.", text)
        if m:
            res["v"]["zerosub"] = int(m.group(1))
        elif "No file has a zero sub-second timestamp." not in text:
            res["junk"].append("no-subsecond-line")
        if "You have a rehash in progress" in text:
            res["v"]["rehash"] = True
        elif "No rehash is in progress" not in text:
            res["junk"].append("no-rehash-line")
        m = re.search(r"DANGER! In the array there are (\d+) errors!\n\nThey are from block (\d+) to (\d+), specifically at blocks:((?: \d+)*)( and \d+ more\.\.\.)?\n", text)
        if m:
            res["v"].update({"bad": int(m.group(1)), "bad_first": int(m.group(2)), "bad_last": int(m.group(3))})
            res["bad_list"] = [int(x) for x in m.group(4).split()]
        elif "No error detected." not in text:
            res["junk"].append("no-error-line")
        return res


# ---------------------------------------------------------------------------------------
# projection
class RObserver(observer.Observer):
    """the observer with a byte-exact walk of the data disks (names in the latin1 spelling of the content decoder)
    and without the parity projection (not needed by the reports)"""

    def project_disk(self, d):
        base = os.fsencode(self.a.ddir(d))
        res = {}
        if not os.path.isdir(base):
            return res
        for dp, dn, fn in os.walk(base):
            rel = os.path.relpath(dp, base)
            for n in fn:
                p = os.path.join(dp, n)
                name = n if rel == b"." else os.path.join(rel, n)
                st = os.lstat(p)
                if stat.S_ISLNK(st.st_mode):
                    res[l1(name)] = {"k": "l", "to": l1(os.readlink(p))}
                elif stat.S_ISREG(st.st_mode):
                    with open(p, "rb") as f:
                        data = f.read()
                    blocks = [observer.vkey(self.a.classify(data[i:i + BS])) for i in range(0, len(data), BS)]
                    res[l1(name)] = {"k": "f", "b": blocks, "sz": len(data),
                                     "mt": [st.st_mtime_ns // 10**9 - BASE_TIME, st.st_mtime_ns % 10**9],
                                     "ino": st.st_ino, "nl": st.st_nlink}
            for n in dn:
                p = os.path.join(dp, n)
                name = n if rel == b"." else os.path.join(rel, n)
                if os.path.islink(p):
                    res[l1(name)] = {"k": "l", "to": l1(os.readlink(p))}
                elif not os.listdir(p):
                    res[l1(name)] = {"k": "d"}
        return res

    def project_parity(self, cols, psizes=None, nmax=None):
        return []


class RRecorder(recorder.Recorder):
    """recorder.Recorder whose state() also carries links, dirs, inodes, rehash flags, hash kind, the pool tree, the
    regular files present on the disks and digests of everything outside the pool (vocabulary of ReportsTrace)"""

    def __init__(self, a, share=None):
        self.share = share
        super().__init__(a, obs=RObserver(a))

    def state(self):
        st = super().state()
        pr = self.last
        c = next((x for x in pr["cont"] if isinstance(x, dict)), None)
        st["links"] = {d: {} for d in self.D}
        st["dirs"] = {d: [] for d in self.D}
        st["hk"] = c["hk"] if c else "none"
        if c:
            for d in self.D:
                for name, (kind, to) in c["links"].get(d, {}).items():
                    st["links"][d][name] = {"k": "hardlink" if kind == "hard" else "symlink", "to": to}
                st["dirs"][d] = list(c["dirs"].get(d, []))
                for name, f in c["files"].get(d, {}).items():
                    st["cf"][d][name]["ino"] = str(f["ino"])
            for i, e in enumerate(c["info"]):
                st["info"][i]["rh"] = bool(e and e["rh"])
        st["ex"] = {d: sorted(n for n, f in pr["fs"].get(d, {}).items() if f["k"] == "f") for d in self.D}
        st["pool"] = self.pool_tree()
        st["sha"].update(self.outside_digests(st["sha"]))
        return st

    # ---- pool directory
    def pool_dir(self):
        return os.fsencode(os.path.join(self.a.root, "pool"))

    def pool_tree(self):
        base = self.pool_dir()
        res = {}
        if not os.path.isdir(base):
            return res
        for dp, dn, fn in os.walk(base):
            rel = os.path.relpath(dp, base)
            for n in dn + fn:
                p = os.path.join(dp, n)
                name = n if rel == b"." else os.path.join(rel, n)
                st = os.lstat(p)
                if stat.S_ISLNK(st.st_mode):
                    resolves = []
                    for d in range(self.a.conf.nd):
                        q = os.path.join(os.fsencode(self.a.ddir(d)), name)
                        try:
                            sq = os.lstat(q)
                            if stat.S_ISREG(sq.st_mode) and os.path.samestat(os.stat(p), sq):
                                resolves.append(str(d))
                        except OSError:
                            pass
                    res[enc(name)] = {"k": "l", "to": enc(os.readlink(p)), "h": "", "res": resolves}
                elif stat.S_ISDIR(st.st_mode):
                    res[enc(name)] = {"k": "d", "to": "", "h": "", "res": []}
                else:
                    with open(p, "rb") as f:
                        h = hashlib.sha1(f.read()).hexdigest()[:12]
                    res[enc(name)] = {"k": "f", "to": "", "h": "%s:%d:%o" % (h, st.st_mtime_ns, st.st_mode), "res": []}
        return res

    def outside_digests(self, sha):
        """'o': digest of the directory the foreign pool links point to and of the configuration file;
        'xo': the extra artefacts that are not inside the pool directory"""
        a = self.a
        h = hashlib.sha1()
        snap = a.snapshot_tree("outside")
        for k in sorted(snap):
            h.update(repr((k, snap[k][0], snap[k][1], snap[k][2], snap[k][4])).encode())
        with open(a.conf_path(), "rb") as f:
            h.update(f.read())
        for top in sorted(os.listdir(a.root)):
            h.update(repr((top, stat.S_IFMT(os.lstat(os.path.join(a.root, top)).st_mode))).encode())
        return {"o": h.hexdigest()[:16],
                "xo": [x for x in sha["x"] if not (x.startswith("pool/") or x.startswith("outside/") or x.startswith("share/"))]}

    # ---- export in the enc spelling
    def export(self, st):
        out = {"cf": {}, "del": st["del"], "info": st["info"], "links": {}, "dirs": {}, "hk": st["hk"], "ex": {},
               "pool": st["pool"], "sha": {k: st["sha"][k] for k in ("f", "p", "c", "o", "xo")}}
        for d in self.D:
            out["cf"][d] = {enc(n): f for n, f in st["cf"][d].items()}
            out["links"][d] = {enc(n): {"k": x["k"], "to": enc(x["to"])} for n, x in st["links"][d].items()}
            out["dirs"][d] = [enc(n) for n in st["dirs"][d]]
            out["ex"][d] = [enc(n) for n in st["ex"][d]]
        return out


# ---------------------------------------------------------------------------------------
# running the report commands (raw log and raw terminal bytes are kept)
QUIET = arr.Array.BASE_FLAGS
VERBOSE = ["--test-skip-device", "--test-skip-self", "--test-force-order-alpha", "--no-warnings", "-v"]


def run_raw(a, cmd, flags, *args):
    a.ncmd += 1
    log = os.path.join(a.root, "log.%d" % a.ncmd)
    argv = [a.bin, "-c", a.conf_path()] + list(flags)
    if a.conf.hash_kind in ("murmur3", "spooky2"):
        argv.append("--test-force-" + a.conf.hash_kind)
    argv += ["-l", log, cmd] + [str(x) for x in args]
    env = dict(os.environ)
    env.update({"LD_PRELOAD": a.shim, "VSHIM_ROOT": a.root, "VSHIM_TIME": str(a.clock), "VSHIM_URANDOM": a.urandom,
                "VSHIM_STATFS": "1", "TZ": "UTC"})
    try:
        p = subprocess.run(argv, stdout=subprocess.PIPE, stderr=subprocess.PIPE, env=env, timeout=60)
        rc, out, err = p.returncode, p.stdout, p.stderr
    except subprocess.TimeoutExpired as e:
        rc, out, err = -999, e.stdout or b"", e.stderr or b""
    raw = b""
    if os.path.exists(log):
        with open(log, "rb") as f:
            raw = f.read()
        os.remove(log)
    return rc, out, err, raw


class Battery:
    """runs the report commands on the array of a recorder and appends the trace events"""

    def __init__(self, rec, events, rng):
        self.rec, self.a, self.events, self.rng = rec, rec.a, events, rng
        self.dec = Decoder(rec.a.conf.disk_names)
        self.n = 0

    def snap(self):
        return self.rec.export(self.rec.state())

    def emit(self, e, out=None, raw=None, **kw):
        ev = {"e": e, "state": self.snap()}
        if out is not None:
            ev["out"] = out
        if raw is not None:
            ev["_raw"] = raw
        ev.update(kw)
        self.events.append(ev)
        return ev

    def step(self, what):
        self.emit("Step", what=what)

    def list(self, variant):
        mode = "disk" if variant % 2 else "file"
        fl = ["--test-fmt", mode]
        rc, out, err, raw = run_raw(self.a, "list", QUIET + fl)
        o = self.dec.list_log(raw)
        o["rc"] = rc
        o["term"] = self.dec.list_term(out, mode, False)
        self.emit("List", o, {"log": l1(raw), "out": l1(out), "err": l1(err)})
        rc, out, err, raw = run_raw(self.a, "list", VERBOSE + fl)
        o = self.dec.list_log(raw)
        o["rc"] = rc
        o["term"] = self.dec.list_term(out, mode, True)
        self.emit("List", o, {"log": l1(raw), "out": l1(out), "err": l1(err)})

    def dup(self, variant):
        mode = "disk" if variant % 2 == 0 else "file"
        rc, out, err, raw = run_raw(self.a, "dup", QUIET + ["--test-fmt", mode])
        o = self.dec.dup_log(raw)
        o["rc"] = rc
        o["term"] = self.dec.dup_term(out, mode)
        self.emit("Dup", o, {"log": l1(raw), "out": l1(out), "err": l1(err)})

    def status(self):
        for gui in (False, True):
            rc, out, err, raw = run_raw(self.a, "status", QUIET + (["-G"] if gui else []))
            o = self.dec.status_log(raw, self.a.conf.nd)
            o["rc"] = rc
            o["gui"] = gui
            o["now"] = self.a.clock - BASE_TIME
            o["term"] = self.dec.status_term(out, err, self.a.conf.nd)
            self.emit("Status", o, {"log": l1(raw), "out": l1(out), "err": l1(err)})

    def pool(self, twice=True):
        for again in ((False, True) if twice else (False,)):
            rc, out, err, raw = run_raw(self.a, "pool", QUIET)
            o = self.dec.pool_log(raw)
            o["rc"] = rc
            o["again"] = again
            self.emit("Pool", o, {"log": l1(raw), "out": l1(out), "err": l1(err)})

    def all(self, what):
        self.n += 1
        self.step(what)
        self.list(self.n)
        self.dup(self.n)
        self.status()
        self.pool()


# ---------------------------------------------------------------------------------------
# names
NASTY = [b" ", b"\n", b"\r", b":", b"\\", b"*", b"?", b"[", b"]", b"-", b"\t", b"'", b'"', b"$", b"`", b"#", b"~", b"&",
         b"(", b")", b"|", b"{", b"}", b";", b"<", b">", b"%", b"=", b"!", b"^", b",", b"\x7f", b"\x01",
         b"\\d", b"\\n", b"\\r", b"\\\\", b" -> ", b" = ", b"d1:", b"d2:", b"\xc3\xa9", b"\xe6\x97\xa5"]
PLAIN = [b"a", b"b", b"K", b"0", b"x", b"_", b"."]
CLASSES = {"space": b" ", "newline": b"\n", "cr": b"\r", "colon": b":", "backslash": b"\\", "glob": b"*?[]",
           "tab": b"\t", "quote": b"'\"", "shell": b"$`#~&()|{};<>"}


def name_classes(b):
    """which classes of the nasty alphabet a (relative) name exercises"""
    s = set()
    for k, chars in CLASSES.items():
        if any(c in b for c in chars):
            s.add(k)
    if any(c >= 0x80 for c in b):
        try:
            b.decode("utf-8"); s.add("utf8-multibyte")
        except UnicodeDecodeError:
            s.add("non-utf8")
    if any(comp.startswith(b"-") for comp in b.split(b"/")):
        s.add("leading-dash")
    if any(len(comp) >= 200 for comp in b.split(b"/")):
        s.add("very-long")
    if b"/" in b:
        s.add("subdirectory")
    if any(comp.endswith(b" ") or comp.startswith(b" ") for comp in b.split(b"/")):
        s.add("edge-space")
    if any(c < 0x20 and c not in (9, 10, 13) for c in b) or 0x7f in b:
        s.add("control")
    return s


class Names:
    def __init__(self, rng):
        self.rng = rng

    def component(self, prefix=b""):
        rng = self.rng
        r = rng.random()
        if r < 0.06:
            n = rng.choice([255, 200, 254]) - len(prefix)
            return prefix + bytes(rng.choice(b"abcdefgh \\:*") for _ in range(n))
        parts = []
        for _ in range(rng.randint(1, 5)):
            x = rng.random()
            if x < 0.45:
                parts.append(rng.choice(PLAIN))
            elif x < 0.85:
                parts.append(rng.choice(NASTY))
            else:
                parts.append(bytes([rng.randint(0x80, 0xff)]))
        c = prefix + b"".join(parts)
        if rng.random() < 0.1:
            c = b"-" + c
        c = c.replace(b"/", b"_").replace(b"\0", b"_")[:255]
        if c in (b".", b"..", b"") or c.endswith(b".unrecoverable") or c == b"zz":
            c = prefix + b"q" + c
        return c


# ---------------------------------------------------------------------------------------
class RGen(scen.Gen):
    """histories for the reports: scen.Gen with nasty names (files F*, directories D*: a path component never is both),
    links, empty directories, duplicate contents, copies, interrupted syncs, pool contents"""

    def __init__(self, seed, conf=None, profile="reports", data_seed=None, share=False, nfiles=7):
        rng0 = random.Random(seed * 31 + 7)
        nd = rng0.choice([1, 2, 2, 3, 4])
        extra = []
        conf = conf or arr.Conf(nd=nd, np=rng0.choice([1, 2]), copies=rng0.choice([1, 2]), pool=True)
        super().__init__(seed, conf=conf, profile=profile, data_seed=data_seed, spare=True)
        a = self.a
        os.makedirs(os.path.join(a.root, "pool"), exist_ok=True)
        os.makedirs(os.path.join(a.root, "outside", "dir"), exist_ok=True)
        with open(os.path.join(a.root, "outside", "file"), "wb") as f:
            f.write(b"outside the pool\n")
        self.share = None
        if share:
            self.share = os.path.join(a.root, "share")
            os.makedirs(self.share, exist_ok=True)
            for d in range(conf.nd):
                os.symlink(a.ddir(d), os.path.join(self.share, conf.disk_names[d]))
            a.conf.extra.append("share %s" % self.share)
            a.write_conf()
        nm = Names(self.rng)
        self.dirs = [b""] + [nm.component(b"D")]
        if self.rng.random() < 0.7:
            self.dirs.append(self.dirs[1] + b"/" + nm.component(b"D"))
        if self.rng.random() < 0.5:
            self.dirs.append(nm.component(b"D"))
        self.fnames = []
        for _ in range(nfiles):
            d = self.rng.choice(self.dirs)
            c = nm.component(b"F")
            if len(d) + len(c) > 700:
                c = c[:40]
            self.fnames.append((d + b"/" if d else b"") + c)
        self.nm = nm
        self.contents = []                # value lists written so far (duplicate sources)
        self.rec = RRecorder(a, share=self.share)
        self.events = []
        self.bat = Battery(self.rec, self.events, self.rng)
        self.events.append({"e": "Reset", "conf": self.conf_json(), "state": self.bat.snap()})
        self.used_names = set()

    def conf_json(self):
        a = self.a
        if self.share:
            prefix = {str(d): enc(os.fsencode(self.share) + b"/" + a.conf.disk_names[d].encode() + b"/") for d in range(a.conf.nd)}
        else:
            prefix = {str(d): enc(os.fsencode(a.ddir(d)) + b"/") for d in range(a.conf.nd)}
        return {"prefix": prefix, "nd": a.conf.nd, "np": a.conf.np, "copies": a.conf.copies, "share": bool(self.share)}

    # ---- byte-exact file operations
    def bpath(self, d, name):
        return os.path.join(os.fsencode(self.a.ddir(d)), name)

    def rel_files(self, d, kinds=("f",)):
        base = os.fsencode(self.a.ddir(d))
        res = []
        for dp, dn, fn in os.walk(base):
            for n in fn + dn:
                p = os.path.join(dp, n)
                st = os.lstat(p)
                k = "l" if stat.S_ISLNK(st.st_mode) else "f" if stat.S_ISREG(st.st_mode) else "d"
                if k in kinds and not n.endswith(b".unrecoverable"):
                    res.append(os.path.relpath(p, base))
        return sorted(res)

    def files(self, d):
        return [fsname(x) for x in self.rel_files(d)]

    def bwrite(self, d, name, vals, sec, ns):
        p = self.bpath(d, name)
        os.makedirs(os.path.dirname(p), exist_ok=True)
        if os.path.lexists(p):
            if os.path.isdir(p) and not os.path.islink(p):
                return False
            os.remove(p)
        with open(p, "wb") as f:
            f.write(self.a.file_bytes(vals))
        t = (BASE_TIME + sec) * 10**9 + ns
        os.utime(p, ns=(t, t))
        self.used_names.add(name)
        return True

    def nsec(self):
        return self.rng.choice([0, 0, 1, 500000000, 999999999, self.rng.randrange(10**9)])

    # ---- environment actions
    def op_add(self):
        d = self.rng.randrange(self.conf.nd)
        n = self.rng.choice(self.fnames)
        r = self.rng.random()
        if self.contents and r < 0.40:
            vals = list(self.rng.choice(self.contents))          # identical content: a duplicate
        elif self.contents and r < 0.55:
            # same leading block(s), different length or tail: NOT a duplicate
            base = list(self.rng.choice(self.contents))
            k = self.rng.randint(1, len(base))
            vals = base[:k] + (self.content(self.rng.randint(0, 2)) if k == len(base) or self.rng.random() < 0.6 else [])
            if isinstance(vals[0], tuple) and len(vals) > 1:
                vals = vals[1:]                                  # a short block can only be the last one
            if vals != base:
                self.contents.append(vals)
        else:
            vals = self.content()
            if vals:
                self.contents.append(vals)
        if not self.bwrite(d, n, vals, self.stamp(), self.nsec()):
            return None
        return "write %d/%s %r" % (d, enc(n), vals)

    def op_newname(self):
        n = self.nm.component(b"F")
        d = self.rng.choice(self.dirs)
        self.fnames.append((d + b"/" if d else b"") + n)
        return self.op_add()

    def op_copy(self):
        """cp -p to another disk (same path) or to another name: same size and time stamp (copy detection)"""
        d = self.rng.randrange(self.conf.nd)
        fl = [f for f in self.rel_files(d) if f != b"zz"]
        if not fl:
            return None
        n = self.rng.choice(fl)
        src = self.bpath(d, n)
        st = os.lstat(src)
        with open(src, "rb") as f:
            data = f.read()
        if self.conf.nd > 1 and self.rng.random() < 0.6:
            e, m = self.rng.choice([x for x in range(self.conf.nd) if x != d]), n
        else:
            e = self.rng.randrange(self.conf.nd)
            dd = self.rng.choice(self.dirs)
            m = (dd + b"/" if dd else b"") + os.path.basename(n)
            if (e, m) == (d, n):
                return None
        dst = self.bpath(e, m)
        os.makedirs(os.path.dirname(dst), exist_ok=True)
        if os.path.lexists(dst):
            if os.path.isdir(dst) and not os.path.islink(dst):
                return None
            os.remove(dst)
        with open(dst, "wb") as f:
            f.write(data)
        os.utime(dst, ns=(st.st_mtime_ns, st.st_mtime_ns))
        return "copy %d/%s -> %d/%s" % (d, enc(n), e, enc(m))

    def op_touch(self):
        d = self.rng.randrange(self.conf.nd)
        fl = self.rel_files(d)
        if not fl:
            return None
        n = self.rng.choice(fl)
        t = (BASE_TIME + self.stamp()) * 10**9 + self.nsec()
        os.utime(self.bpath(d, n), ns=(t, t))
        return "touch %d/%s" % (d, enc(n))

    def op_delete(self):
        d = self.rng.randrange(self.conf.nd)
        fl = [f for f in self.rel_files(d, kinds=("f", "l")) if f != b"zz"]
        if not fl:
            return None
        n = self.rng.choice(fl)
        os.remove(self.bpath(d, n))
        return "delete %d/%s" % (d, enc(n))

    def op_symlink(self):
        d = self.rng.randrange(self.conf.nd)
        dd = self.rng.choice(self.dirs)
        n = (dd + b"/" if dd else b"") + self.nm.component(b"L")
        to = self.rng.choice([self.nm.component(b"T"), b"/" + self.nm.component(b"abs"), b"../" + self.nm.component(b"T"),
                              os.path.basename(self.rng.choice(self.fnames))])
        p = self.bpath(d, n)
        os.makedirs(os.path.dirname(p), exist_ok=True)
        if os.path.lexists(p):
            return None
        os.symlink(to, p)
        return "symlink %d/%s -> %s" % (d, enc(n), enc(to))

    def op_hardlink(self):
        d = self.rng.randrange(self.conf.nd)
        fl = self.rel_files(d)
        if not fl:
            return None
        src = self.rng.choice(fl)
        dd = self.rng.choice(self.dirs)
        n = (dd + b"/" if dd else b"") + self.nm.component(b"H")
        p = self.bpath(d, n)
        os.makedirs(os.path.dirname(p), exist_ok=True)
        if os.path.lexists(p):
            return None
        os.link(self.bpath(d, src), p)
        return "hardlink %d/%s = %s" % (d, enc(n), enc(src))

    def op_emptydir(self):
        d = self.rng.randrange(self.conf.nd)
        dd = self.rng.choice(self.dirs)
        n = (dd + b"/" if dd else b"") + self.nm.component(b"E")
        os.makedirs(self.bpath(d, n), exist_ok=True)
        return "mkdir %d/%s" % (d, enc(n))

    def op_corrupt(self):
        d = self.rng.randrange(self.conf.nd)
        fl = [f for f in self.rel_files(d) if os.path.getsize(self.bpath(d, f)) > 0]
        if not fl:
            return None
        n = self.rng.choice(fl)
        p = self.bpath(d, n)
        st = os.lstat(p)
        nb = (st.st_size + BS - 1) // BS
        i = self.rng.randrange(nb)
        with open(p, "r+b") as f:
            f.seek(i * BS)
            b = bytearray(f.read(1))
            b[0] ^= 0x41
            f.seek(i * BS)
            f.write(b)
        os.utime(p, ns=(st.st_atime_ns, st.st_mtime_ns))
        return "corrupt %d/%s[%d]" % (d, enc(n), i)

    # ---- the pool directory before `pool`
    def op_pool_env(self):
        base = self.rec.pool_dir()
        rng = self.rng
        done = []
        for _ in range(rng.randint(1, 3)):
            k = rng.choice(["stale", "elsewhere", "foreign", "emptydir", "foreign-in-dir", "stale-in-dir", "wrong-target",
                            "dirlink", "emptytree", "remove-link"])
            dd = rng.choice(self.dirs)
            pre = (dd + b"/" if dd else b"")
            if k == "remove-link":
                links = [p for p, e in self.rec.pool_tree().items() if e["k"] == "l"]
                if links:
                    os.remove(os.path.join(base, dec(rng.choice(links))))
                    done.append(k)
                continue
            if k in ("stale", "stale-in-dir"):
                p, to = pre + self.nm.component(b"S"), b"/nowhere/" + self.nm.component(b"x")
            elif k == "elsewhere":
                p, to = pre + self.nm.component(b"S"), os.fsencode(os.path.join(self.a.root, "outside", "file"))
            elif k == "wrong-target":
                # a link on a recorded path that points to the wrong place
                p, to = rng.choice(self.fnames), os.fsencode(os.path.join(self.a.root, "outside", "file"))
            elif k == "dirlink":
                # a link to a directory elsewhere, where the pool needs a directory of its own
                cand = [d for d in self.dirs if d]
                p, to = rng.choice(cand), os.fsencode(os.path.join(self.a.root, "outside", "dir"))
            elif k in ("foreign", "foreign-in-dir"):
                p, to = pre + self.nm.component(b"X"), None
            elif k == "emptydir":
                p, to = pre + self.nm.component(b"E"), "dir"
            else:
                p, to = self.nm.component(b"E") + b"/" + self.nm.component(b"E") + b"/" + self.nm.component(b"E"), "dir"
            q = os.path.join(base, p)
            if os.path.lexists(q):
                continue
            # never put a non-directory where an ancestor is needed (pool would rightly fail)
            anc = os.path.dirname(q)
            ok = True
            while len(anc) > len(base):
                if os.path.lexists(anc) and (os.path.islink(anc) or not os.path.isdir(anc)):
                    ok = False
                anc = os.path.dirname(anc)
            if not ok:
                continue
            os.makedirs(os.path.dirname(q), exist_ok=True)
            if to is None:
                with open(q, "wb") as f:
                    f.write(b"foreign " + p)
            elif to == "dir":
                os.makedirs(q, exist_ok=True)
            else:
                os.symlink(to, q)
            done.append("%s %s" % (k, enc(p)))
        if not done:
            return None
        return "pool dir: " + ", ".join(done)

    # ---- commands
    def sync_kind(self):
        return self.rng.choice(["normal", "normal", "normal", "killafter", "killafter", "midrm", "presavekill", "presavekill",
                                "range", "range", "force-full"])

    def cmd_sync(self):
        rng, a, rec = self.rng, self.a, self.rec
        a.clock += rng.choice([0, 8, 100, 86400, 3 * 86400, 100000])
        kind = self.sync_kind()
        if kind == "normal":
            r, o = rec.sync("-E")
        elif kind == "force-full":
            r, o = rec.sync("-E", "-F")
        elif kind == "killafter":
            r, o = rec.sync("-E", "--test-kill-after-sync")
        elif kind == "presavekill":
            rec.sync_killed(["rename,c%d/content,1,killa" % (self.conf.copies - 1)], "-E")
            return "sync killed right after the pre-save"
        elif kind == "range":
            bm = max(len(self.recorded()["info"]), 1)
            s0, c = rng.randrange(0, bm + 1), rng.randint(1, bm)
            r, o = rec.sync("-E", "-S", str(s0), "-B", str(c))
            kind = "range -S %d -B %d" % (s0, c)
        else:
            cands = [(d, f) for d in range(self.conf.nd) for f in self.rel_files(d) if f != b"zz"]
            if not cands:
                r, o = rec.sync("-E")
            else:
                d, f = rng.choice(cands)
                r, o = rec.sync("-E", midrun="rm -f %s" % shlex.quote(fsname(self.bpath(d, f))))
                kind = "midrm %d/%s" % (d, enc(f))
        return "sync %s -> %s" % (kind, o["exit"])

    def cmd(self, name):
        self.a.clock += self.rng.choice([0, 8, 100, 86400, 100000])
        if name == "scrub":
            plan = self.rng.choice(["full", "full", "new", "bad", "50"])
            return "scrub %s -> %s" % (plan, self.rec.scrub(plan)[1]["exit"])
        if name == "fix":
            res = "fix -> %s" % self.rec.fix(sel={d: [] for d in self.rec.D})[1]["exit"]
            for d in range(self.conf.nd):
                for f in self.rel_files(d, kinds=("f", "l")) + [x for x in self._unrec(d)]:
                    if f.endswith(b".unrecoverable"):
                        os.remove(self.bpath(d, f))
            return res
        if name == "check":
            return "check -> %s" % self.rec.check()[1]["exit"]

    def _unrec(self, d):
        base = os.fsencode(self.a.ddir(d))
        return [os.path.relpath(os.path.join(dp, n), base) for dp, dn, fn in os.walk(base) for n in fn if n.endswith(b".unrecoverable")]

    WEIGHTS = dict(scen.Gen.WEIGHTS)
    WEIGHTS["reports"] = [("add", 22), ("newname", 6), ("copy", 12), ("touch", 3), ("delete", 7), ("symlink", 5), ("hardlink", 3),
                          ("emptydir", 2), ("corrupt", 5), ("pool_env", 9), ("sync", 24), ("scrub", 6), ("fix", 2)]

    def step(self):
        ops = self.WEIGHTS[self.profile]
        tot = sum(w for _, w in ops)
        x = self.rng.uniform(0, tot)
        for name, w in ops:
            x -= w
            if x <= 0:
                break
        if name == "sync":
            desc = self.cmd_sync()
            self.steps.append(desc)
            self.bat.all(desc)
        elif name in ("scrub", "fix", "check"):
            desc = self.cmd(name)
            self.steps.append(desc)
            self.bat.all(desc)
        elif name == "pool_env":
            desc = self.op_pool_env()
            if desc:
                self.steps.append(desc)
                self.bat.emit("PoolEnv", what=desc)
                self.bat.pool()
        else:
            desc = getattr(self, "op_" + name)()
            if desc:
                self.steps.append(desc)

    def run(self, n):
        # a first population and a complete sync, then the random history
        for _ in range(self.rng.randint(3, 6)):
            d = self.op_add()
            if d:
                self.steps.append(d)
        for op in (self.op_symlink, self.op_hardlink, self.op_emptydir):
            if self.rng.random() < 0.6:
                d = op()
                if d:
                    self.steps.append(d)
        self.a.clock += 10
        r, o = self.rec.sync("-E")
        self.steps.append("sync -> %s" % o["exit"])
        if self.rng.random() < 0.4:
            d = self.op_pool_env()
            if d:
                self.steps.append(d)
        self.bat.all(self.steps[-1])
        for _ in range(n):
            self.step()
        return self.rec


# ---------------------------------------------------------------------------------------
# directed histories
def directed_many_zero(seed, data_seed=None):
    """more than 50 files with a zero sub-second time stamp on one disk: the '(more follow)' rule of status"""
    g = RGen(seed, conf=arr.Conf(nd=2, np=1, copies=1, pool=True), nfiles=3, data_seed=data_seed)
    for i in range(55):
        g.bwrite(0, b"Fz%02d" % i, [], g.stamp(), 0)
    for i in range(49):
        g.bwrite(1, b"Fy%02d" % i, [], g.stamp(), 0)
    g.bwrite(1, b"Fnz", [], g.stamp(), 5)
    g.a.clock += 10
    r, o = g.rec.sync("-E")
    g.steps.append("55 + 49 files with zero sub-second stamps; sync -> %s" % o["exit"])
    g.bat.step(g.steps[-1])
    g.bat.status()
    return g


def directed_phantom(seed, data_seed=None):
    """names whose continuation lines imitate records of the terminal form of list / dup: they must still decode, because
    a record has unquoted spaces at fixed places and a name never has an unquoted space"""
    g = RGen(seed, conf=arr.Conf(nd=1, np=1, copies=1, pool=True), nfiles=3, data_seed=data_seed)
    g.bwrite(0, b"Fnote\n        4096 2020/09/13 12:27 Fphantom", [g.val()], g.stamp(), 7)
    g.bwrite(0, b"Fplain\n000000001024 2020/09/13 12:27 Fx", [g.val()], g.stamp(), 7)
    g.bwrite(0, b"Fother\n     symlink                  a -> b", [g.val()], g.stamp(), 0)
    g.a.clock += 10
    r, o = g.rec.sync("-E")
    g.steps.append("file name with an embedded line that looks like a list record; sync -> %s" % o["exit"])
    g.bat.step(g.steps[-1])
    g.bat.list(0)
    g.bat.list(1)
    g.bat.dup(0)
    g.bat.dup(1)
    return g


def directed_pool_dirlink(seed, data_seed=None):
    """the pool holds a symbolic link to a directory elsewhere on a path where the recorded files need a directory"""
    g = RGen(seed, conf=arr.Conf(nd=2, np=1, copies=1, pool=True), nfiles=3, data_seed=data_seed)
    g.bwrite(0, b"Dsub/Fone", [g.val()], g.stamp(), 3)
    g.bwrite(1, b"Dsub/Ftwo", [g.val()], g.stamp(), 0)
    g.a.clock += 10
    r, o = g.rec.sync("-E")
    g.steps.append("sync -> %s" % o["exit"])
    g.bat.step(g.steps[-1])
    os.symlink(os.path.join(g.a.root, "outside", "dir"), os.path.join(g.a.root, "pool", "Dsub"))
    g.steps.append("pool dir: link Dsub -> outside/dir")
    g.bat.emit("PoolEnv", what=g.steps[-1])
    g.bat.pool()
    return g


def directed_pool_dirlink_data(seed, data_seed=None):
    """as above, the link pointing to the directory of the same name on a data disk (what `pool` itself makes for a
    recorded symbolic link to a directory that the user later replaces by a real directory)"""
    g = RGen(seed, conf=arr.Conf(nd=2, np=1, copies=1, pool=True), nfiles=3, data_seed=data_seed)
    g.bwrite(1, b"Fkeep", [g.val()], g.stamp(), 3)
    os.makedirs(g.bpath(1, b"Dreal"))
    g.bwrite(1, b"Dreal/Finside", [g.val()], g.stamp(), 3)
    os.symlink(b"Dreal", g.bpath(0, b"Dsub"))
    g.a.clock += 10
    r, o = g.rec.sync("-E")
    g.steps.append("d1/Dsub is a symbolic link (to Dreal); sync -> %s" % o["exit"])
    g.bat.step(g.steps[-1])
    g.bat.pool()
    os.remove(g.bpath(0, b"Dsub"))
    g.bwrite(0, b"Dsub/Fone", [g.val()], g.stamp(), 3)
    g.bwrite(1, b"Dsub/Ftwo", [g.val()], g.stamp(), 0)
    g.a.clock += 10
    r, o = g.rec.sync("-E")
    g.steps.append("the link is replaced by a directory with files, on both disks; sync -> %s" % o["exit"])
    g.bat.step(g.steps[-1])
    g.bat.pool()
    return g


DIRECTED = {"pool-dirlink-data": directed_pool_dirlink_data, "many-zero-subsecond": directed_many_zero, "terminal-phantom-record": directed_phantom,
            "pool-dirlink": directed_pool_dirlink}


# ---------------------------------------------------------------------------------------
# recording (worker processes) and validation
def _run_job(job):
    seed, kind, steps, share = job[:4]
    data_seed = job[4] if len(job) > 4 else None
    g = None
    try:
        if kind in DIRECTED:
            g = DIRECTED[kind](seed, data_seed)
        else:
            g = RGen(seed, share=share, data_seed=data_seed)
            g.run(steps)
        names = set()
        for ev in g.events:
            for d, fl in ev["state"]["cf"].items():
                names.update(fl)
            for d, fl in ev["state"]["links"].items():
                names.update(fl)
        return {"seed": seed, "kind": kind, "share": share, "nsteps": steps, "events": g.events, "steps": list(g.steps),
                "nd": g.conf.nd, "np": g.conf.np, "names": sorted(names), "err": None,
                "msg_continuations": g.bat.dec.msg_continuations}
    except Exception:
        return {"seed": seed, "kind": kind, "err": traceback.format_exc()}
    finally:
        if g:
            g.close()


def record(jobs, procs=8):
    with multiprocessing.Pool(procs) as pool:
        return pool.map(_run_job, jobs, chunksize=1)


def write_trace(path, scs):
    """several executions with the same number of disks in one file; returns (number of lines, index line -> (scenario, event))"""
    index = []
    with open(path, "w") as f:
        for si, sc in enumerate(scs):
            for ei, ev in enumerate(sc["events"]):
                o = {k: v for k, v in ev.items() if not k.startswith("_")}
                if not index:
                    o.update({"D": [str(d) for d in range(sc["nd"])], "NP": sc["np"], "BS": BS, "bmod": BASE_TIME % 60})
                f.write(json.dumps(o) + "\n")
                index.append((si, ei))
    return len(index), index


def tlc_retry(module, **kw):
    """spec/Array.tla is edited by other sessions: a parse failure at the moment of a save is retried"""
    for attempt in range(5):
        r = vlib.run_tlc(module, **kw)
        if "Parsing or semantic analysis failed" in r.out and attempt < 4:
            time.sleep(12)
            continue
        return r
    return r


def validate(scs, tag, keep=False, timeout=900):
    """TLC on ReportsTrace for executions with the same disk count.  Returns (findings, states, generated) where a
    finding is the TLC record {line, ev, check, detail} plus 'scenario' and 'event' indices."""
    os.makedirs(os.path.join(vlib.OUT, "traces"), exist_ok=True)
    path = os.path.join(vlib.OUT, "traces", tag + ".ndjson")
    found = os.path.join(vlib.OUT, "traces", tag + ".found.json")
    cfg = os.path.join(vlib.OUT, "traces", tag + ".cfg")
    n, index = write_trace(path, scs)
    with open(cfg, "w") as f:
        f.write("SPECIFICATION Spec\nINVARIANT NoFinding\nALIAS Brief\nPOSTCONDITION Accepted\nCHECK_DEADLOCK FALSE\n")
    if os.path.exists(found):
        os.remove(found)
    res = tlc_retry("ReportsTrace", cfg=cfg, workers=1, env={"TRACE": path, "FOUND": found}, timeout=timeout, tag=tag, xmx="4g")
    if res.error and not res.violated:
        raise vlib.ToolFailure("TLC on ReportsTrace (%s): %s\n%s" % (tag, res.error, res.out[-3000:]))
    if res.violated not in (None, "NoFinding"):
        raise vlib.ToolFailure("TLC on ReportsTrace (%s): unexpected %s\n%s" % (tag, res.violated, res.out[-3000:]))
    if not os.path.exists(found):
        raise vlib.ToolFailure("TLC on ReportsTrace (%s) did not consume the trace (%d lines)\n%s" % (tag, n, res.out[-3000:]))
    with open(found) as f:
        fj = json.load(f)
    if fj["lines"] != n or res.distinct != n + 1:
        raise vlib.ToolFailure("trace not fully consumed: %d states for %d lines\n%s" % (res.distinct, n, res.out[-2000:]))
    if bool(fj["found"]) != (res.violated == "NoFinding"):
        raise vlib.ToolFailure("findings file and invariant disagree\n%s" % res.out[-2000:])
    out = []
    for x in fj["found"]:
        si, ei = index[x["line"] - 1]
        x["scenario"], x["event"] = si, ei
        out.append(x)
    if not keep:
        for p in (path, found, cfg):
            try:
                os.remove(p)
            except OSError:
                pass
    return out, res.distinct, res.generated


# ---------------------------------------------------------------------------------------
# classification of findings (signatures of known findings are as narrow as the defect)
def is_f6(sc, finding):
    """status -l: after removing the raw lines 'zerosubsecond:<disk>:<name as it is>: ' of the recorded files with a zero
    sub-second stamp whose names contain a byte that the tag escaping must escape, the log decodes without junk and lists
    exactly the other zero-stamp files"""
    if finding["ev"] != "Status" or finding["check"] not in ("zerosubsecond", "log-undecodable-lines"):
        return False
    ev = sc["events"][finding["event"]]
    prev = sc["events"][finding["event"] - 1]["state"]
    raw = ev["_raw"]["log"].encode("latin1")
    dn = ["d%d" % (i + 1) for i in range(sc["nd"])]
    removed = set()
    for d, fl in prev["cf"].items():
        for n, f in fl.items():
            b = dec(n)
            if f["mt"][1] == 0 and any(c in b for c in SPECIAL_TAG):
                line = b"zerosubsecond:" + dn[int(d)].encode() + b":" + b + b": \n"
                if line in raw:
                    raw = raw.replace(line, b"", 1)
                    removed.add((d, n))
    if not removed:
        return False
    o = Decoder(dn).status_log(raw, sc["nd"])
    rest = {(d, n) for d, fl in prev["cf"].items() for n, f in fl.items() if f["mt"][1] == 0} - removed
    return not o["junk"] and {(x["d"], x["n"]) for x in o["zs"]} == rest and all(len(fl) < 50 for fl in prev["cf"].values())


def _stale_dir_links(state):
    """links in a pool tree that sit where a recorded path needs a directory"""
    rec = [n for fl in state["cf"].values() for n in fl] + [n for fl in state["links"].values() for n in fl]
    return [p for p, e in state["pool"].items() if e["k"] == "l" and any(n.startswith(p + "/") for n in rec)]


def is_f10(sc, finding):
    """pool: a symbolic link of the old pool tree lies on a path that is now a directory of recorded files; the new links
    are created THROUGH it (outside the pool directory) and are missing from the pool until the command is run again"""
    if finding["ev"] != "Pool":
        return False
    k = finding["event"]
    before = sc["events"][k - 1]["state"]
    stale = _stale_dir_links(before)
    det = finding.get("detail")
    # below a stale link, or a directory above it that is empty once the link is removed
    under = lambda paths: all(any(x == p or x.startswith(p + "/") or p.startswith(x + "/") for p in stale) for x in paths)
    if finding["check"] == "tree":
        return bool(stale) and not (det["stale_links_kept"] or det["other_extra_links"] or det["wrong_targets"] or
                                    det["foreign_lost_or_changed"] or det["foreign_new"] or det["dirs_extra"]) \
            and under(det["missing_links"]) and under(det["dirs_missing"])
    if finding["check"] in ("frame-outside-changed", "frame-data-changed", "log-undecodable-lines"):
        return bool(stale)
    if finding["check"] == "idempotent" and sc["events"][k - 1]["e"] == "Pool":
        stale = _stale_dir_links(sc["events"][k - 2]["state"])
        under = lambda paths: all(any(x == p or x.startswith(p + "/") or p.startswith(x + "/") for p in stale) for x in paths)
        return bool(stale) and not det["gone"] and not det["changed"] and under(det["new"])
    return False


def signature(sc, finding):
    if is_f6(sc, finding):
        return "F6-status-zerosubsecond-unescaped"
    if is_f10(sc, finding):
        return "F10-pool-links-written-through-stale-directory-link"
    return "%s-%s" % (finding["ev"].lower(), finding["check"])


def describe(sc, finding):
    ev = sc["events"][finding["event"]]
    return "%s: check '%s' failed at event %d (%s) of scenario seed=%s kind=%s: %s" % (
        signature(sc, finding), finding["check"], finding["event"], ev["e"], sc["seed"], sc["kind"],
        json.dumps(finding.get("detail"))[:1200])


# ---------------------------------------------------------------------------------------
# spec -> code for the two encodings: the table exported by TLC from spec/ReportsEsc.tla against the real binary
SYM = {"a": b"a", "d": b"d", ":": b":", "BS": b"\\", "NL": b"\n", "CR": b"\r", "SP": b" ", "?": b"?", "n": b"n", "r": b"r"}


def sym_bytes(seq):
    return b"".join(SYM[c] for c in seq)


def esc_table_check(table, seed=1):
    """one file per string of the table (name 'N' + string); returns (number of names, list of mismatches) where a mismatch is
    (kind, expected-but-absent encodings, printed-but-unexpected encodings)"""
    conf = arr.Conf(nd=1, np=1, copies=1)
    a = arr.Array(conf, seed=seed)
    try:
        base = os.fsencode(a.ddir(0))
        want_tag, want_shell = collections_counter(), collections_counter()
        for i, row in enumerate(table):
            name = b"N" + sym_bytes(row["s"])
            p = os.path.join(base, name)
            with open(p, "wb") as f:
                pass
            t = (BASE_TIME + 100 + i) * 10**9 + 1 + i
            os.utime(p, ns=(t, t))
            want_tag[b"N" + sym_bytes(row["tag"])] += 1
            want_shell[b"N" + sym_bytes(row["shell"])] += 1
        with open(os.path.join(base, b"zz"), "wb") as f:
            f.write(b"x" * 100)
        r = a.run("sync")
        if r.rc != 0:
            raise vlib.ToolFailure("sync of the encoding table array failed: " + r.err[-500:])
        rc, out, err, raw = run_raw(a, "list", QUIET)
        got_tag, got_shell = collections_counter(), collections_counter()
        for line in raw.split(b"\n"):
            if line.startswith(b"file:"):
                f = line.split(b":")
                got_tag[b":".join(f[2:-4]) if len(f) >= 7 else line] += 1
            elif line.startswith(b"N"):               # a name broken by a raw newline
                got_tag[line] += 1
        got_tag.pop(b"zz", None)
        m = re.search(rb"\n +\d+ files, for \d+ GB\n +\d+ links\n\Z", out)
        body = out[:m.start()] if m else out
        cur = None
        for line in body.split(b"\n")[:-1] if body.endswith(b"\n") else body.split(b"\n"):
            mf = Decoder.RE_FILE.match(line)
            if mf:
                if cur is not None:
                    got_shell[cur] += 1
                cur = line[mf.end():]
            elif cur is not None:
                cur += b"\n" + line
        if cur is not None:
            got_shell[cur] += 1
        got_shell.pop(b"zz", None)
        res = []
        for kind, want, got in (("tag", want_tag, got_tag), ("shell", want_shell, got_shell)):
            if want != got:
                res.append((kind, sorted(enc(x) for x in (want - got)), sorted(enc(x) for x in (got - want))))
        return len(table), res
    finally:
        a.destroy()


def collections_counter():
    import collections
    return collections.Counter()
