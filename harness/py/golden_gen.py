#!/usr/bin/env python3
"""Producer of /verif/golden (property C16).  Run ONCE with the pinned reference version of /repo:

    python3 harness/py/golden_gen.py [--force]

It refuses to overwrite an existing golden set without --force: the golden set is the recorded behaviour of the
reference version, regenerating it with a later tree would make C16 vacuous.

Every artefact is doubly anchored at generation time:
  * vectors: produced by harness/c/golden_conf.c linked against the reference objects AND recomputed by the
    independent Python implementations (hashes.murmur3, spooky2.spooky128, content.crc32c, gf.parity_block);
    generation fails on any disagreement (metro digests are reference-only: no independent implementation);
  * arrays: written by the reference binary; afterwards the content file is decoded by the independent decoder,
    every block hash is recomputed from the file bytes with the independent hash implementations, every parity
    block is recomputed from the data with the independent GF(2^8) code, and content.encode(decode(x)) == x is
    required (ties the normative encoder / ContentFormat.tla to the reference bytes).
"""
import glob, hashlib, json, os, shutil, subprocess, sys

HERE = os.path.dirname(os.path.abspath(__file__))
sys.path.insert(0, HERE)
import vlib, arr, content, gf, hashes, goldenlib as gl

BS = 1024
T0 = 1600000000
GEN_ROOT = "/tmp/c16-golden-gen"       # scratch used only while generating; nothing is read from it afterwards

ODD_NAMES = [b"sp ace", b"caf\xc3\xa9", b"latin\xe9\xff", b"colon:semi;", b"tab\there", b"star*?[x]",
             b"back\\slash", b"quote\"'", b"trailing ", b"new\nline", b"#hash", b"\x01ctl\x7f"]

RICH_SIZES = [0, 1, 1023, 1024, 1025, 3000, 4096]


def fdata(ai, fi, size):
    return gl.sm_fill(size, (0xC16F << 48) | (ai << 32) | fi)


def rich_files(ai, d):
    """(relative path bytes, size, mtime sec offset, nsec) for disk d of a 'rich' array"""
    out = []
    k = 0
    for s in RICH_SIZES:
        # rotate the sizes over the disks so that every disk has different positions for short blocks
        sz = RICH_SIZES[(RICH_SIZES.index(s) + d) % len(RICH_SIZES)]
        out.append((b"f%02d-%d" % (k, sz), sz, 100 + 10 * d + k, 100000000 * ((k + d) % 10) + 12345 + k))
        k += 1
    out.append((b"sub/deep/er/file", 2500 + 100 * d, 300 + d, 999999999))
    out.append((b"sub/zero-ns", 700 + d, 310 + d, 0))
    for j, n in enumerate(ODD_NAMES[d::3]):
        out.append((b"odd/" + n, 1 + 333 * j + d, 400 + 10 * d + j, 5 + j))
    return out


def small_files(ai, d, n=3):
    sizes = [1500 + 700 * (d % 4) + d // 4, 1 + d, 1024, 2048 + d, 5000, 100][:n]
    return [(b"s%d" % k, sz, 50 + 5 * d + k, 1000 + k + 7 * d) for k, sz in enumerate(sizes)]


SPECS = [
    # name, hash kind, hash size, nd, np, options
    dict(name="m3-h16-np1-v2-rich", kind="murmur3", hs=16, nd=3, np=1, files="rich", copies=2),
    dict(name="sp-h16-np2-v2-rich", kind="spooky2", hs=16, nd=3, np=2, files="rich", copies=2),
    dict(name="m3-h2-np1", kind="murmur3", hs=2, nd=2, np=1),
    dict(name="m3-h4-np2", kind="murmur3", hs=4, nd=2, np=2),
    dict(name="m3-h8-np1", kind="murmur3", hs=8, nd=3, np=1),
    dict(name="sp-h2-np2", kind="spooky2", hs=2, nd=2, np=2),
    dict(name="sp-h4-np1", kind="spooky2", hs=4, nd=3, np=1),
    dict(name="sp-h8-np2", kind="spooky2", hs=8, nd=2, np=2),
    dict(name="m3-h16-np3", kind="murmur3", hs=16, nd=3, np=3),
    dict(name="sp-h16-np4", kind="spooky2", hs=16, nd=4, np=4),
    dict(name="m3-h8-np5", kind="murmur3", hs=8, nd=4, np=5),
    dict(name="sp-h16-np6", kind="spooky2", hs=16, nd=4, np=6),
    dict(name="m3-h16-np6", kind="murmur3", hs=16, nd=5, np=6, nfiles=2),
    dict(name="sp-h16-z3", kind="spooky2", hs=16, nd=3, np=3, zmode=True),
    dict(name="m3-h4-z3", kind="murmur3", hs=4, nd=4, np=3, zmode=True, nfiles=2),
    dict(name="m3-h16-split2", kind="murmur3", hs=16, nd=3, np=2, splits=[2, 2], limit=6144, nfiles=5),
    dict(name="sp-h8-split3", kind="spooky2", hs=8, nd=2, np=2, splits=[3, 2], limit=5120, nfiles=6),
    dict(name="m3-to-sp-rehash", kind="murmur3", hs=16, nd=3, np=2, nfiles=4, rehash="spooky2"),
    dict(name="sp-to-m3-rehash-h8", kind="spooky2", hs=8, nd=2, np=1, nfiles=4, rehash="murmur3"),
    dict(name="sp-h16-np2-wide34", kind="spooky2", hs=16, nd=34, np=2, nfiles=1),
    # arrays the reference left with an unfinished sync (a file deleted, a file added, then "sync -B 1"): the content records
    # deleted blocks with their hashes, changed blocks, and synced blocks side by side
    dict(name="m3-h8-interrupted", kind="murmur3", hs=8, nd=2, np=1, nfiles=4, interrupted=True),
    dict(name="sp-h16-interrupted", kind="spooky2", hs=16, nd=3, np=2, nfiles=4, interrupted=True),
    dict(name="sp-h4-interrupted", kind="spooky2", hs=4, nd=2, np=2, nfiles=5, interrupted=True),
    # added later with --add (same reference commit): a split layout with an EMPTY file between two used ones (the disk of that
    # file had no room for a single block), the first content format (SNAPCNT1 with 'm' and 'n' records, transcoded from what the
    # reference wrote and accepted by it), and unfinished syncs whose repair by the reference is recorded (fix_outcomes)
    dict(name="m3-h16-gapsplit", kind="murmur3", hs=16, nd=2, np=1, splits=[4], limit=668, files="tiny", gap=True),
    dict(name="m3-h16-np1-interrupted-fix", kind="murmur3", hs=16, nd=3, np=1, nfiles=4, interrupted=True, outcomes=True),
    dict(name="m3-h16-np1-legacy-interrupted", kind="murmur3", hs=16, nd=3, np=1, nfiles=4, interrupted=True, outcomes=True, legacy=True),
    dict(name="sp-h16-np2-legacy", kind="spooky2", hs=16, nd=3, np=2, nfiles=3, legacy=True),
]


def sh256(p):
    with open(p, "rb") as f:
        return hashlib.sha256(f.read()).hexdigest()


def write_tree(a, ai, spec):
    nd = spec["nd"]
    for d in range(nd):
        if spec.get("files") == "rich":
            fl = rich_files(ai, d)
        elif spec.get("files") == "tiny":
            fl = [(b"t0", 1500 + d, 60 + d, 100 + d), (b"t1", 700 + d, 70 + d, 0)]
        else:
            fl = small_files(ai, d, spec.get("nfiles", 3))
        base = os.fsencode(a.ddir(d))
        for fi, (rel, size, sec, ns) in enumerate(fl):
            p = os.path.join(base, rel)
            os.makedirs(os.path.dirname(p), exist_ok=True)
            with open(p, "wb") as f:
                f.write(fdata(ai, d * 100 + fi, size))
            t = (T0 + sec) * 10**9 + ns
            os.utime(p, ns=(t, t))
        if spec.get("files") == "rich":
            os.makedirs(os.path.join(base, b"emptydir", b"nested-empty"), exist_ok=True)
            os.symlink(b"f00-%d" % RICH_SIZES[d % len(RICH_SIZES)], os.path.join(base, b"sym-rel"))
            os.symlink(b"/nonexistent/abs \xe9", os.path.join(base, b"sub", b"sym-abs-dangling"))
            os.link(os.path.join(base, b"f05-%d" % RICH_SIZES[(5 + d) % len(RICH_SIZES)]),
                    os.path.join(base, b"sub", b"hardlink-to-f05"))


def must(res, what, rcs=(0,)):
    if res.rc not in rcs:
        raise SystemExit("golden_gen: %s failed rc=%s\n%s\n%s" % (what, res.rc, res.out[-2000:], res.err[-2000:]))
    return res


def verify_independently(a, spec, cs):
    """hashes and parity of the reference array recomputed by the independent implementations"""
    nd, np_ = spec["nd"], spec["np"]
    hs = cs["hash_size"]
    n_hash = 0
    cols = {}           # pos -> {col: block bytes}
    dirty = set()       # positions with blocks that are not synced (interrupted arrays): parity not comparable
    for idx, d in cs["disks"].items():
        dirty.update(int(p) for p in d["deleted"])
        name = d["name"].decode()
        col = d["pos"]
        base = os.fsencode(os.path.join(a.root, name))
        for f in d["files"]:
            with open(os.path.join(base, f["sub"]), "rb") as fh:
                data = fh.read()
            assert len(data) == f["size"]
            for k, (pos, st, h) in enumerate(f["blocks"]):
                blk = data[k * BS:(k + 1) * BS]
                if spec.get("interrupted") and st != "BLK":
                    dirty.add(pos)
                    continue
                assert st == "BLK", (f["sub"], st)
                inf = cs["info"][pos]
                hk = cs["prevhash"] if (inf and inf["rehash"]) else cs["hash"]
                want = hashes.block_hash(hk["kind"], hk["seed"], blk, hs)
                if want != h:
                    raise SystemExit("golden_gen: independent %s hash disagrees with the reference at %s block %d"
                                     % (hk["kind"], f["sub"], k))
                n_hash += 1
                cols.setdefault(pos, {})[col] = blk
    n_par = 0
    for l in range(np_):
        sizes = [s["size"] for s in cs["parity"][l]["splits"]] if l < len(cs["parity"]) and cs["parity"][l]["v"] == "Q" else None
        pdata = b""
        for s in range(a.conf.splits[l]):
            with open(a.pfile(l, s), "rb") as fh:
                b = fh.read()
            if sizes is not None and len(b) != sizes[s]:
                raise SystemExit("golden_gen: split size in content differs from the file size")
            pdata += b
        for pos in range(cs["blockmax"]):
            want = gf.parity_block(l, cols.get(pos, {}), zmode=bool(spec.get("zmode")), size=BS)
            got = pdata[pos * BS:(pos + 1) * BS]
            if pos in cols and pos not in dirty and got != want:
                raise SystemExit("golden_gen: independent parity disagrees with the reference: level %d pos %d" % (l, pos))
            n_par += 1 if pos in cols else 0
    return n_hash, n_par


def make_array(ai, spec, binary, commit):
    name = spec["name"]
    root = os.path.join(GEN_ROOT, name)
    if os.path.exists(root):
        shutil.rmtree(root)
    os.makedirs(root)
    conf = arr.Conf(nd=spec["nd"], np=spec["np"], copies=spec.get("copies", 1), hash_size=spec["hs"],
                    hash_kind=spec["kind"], splits=spec.get("splits"), zmode=bool(spec.get("zmode")))
    a = arr.Array(conf, root=root, seed=1000 + ai, binary=binary)
    write_tree(a, ai, spec)
    extra = []
    if spec.get("limit"):
        extra = ["--test-parity-limit", str(spec["limit"])]
    now = T0 + 1000000
    must(a.run("sync", *extra, now=now), name + " sync")
    steps = ["sync --test-force-%s%s at frozen time %d" % (spec["kind"], " " + " ".join(extra) if extra else "", now)]
    if spec.get("rehash"):
        conf.hash_kind = spec["rehash"]
        must(a.run("rehash", now=now + 86400), name + " rehash")
        steps.append("rehash --test-force-%s" % spec["rehash"])
        # scrub a part of the array 20 days later: the scrubbed stripes are converted to the new hash
        must(a.run("scrub", "-p", "40", "-o", "10", now=now + 20 * 86400), name + " scrub")
        steps.append("scrub -p 40 -o 10 (20 days later)")
        # new files are hashed with the new kind while old stripes still carry the previous one
        for d in range(spec["nd"]):
            p = os.path.join(a.ddir(d), "after-rehash")
            with open(p, "wb") as f:
                f.write(fdata(ai, 9000 + d, 1500 + 300 * d))
            t = (T0 + 900 + d) * 10**9 + 4242
            os.utime(p, ns=(t, t))
        must(a.run("sync", now=now + 21 * 86400), name + " sync after rehash")
        steps.append("3 new files; sync (21 days later)")
    must(a.run("check", now=now + 30 * 86400), name + " check")
    r = must(a.run("diff", now=now + 30 * 86400), name + " diff")
    if spec.get("interrupted"):
        os.remove(os.path.join(a.ddir(0), "s1"))
        p = os.path.join(a.ddir(spec["nd"] - 1), "late")
        with open(p, "wb") as f:
            f.write(fdata(ai, 9500, 2500))
        t = (T0 + 950) * 10**9 + 777
        os.utime(p, ns=(t, t))
        must(a.run("sync", "-B", "1", *extra, now=now + 31 * 86400), name + " partial sync")
        steps.append("delete d0/s1, add a file, sync -B 1 (31 days later): the other stripes are left unsynced")

    raw = open(a.cfile(0), "rb").read()
    for c in range(1, conf.copies):
        if open(a.cfile(c), "rb").read() != raw:
            raise SystemExit("content copies differ")
    if spec.get("legacy"):
        # the same state in the first content format; the reference must accept it and see the same array
        before = a.run("list", now=now + 40 * 86400)
        raw = content.encode(content.decode(raw), legacy=True)
        for c in range(conf.copies):
            with open(a.cfile(c), "wb") as f:
                f.write(raw)
        after = must(a.run("list", now=now + 40 * 86400), name + " list of the transcoded content")
        if sorted(t for t in before.tags if t[0] in ("file", "link_symlink", "link_hardlink")) != \
                sorted(t for t in after.tags if t[0] in ("file", "link_symlink", "link_hardlink")):
            raise SystemExit("%s: the reference lists another state from the transcoded content" % name)
        must(a.run("check", *(["-a"] if spec.get("interrupted") else []), now=now + 40 * 86400), name + " check of the transcoded content")
        steps.append("content transcoded to the first format (SNAPCNT1: 'm' mapping records, no parity records, 'n' runs for new "
                     "blocks in never used positions); list and check of the reference agree")
    cs = content.decode(raw)
    want_ver = 1 if spec.get("legacy") else 3 if (spec["hs"] != 16 or spec.get("splits")) else 2
    if cs["version"] != want_ver:
        raise SystemExit("%s: unexpected content version %d" % (name, cs["version"]))
    if spec.get("rehash"):
        nre = sum(1 for e in cs["info"] if e and e["rehash"])
        nno = sum(1 for e in cs["info"] if e and not e["rehash"])
        if not cs["prevhash"] or nre == 0 or nno == 0:
            raise SystemExit("%s: rehash not in progress (%d flagged, %d converted)" % (name, nre, nno))
    if spec.get("splits"):
        for l, p in enumerate(cs["parity"]):
            used = [s["size"] for s in p["splits"]]
            if spec.get("gap"):
                if not (used[0] and not used[1] and any(used[2:])):
                    raise SystemExit("%s: no empty split in front of a used one in level %d: %r" % (name, l, used))
            elif sum(1 for u in used if u) != spec["splits"][l]:
                raise SystemExit("%s: data does not cross the splits of level %d: %r" % (name, l, used))
    n_hash, n_par = verify_independently(a, spec, cs)
    reenc = content.encode(cs, legacy=bool(spec.get("legacy")))
    enc_ok = reenc == raw
    if spec.get("legacy") and spec.get("interrupted") and not any(st == "NEW" for d in cs["disks"].values() for f in d["files"] for (_, st, _) in f["blocks"]):
        raise SystemExit("%s: no 'n' run in the transcoded content" % name)

    # what the reference makes of the loss of each data disk of an array left with an unfinished sync (exit status, every
    # file of every disk afterwards): the current code has to reach the same result from the same files
    outcomes = {}
    if spec.get("outcomes"):
        for d in range(spec["nd"]):
            c = a.clone()
            try:
                shutil.rmtree(c.ddir(d)); os.makedirs(c.ddir(d))
                r = c.run("fix", *extra, now=now + 50 * 86400)
                outcomes["d%d" % d] = {"rc": r.rc,
                                      "data": {dn: gl.tree_manifest(os.fsencode(os.path.join(c.root, dn))) for dn in conf.disk_names}}
            finally:
                c.destroy()
        if not any(o["rc"] == 0 for o in outcomes.values()):
            raise SystemExit("%s: the reference repairs no single disk loss" % name)

    # clean helper files of the driver
    for junk in glob.glob(os.path.join(root, "log.*")) + glob.glob(os.path.join(root, "c*/content.lock")) \
            + [os.path.join(root, "urandom")]:
        if os.path.exists(junk):
            os.remove(junk)
    tops = sorted(n for n in os.listdir(root) if os.path.isdir(os.path.join(root, n)))
    conf_text = open(a.conf_path()).read().replace(root, "ROOT")
    man = {
        "name": name, "reference_commit": commit, "spec": {k: v for k, v in spec.items()},
        "hash_kind_now": conf.hash_kind, "hash_size": spec["hs"], "nd": spec["nd"], "np": spec["np"],
        "zmode": bool(spec.get("zmode")), "splits": conf.splits, "copies": conf.copies,
        "parity_limit": spec.get("limit"), "content_version": cs["version"], "steps": steps,
        "conf_template": conf_text,
        "disks": conf.disk_names,
        "data": {dn: gl.tree_manifest(os.fsencode(os.path.join(root, dn))) for dn in conf.disk_names},
        "parity": [[{"path": os.path.relpath(a.pfile(l, s), root), "size": os.path.getsize(a.pfile(l, s)),
                     "sha256": sh256(a.pfile(l, s))} for s in range(conf.splits[l])] for l in range(conf.np)],
        "content": {"paths": [os.path.relpath(a.cfile(c), root) for c in range(conf.copies)],
                    "size": len(raw), "sha256": hashlib.sha256(raw).hexdigest()},
        "anchors": {"block_hashes_recomputed_independently": n_hash, "parity_blocks_recomputed_independently": n_par,
                    "independent_encoder_reproduces_content_bytes": enc_ok},
        "blockmax": cs["blockmax"],
        "rehash_flagged_stripes": sum(1 for e in cs["info"] if e and e["rehash"]),
        "interrupted": bool(spec.get("interrupted")),
    }
    if outcomes:
        man["fix_outcomes"] = outcomes
    os.makedirs(gl.ARRAYS, exist_ok=True)
    gl.pack(root, os.path.join(gl.ARRAYS, name + ".tar.gz"), tops)
    with open(os.path.join(gl.ARRAYS, name + ".json"), "w") as f:
        json.dump(man, f, indent=1, sort_keys=True)
    shutil.rmtree(root)
    print("  %-24s v%d blockmax %3d hashes %3d parity blocks %3d encoder-identical %s tar %d bytes" % (
        name, cs["version"], cs["blockmax"], n_hash, n_par, enc_ok,
        os.path.getsize(os.path.join(gl.ARRAYS, name + ".tar.gz"))))
    return man


def make_vectors():
    exe = gl.build_harness()
    os.makedirs(os.path.dirname(gl.VECTORS), exist_ok=True)
    tmp = gl.VECTORS + ".tmp"
    p = subprocess.run([exe, "gen", tmp], stdout=subprocess.PIPE, stderr=subprocess.PIPE, text=True)
    if p.returncode != 0:
        raise SystemExit("golden_conf gen failed: " + p.stderr)
    D, R = gl.parse_vectors(tmp)
    bad = gl.python_recompute(D, R)
    if bad:
        raise SystemExit("independent Python implementations disagree with the reference on %d vectors: %r"
                         % (len(bad), bad[:10]))
    os.replace(tmp, gl.VECTORS)
    print("  vectors: %d digest lines, %d parity lines, %d bytes; all recomputed identically in Python" % (
        len(D), len(R), os.path.getsize(gl.VECTORS)))
    return len(D), len(R)


def add_missing():
    """--add: generate only the arrays of SPECS that the golden set does not hold yet (from a worktree at the reference commit
    recorded in INDEX.json); everything already vendored stays byte for byte as it is"""
    idx_path = os.path.join(gl.GOLDEN, "INDEX.json")
    idx = json.load(open(idx_path))
    commit = subprocess.run(["git", "-C", vlib.REPO, "rev-parse", "HEAD"], stdout=subprocess.PIPE, text=True).stdout.strip()
    if commit != idx["reference_commit"]:
        raise SystemExit("the tree at %s is at %s, the golden set was written by %s" % (vlib.REPO, commit, idx["reference_commit"]))
    dirty = subprocess.run(["git", "-C", vlib.REPO, "status", "--porcelain", "--untracked-files=no"],
                           stdout=subprocess.PIPE, text=True).stdout.strip()
    if dirty:
        raise SystemExit("reference tree has local modifications:\n" + dirty)
    binary = vlib.build("hooks")
    os.makedirs(GEN_ROOT, exist_ok=True)
    try:
        mans = [make_array(ai, spec, binary, commit) for ai, spec in enumerate(SPECS) if spec["name"] not in idx["arrays"]]
    finally:
        shutil.rmtree(GEN_ROOT, ignore_errors=True)
    for m in mans:
        idx["arrays"].append(m["name"])
        idx["array_sha256"][m["name"]] = sh256(os.path.join(gl.ARRAYS, m["name"] + ".tar.gz"))
    with open(idx_path, "w") as f:
        json.dump(idx, f, indent=1, sort_keys=True)
    print("golden set extended by %d arrays: %s" % (len(mans), [m["name"] for m in mans]))


def main():
    if "--add" in sys.argv:
        if vlib.REPO == "/repo" or not os.environ.get("GOLDEN_REFERENCE_WORKTREE"):
            raise SystemExit("--add needs a worktree of /repo at the reference commit: GOLDEN_REFERENCE_WORKTREE=1 REPO=<worktree>")
        return add_missing()
    force = "--force" in sys.argv
    if os.path.exists(gl.GOLDEN) and os.listdir(gl.GOLDEN) and not force:
        raise SystemExit("golden set exists; it records the reference version and must not be regenerated "
                         "(use --force only when re-pinning the reference)")
    if vlib.REPO != "/repo" and not os.environ.get("GOLDEN_REFERENCE_WORKTREE"):
        raise SystemExit("the golden set is produced from /repo only (or from a worktree of /repo at the pinned reference commit: "
                         "GOLDEN_REFERENCE_WORKTREE=1 REPO=<worktree>)")
    commit = subprocess.run(["git", "-C", vlib.REPO, "rev-parse", "HEAD"], stdout=subprocess.PIPE,
                            text=True).stdout.strip()
    dirty = subprocess.run(["git", "-C", vlib.REPO, "status", "--porcelain", "--untracked-files=no"],
                           stdout=subprocess.PIPE, text=True).stdout.strip()
    if dirty:
        raise SystemExit("reference tree has local modifications:\n" + dirty)
    binary = vlib.build("hooks")
    if force and os.path.isdir(gl.ARRAYS):
        shutil.rmtree(gl.ARRAYS)
    os.makedirs(GEN_ROOT, exist_ok=True)
    try:
        nD, nR = make_vectors()
        mans = [make_array(ai, spec, binary, commit) for ai, spec in enumerate(SPECS)]
    finally:
        shutil.rmtree(GEN_ROOT, ignore_errors=True)
    with open(os.path.join(gl.GOLDEN, "INDEX.json"), "w") as f:
        json.dump({"reference_commit": commit, "arrays": [m["name"] for m in mans],
                   "vectors": {"file": "vectors/vectors.txt", "digest_lines": nD, "parity_lines": nR,
                               "sha256": sh256(gl.VECTORS)},
                   "array_sha256": {m["name"]: sh256(os.path.join(gl.ARRAYS, m["name"] + ".tar.gz")) for m in mans}},
                  f, indent=1, sort_keys=True)
    total = sum(os.path.getsize(os.path.join(dp, n)) for dp, _, fn in os.walk(gl.GOLDEN) for n in fn)
    print("golden set written: %d arrays, total %d bytes, reference %s" % (len(mans), total, commit))


if __name__ == "__main__":
    main()
