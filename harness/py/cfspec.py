"""TLC plumbing for spec/ContentFormat*.tla shared by props/C09.py and props/C10.py: private run directory with
the CRC witness, generation of the corpus (Part "gen"), validation of harness-produced lines (Part "check"),
model-level damage sweep (Part "damage"), and the check that cfmt.py is a faithful transliteration."""
import json, os, random, re, shutil

import vlib, cfmt

DIMS = {"lay": 12, "inf": 6, "base": 6, "hs": 6, "par": 5, "kind": 3, "nm": 9, "tm": 9, "mp": 4, "bs": 2}
SPEC_FILES = ["ContentFormat.tla", "ContentFormatMC.tla", "ContentFormat_gen.cfg", "ContentFormat_check.cfg",
              "ContentFormat_damage.cfg", "ContentSave.tla", "ContentSaveTrace.tla", "ContentSaveTrace.cfg",
              "ContentSave_n1.cfg", "ContentSave_n2.cfg", "ContentSave_n3.cfg", "ContentSave_n4.cfg",
              "ContentSave_unguarded.cfg", "ContentSave_lastonly.cfg"]


def rundir(tag):
    """private copy of the spec files (TLC writes its trace-explorer files beside the module)"""
    d = os.path.join(vlib.OUT, "%s-%d" % (tag, os.getpid()))
    shutil.rmtree(d, ignore_errors=True)
    os.makedirs(d)
    for f in SPEC_FILES:
        shutil.copy(os.path.join(vlib.SPEC, f), d)
    cfmt.write_crc_witness(d)
    return d


def extra_choices(n, seed):
    """seeded random choice vectors over the full product of the generator's dimensions"""
    rng = random.Random(seed * 104729 + 7)
    return [{k: rng.randint(1, m) for k, m in DIMS.items()} for _ in range(n)]


def _fail(res, what):
    raise vlib.ToolFailure("%s: %s\n%s" % (what, res.error or res.violated, res.out[-3000:]))


def generate(d, tier, nextra, workers=16, timeout=900):
    """run Part gen; returns (corpus lines, TlcResult).  A violated round-trip invariant is a defect of the
    specification itself, never a verdict about snapraid: tool failure."""
    extra = os.path.join(d, "extra.ndjson")
    with open(extra, "w") as f:
        for c in extra_choices(nextra, vlib.seed()):
            f.write(json.dumps(c) + "\n")
    dump = os.path.join(d, "corpus.ndjson")
    if os.path.exists(dump):
        os.remove(dump)
    res = vlib.run_tlc("ContentFormatMC", cfg="ContentFormat_gen.cfg", cwd=d, workers=workers, timeout=timeout,
                       env={"CF_DUMP": dump, "CF_TIER": tier, "CF_EXTRA": extra if nextra else ""}, tag="cfgen")
    if res.error or res.violated:
        _fail(res, "ContentFormat gen")
    corpus = []
    with open(dump) as f:
        for line in f:
            if line.strip():
                corpus.append(json.loads(line))
    if not corpus or res.distinct != 2 * len(corpus):
        raise vlib.ToolFailure("ContentFormat gen: %d cases dumped, %d states" % (len(corpus), res.distinct))
    return corpus, res


def check_transliteration(corpus):
    """cfmt.EncodeRaw / Encode / Reloaded must reproduce TLC's output on every generated case"""
    n = 0
    for e in corpus:
        now = cfmt.unat(e["now"])
        if cfmt.EncodeRaw(e["s"], now) != bytes(e["raw"]) or cfmt.Encode(e["s"], now) != bytes(e["norm"]):
            raise vlib.ToolFailure("cfmt.py is not a faithful transliteration of ContentFormat.tla on case %r" % e["c"])
        n += 2
    return n


def check_lines(d, lines, workers=16, timeout=900):
    """Part check: lines = [{"s": spec state, "now": [hi, lo], "bytes": [...]}]; returns (ok, failing index, res)"""
    p = os.path.join(d, "lines.ndjson")
    with open(p, "w") as f:
        for l in lines:
            f.write(json.dumps(l) + "\n")
    res = vlib.run_tlc("ContentFormatMC", cfg="ContentFormat_check.cfg", cwd=d, workers=workers, timeout=timeout,
                       env={"CF_LINES": p, "CF_TIER": "quick", "CF_EXTRA": "", "CF_DUMP": ""}, tag="cfcheck")
    if res.error:
        _fail(res, "ContentFormat check")
    if res.violated:
        m = re.findall(r"job = <<(\d+), 0>>", res.out)
        return False, (int(m[-1]) - 1 if m else None), res
    if res.distinct != 2 * len(lines):
        raise vlib.ToolFailure("ContentFormat check: %d lines, %d states" % (len(lines), res.distinct))
    return True, None, res


def damage_model(d, tier, nextra, ks, workers=16, timeout=1200):
    """Part damage on the corpus cases ks (1-based case numbers of the SAME generation parameters)"""
    p = os.path.join(d, "damage.ndjson")
    with open(p, "w") as f:
        for k in ks:
            f.write(json.dumps({"k": k}) + "\n")
    extra = os.path.join(d, "extra.ndjson")
    res = vlib.run_tlc("ContentFormatMC", cfg="ContentFormat_damage.cfg", cwd=d, workers=workers, timeout=timeout,
                       env={"CF_DAMAGE": p, "CF_TIER": tier, "CF_EXTRA": extra if nextra else "", "CF_DUMP": ""},
                       tag="cfdamage")
    if res.error:
        _fail(res, "ContentFormat damage")
    return res


class Limited:
    """at most `cap` written-out violations per signature (a systematic defect fails hundreds of cases the same
    way); the others are counted"""

    def __init__(self, v, cap=6):
        self.v, self.cap = v, cap
        self.count = {}
        self.suppressed = 0

    def violation(self, what, replay_obj=None, signature=None, **kw):
        n = self.count.get(signature, 0) + 1
        self.count[signature] = n
        if n <= self.cap:
            return self.v.violation(what, replay_obj, signature=signature, **kw)
        self.suppressed += 1
        if n == self.cap + 1:
            print("  (further violations with signature %s are counted, not written out)" % signature)
        return True


def worker_pids(pool):
    return [p.pid for p in getattr(pool, "_pool", [])]


def cleanup_workers(pids):
    """scratch directories of pool workers that were terminated in the middle of a task (vlib.scratch_root names
    them verif-<pid>-*)"""
    import glob
    for pid in pids:
        for base in ("/dev/shm", "/var/tmp"):
            for d in glob.glob(os.path.join(base, "verif-%d-*" % pid)):
                shutil.rmtree(d, ignore_errors=True)
