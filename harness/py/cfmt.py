"""Python transliteration of spec/ContentFormat.tla (operator for operator, same names) plus the glue between
the three representations of a content state:

  spec state   the ContentState record of ContentFormat.tla in its JSON form (what TLC dumps / reads):
               32-bit quantities are [hi16, lo16], 64-bit quantities are lists of 7-bit digits (least
               significant first, canonical), byte strings are lists of ints
  content.py   the dict of the independent decoder (harness/py/content.py)
  bytes        the file

The transliteration is only a stand-in for the spec on inputs that are too large for TLC; props/C10.py first
checks it against TLC's own Encode / Norm output on the whole generated corpus, byte for byte.
"""
import json, os, struct

import content

# ---------------------------------------------------------------------------------------
# numbers

def U(n):
    """int -> [hi, lo]"""
    return [(n >> 16) & 0xFFFF, n & 0xFFFF]


def unat(a):
    return a[0] * 65536 + a[1]


def D(n):
    """int (0 .. 2^64-1) -> canonical 7-bit digits"""
    d = []
    while True:
        d.append(n & 0x7F)
        n >>= 7
        if not n:
            return d


def dnat(d):
    return sum(x << (7 * i) for i, x in enumerate(d))


def VarInt(n):
    d = D(n)
    d[-1] += 128
    return bytes(d)


def VarU(a):
    return VarInt(unat(a))


def VarN(n):
    return VarInt(n)


def VarD(d):
    return bytes(d[:-1]) + bytes([d[-1] + 128])


def Str(b):
    return VarN(len(b)) + bytes(b)


# ---------------------------------------------------------------------------------------
# CRC-32C, bit by bit (independent of content.py's table)

def crc_table():
    poly = 0x82F63B78
    t = []
    for i in range(256):
        c = i
        for _ in range(8):
            c = (c >> 1) ^ poly if c & 1 else c >> 1
        t.append(c)
    return t


_T = crc_table()


def Crc32c(data):
    c = 0xFFFFFFFF
    for b in data:
        c = _T[(c ^ b) & 0xFF] ^ (c >> 8)
    return c ^ 0xFFFFFFFF


def write_crc_witness(dirname):
    """witness_crc32c.json for ContentFormat.tla (TLC checks every entry against the bitwise definition)"""
    p = os.path.join(dirname, "witness_crc32c.json")
    with open(p, "w") as f:
        json.dump({"t": [U(c) for c in _T]}, f)
    return p


# ---------------------------------------------------------------------------------------
# derived quantities

def Ver(s):
    return 3 if s["hs"] != 16 or any(len(P["splits"]) > 1 for P in s["parity"]) else 2


def AllPos(s):
    return {unat(b["pos"]) for Dk in s["disks"] for f in Dk["files"] for b in f["blocks"]}


def Bmax(s):
    P = AllPos(s)
    return (max(P) + 1) & 0xFFFFFFFF if P else 0


def HasRehash(s):
    return any(e["rehash"] for e in s["info"])


def Oldest(s):
    return min((unat(e["t"]) for e in s["info"]), default=0)


# ---------------------------------------------------------------------------------------
# encoder

def RunsOf(n, is_start):
    st = [i for i in range(n) if is_start(i)]
    return [(st[k], (st[k + 1] if k + 1 < len(st) else n) - st[k]) for k in range(len(st))]


def EncBlocks(bl):
    def is_start(i):
        return i == 0 or bl[i]["st"] != bl[i - 1]["st"] or unat(bl[i]["pos"]) != (unat(bl[i - 1]["pos"]) + 1) & 0xFFFFFFFF
    o = bytearray()
    for a, n in RunsOf(len(bl), is_start):
        o += bytes([bl[a]["st"]]) + VarU(bl[a]["pos"]) + VarN(n)
        for j in range(a, a + n):
            o += bytes(bl[j]["h"])
    return bytes(o)


def EncFile(m0, f):
    return (b"f" + VarN(m0) + VarD(f["size"]) + VarD(f["sec"]) + VarN(f["nsec"] + 1) + VarD(f["ino"]) + Str(f["name"])
            + EncBlocks(f["blocks"]))


def EncLink(m0, l):
    return bytes([l["kind"]]) + VarN(m0) + Str(l["name"]) + Str(l["to"])


def EncDir(m0, d):
    return b"r" + VarN(m0) + Str(d)


def EncHoles(dl, bmax):
    def is_start(i):
        return i == 0 or unat(dl[i]["pos"]) != (unat(dl[i - 1]["pos"]) + 1) & 0xFFFFFFFF
    o = bytearray()
    end = 0
    for a, n in RunsOf(len(dl), is_start):
        gap = (unat(dl[a]["pos"]) - end) & 0xFFFFFFFF
        if gap:
            o += VarInt(gap) + b"O"
        o += VarN(n) + b"o"
        for j in range(a, a + n):
            o += bytes(dl[j]["h"])
        end = (unat(dl[a + n - 1]["pos"]) + 1) & 0xFFFFFFFF
    rest = (bmax - end) & 0xFFFFFFFF
    if rest:
        o += VarInt(rest) + b"O"
    return bytes(o)


def EncDisk(Dk, bmax):
    m0 = Dk["map"] - 1
    o = bytearray()
    for f in Dk["files"]:
        o += EncFile(m0, f)
    for l in Dk["links"]:
        o += EncLink(m0, l)
    for d in Dk["dirs"]:
        o += EncDir(m0, d)
    o += b"h" + VarN(m0) + EncHoles(Dk["del"], bmax)
    return bytes(o)


def InfoFlag(e):
    return 1 + (2 if e["bad"] else 0) + (4 if e["rehash"] else 0) + (8 if e["js"] else 0)


def InfoTime(t, oldest, now):
    c = min(t, now)
    return 0 if c < oldest else c - oldest


def EncInfo(inf, bmax, oldest, now):
    def same(a, b):
        return a["t"] == b["t"] and a["bad"] == b["bad"] and a["rehash"] == b["rehash"] and a["js"] == b["js"]

    def is_start(i):
        return i == 0 or unat(inf[i]["pos"]) != (unat(inf[i - 1]["pos"]) + 1) & 0xFFFFFFFF or not same(inf[i], inf[i - 1])
    o = bytearray(b"i" + VarInt(oldest))
    end = 0
    for a, n in RunsOf(len(inf), is_start):
        gap = (unat(inf[a]["pos"]) - end) & 0xFFFFFFFF
        if gap:
            o += VarInt(gap) + VarN(0)
        o += VarN(n) + VarN(InfoFlag(inf[a])) + VarInt(InfoTime(unat(inf[a]["t"]), oldest, now))
        end = (unat(inf[a + n - 1]["pos"]) + 1) & 0xFFFFFFFF
    rest = (bmax - end) & 0xFFFFFFFF
    if rest:
        o += VarInt(rest) + VarN(0)
    return bytes(o)


def EncHash(tag, h):
    return bytes([tag, h["kind"]]) + bytes(h["seed"])


def EncMap(m):
    return b"M" + Str(m["name"]) + VarN(m["pos"]) + VarU(m["total"]) + VarU(m["free"]) + Str(m["uuid"])


def EncParity(v, l, P):
    if v == 3:
        o = b"Q" + VarN(l - 1) + VarU(P["total"]) + VarU(P["free"]) + VarN(len(P["splits"]))
        for sp in P["splits"]:
            o += Str(sp["path"]) + Str(sp["uuid"]) + VarD(sp["size"])
        return o
    return b"P" + VarN(l - 1) + VarU(P["total"]) + VarU(P["free"]) + Str(P["splits"][0]["uuid"])


def EncBody(s, now):
    v = Ver(s)
    bmax = Bmax(s)
    o = bytearray(b"SNAPCNT%d\n\x03\x00\x00" % v)
    o += b"z" + VarN(s["bs"]) + b"x" + VarInt(bmax)
    if v == 3:
        o += b"y" + VarN(s["hs"])
    o += EncHash(99, s["hash"])
    if len(s["prev"]) == 1 and HasRehash(s):
        o += EncHash(67, s["prev"][0])
    for m in s["maps"]:
        o += EncMap(m)
    for l, P in enumerate(s["parity"]):
        o += EncParity(v, l + 1, P)
    for Dk in s["disks"]:
        o += EncDisk(Dk, bmax)
    o += EncInfo(s["info"], bmax, Oldest(s), now)
    o += b"N"
    return bytes(o)


def EncodeRaw(s, now):
    """now: int"""
    body = EncBody(s, now)
    return body + struct.pack("<I", Crc32c(body))


def Norm(s):
    req = AllPos(s)
    dk = [dict(Dk, **{"del": [e for e in Dk["del"] if unat(e["pos"]) in req]}) for Dk in s["disks"]]
    kept = [Dk for Dk in dk if Dk["files"] or Dk["links"] or Dk["dirs"] or Dk["del"]]
    kept_maps = [m for m in range(1, len(s["maps"]) + 1) if any(Dk["map"] == m for Dk in kept)]
    inf = [e for e in s["info"] if unat(e["pos"]) in req]
    rh = any(e["rehash"] for e in inf)
    r = dict(s)
    r["maps"] = [s["maps"][m - 1] for m in kept_maps]
    r["disks"] = [dict(Dk, map=kept_maps.index(Dk["map"]) + 1) for Dk in kept]
    r["info"] = inf
    r["prev"] = s["prev"] if rh else []
    return r


def Encode(s, now):
    return EncodeRaw(Norm(s), now)


def LoadView(s, now):
    r = dict(s)
    r["info"] = [dict(e, t=U(min(unat(e["t"]), now) & ~7)) for e in s["info"]]
    r["prev"] = s["prev"] if HasRehash(s) else []
    return r


def Reloaded(s, now):
    return LoadView(Norm(s), now)


# ---------------------------------------------------------------------------------------
# content.py dict -> spec state

_ST = {"BLK": 98, "CHG": 103, "REP": 112, "NEW": 103}
_HK = {"murmur3": 117, "spooky2": 107, "metro": 109}


def from_decoded(cs):
    """content.decode() result -> spec state.  The order of the disk sections is the order of first mention in
    the file; version 2 files carry neither parity paths nor sizes."""
    def h(x):
        return {"kind": _HK[x["kind"]], "seed": list(x["seed"])}
    secs = []
    index = {}

    def sec(m):
        if m not in index:
            index[m] = len(secs)
            secs.append({"map": m + 1, "files": [], "links": [], "dirs": [], "del": []})
        return secs[index[m]]
    for it in cs["items"]:
        k, m = it[0], it[1]
        S = sec(m)
        if k == 'f':
            f = it[2]
            S["files"].append({"name": list(f["sub"]), "size": D(f["size"]), "sec": D(f["mtime_sec"]),
                               "nsec": f["mtime_nsec"], "ino": D(f["inode"]),
                               "blocks": [{"pos": U(p), "st": _ST[st], "h": list(hh)} for p, st, hh in f["blocks"]]})
        elif k in 'as':
            l = it[2]
            S["links"].append({"kind": ord(k), "name": list(l["sub"]), "to": list(l["linkto"])})
        elif k == 'r':
            S["dirs"].append(list(it[2]))
        elif k == 'h':
            d = cs["disks"][m]["deleted"]
            S["del"] = [{"pos": U(p), "h": list(d[p])} for p in sorted(d)]
    par = []
    for P in cs["parity"]:
        if P["v"] == 'Q':
            sp = [{"path": list(x["path"]), "uuid": list(x["uuid"]), "size": D(x["size"])} for x in P["splits"]]
        else:
            sp = [{"path": [], "uuid": list(P["splits"][0]["uuid"]), "size": [0]}]
        par.append({"total": U(P["total"]), "free": U(P["free"]), "splits": sp})
    info = [{"pos": U(p), "t": U(e["t"] & 0xFFFFFFFF & ~7), "bad": e["bad"], "rehash": e["rehash"], "js": e["justsynced"]}
            for p, e in enumerate(cs["info"]) if e is not None]
    return {"bs": cs["block_size"], "hs": cs["hash_size"], "hash": h(cs["hash"]),
            "prev": [h(cs["prevhash"])] if cs.get("prevhash") else [],
            "maps": [{"name": list(m["name"]), "pos": m["pos"], "total": U(m["total"]), "free": U(m["free"]),
                      "uuid": list(m["uuid"])} for m in cs["maps"]],
            "parity": par, "disks": secs, "info": info}


def from_decoded_sparse(b):
    """decode bytes -> spec state; like from_decoded(content.decode(b)) but usable with a huge blockmax
    (content.decode materialises one info entry per position)"""
    return from_decoded(content.decode(b))


def now_of(b, s):
    """The clock value a file was written with is not stored; any now >= every recorded time reproduces it."""
    return max([unat(e["t"]) for e in s["info"]] + [0])


def summary(s):
    """human-readable digest of a spec state for evidence samples"""
    return {"version": Ver(s), "hash_size": s["hs"], "block_size": s["bs"], "blockmax": Bmax(s),
            "disks": [{"name": bytes(s["maps"][Dk["map"] - 1]["name"]).decode("latin1"),
                       "files": [{"name": bytes(f["name"]).decode("latin1"), "size": dnat(f["size"]),
                                  "mtime": [dnat(f["sec"]), f["nsec"]], "inode": dnat(f["ino"]),
                                  "blocks": [[unat(b["pos"]), chr(b["st"])] for b in f["blocks"]]} for f in Dk["files"]],
                       "links": len(Dk["links"]), "dirs": len(Dk["dirs"]),
                       "deleted": [unat(e["pos"]) for e in Dk["del"]]} for Dk in s["disks"]],
            "info": [[unat(e["pos"]), unat(e["t"]), InfoFlag(e)] for e in s["info"]],
            "parity_splits": [len(P["splits"]) for P in s["parity"]]}
