"""Independent implementations of SnapRAID's block hashes (seeded 128-bit variants).
murmur3: MurmurHash3_x86_128 with SnapRAID's constants and a 16-byte seed as initial state."""
import struct

M32 = 0xFFFFFFFF


def _rotl(x, r):
    return ((x << r) | (x >> (32 - r))) & M32


def _fmix(h):
    h ^= h >> 16
    h = (h * 0x85ebca6b) & M32
    h ^= h >> 13
    h = (h * 0xc2b2ae35) & M32
    h ^= h >> 16
    return h


C1, C2, C3, C4 = 0x239b961b, 0xab0e9789, 0x38b34ae5, 0xa1e38b93


def murmur3(data, seed):
    h1, h2, h3, h4 = struct.unpack("<4I", seed)
    n = len(data)
    nb = n // 16
    if nb:
        ks = struct.unpack("<%dI" % (nb * 4), data[:nb * 16])
        for i in range(0, nb * 4, 4):
            k1 = (ks[i] * C1) & M32; k1 = _rotl(k1, 15); k1 = (k1 * C2) & M32; h1 ^= k1
            h1 = _rotl(h1, 19); h1 = (h1 + h2) & M32; h1 = (h1 * 5 + 0x561ccd1b) & M32
            k2 = (ks[i + 1] * C2) & M32; k2 = _rotl(k2, 16); k2 = (k2 * C3) & M32; h2 ^= k2
            h2 = _rotl(h2, 17); h2 = (h2 + h3) & M32; h2 = (h2 * 5 + 0x0bcaa747) & M32
            k3 = (ks[i + 2] * C3) & M32; k3 = _rotl(k3, 17); k3 = (k3 * C4) & M32; h3 ^= k3
            h3 = _rotl(h3, 15); h3 = (h3 + h4) & M32; h3 = (h3 * 5 + 0x96cd1c35) & M32
            k4 = (ks[i + 3] * C4) & M32; k4 = _rotl(k4, 18); k4 = (k4 * C1) & M32; h4 ^= k4
            h4 = _rotl(h4, 13); h4 = (h4 + h1) & M32; h4 = (h4 * 5 + 0x32ac3b17) & M32
    rem = n & 15
    if rem:
        tail = data[nb * 16:] + b"\0" * (16 - rem)
        t1, t2, t3, t4 = struct.unpack("<4I", tail)
        if rem > 12:
            k4 = (t4 * C4) & M32; k4 = _rotl(k4, 18); k4 = (k4 * C1) & M32; h4 ^= k4
        if rem > 8:
            k3 = (t3 * C3) & M32; k3 = _rotl(k3, 17); k3 = (k3 * C4) & M32; h3 ^= k3
        if rem > 4:
            k2 = (t2 * C2) & M32; k2 = _rotl(k2, 16); k2 = (k2 * C3) & M32; h2 ^= k2
        k1 = (t1 * C1) & M32; k1 = _rotl(k1, 15); k1 = (k1 * C2) & M32; h1 ^= k1
    h1 ^= n & M32; h2 ^= n & M32; h3 ^= n & M32; h4 ^= n & M32
    h1 = (h1 + h2 + h3 + h4) & M32
    h2 = (h2 + h1) & M32; h3 = (h3 + h1) & M32; h4 = (h4 + h1) & M32
    h1, h2, h3, h4 = _fmix(h1), _fmix(h2), _fmix(h3), _fmix(h4)
    h1 = (h1 + h2 + h3 + h4) & M32
    h2 = (h2 + h1) & M32; h3 = (h3 + h1) & M32; h4 = (h4 + h1) & M32
    return struct.pack("<4I", h1, h2, h3, h4)


def block_hash(kind, seed, data, hash_size=16):
    if kind == "murmur3":
        return murmur3(data, seed)[:hash_size]
    if kind == "spooky2":
        from spooky2 import spooky128
        return spooky128(data, seed)[:hash_size]
    raise ValueError("unsupported hash kind " + kind)
