#!/usr/bin/env python3
"""Generates /verif/MANIFEST.json from the table below (one place to keep it valid)."""
import json, os, sys

HERE = os.path.abspath(os.path.join(os.path.dirname(__file__), "..", ".."))

CHECKS = {
    "C02": dict(
        cat="exploration", design="6/C02",
        technique="TLA+ definition of GF(2^8)/Cauchy matrix checked by TLC; exhaustive conformance run of every raid_gen variant against the TLC-verified tables",
        text="TLC verifies witness tables (field, generator matrices) against the non-recursive TLA+ definition; a C harness linked with the rebuilt raid objects compares every exported table and runs every generator variant the CPU supports over the complete disk x byte x lane basis and dense data, and calls every variant from four threads at once on private buffers. Exhaustive over a finite basis, hence 'exploration' rather than proof.",
        note="Trusted: TLC, the TLA+ definition of the field (polynomial 0x11d) and of the documented matrix construction, linearity of the implementations between basis vectors is probed by dense data only."),
    "C03": dict(
        cat="exploration", design="6/C03",
        technique="TLC checks Cauchy-theorem premises and minors of RaidCode.tla and enumerates the erasure cases; each case replayed into raid_rec/raid_data/raid_check/raid_scan",
        text="TLC checks the premises of the extended-Cauchy theorem on the whole matrix and evaluates determinants of all minors of leading blocks/windows; the admissible erasure cases are enumerated by TLC and each is executed with every decoder variant on the rebuilt objects.",
        note="Trusted: the extended-Cauchy theorem (invertibility of all 3.8e11 minors is not enumerated), TLC."),
    "C18": dict(
        cat="model_checking", design="6/C18",
        technique="Filter.tla written from the manual; every TLC state (rule list) replayed as implementation tests of filter_* and end-to-end sync/list/fix -f runs",
        text="TLC enumerates rule lists x paths from a specification written from the manual; each TLC state is one batch of implementation tests against the real filter functions (both fnmatch builds) plus end-to-end scenarios for sync/list and -f/-d/-m/-e selection (re-pointed dangling links under -m, stripes that cannot be repaired: nothing outside the selection is renamed or written).",
        note="Bounded pattern pool and path depth; the manual's ambiguities are listed in the evidence assumptions and accepted both ways."),
}

CHECKS["C13"] = dict(
    cat="model_checking", design="4.3, 6/C13",
    technique="IoRing.tla (one action per critical section of io.c) checked by TLC incl. termination under fairness; H1 traces of real sync/scrub runs under seeded schedule perturbation validated against IoRingTrace.tla; byte-level determinism comparison across cache depths",
    text="TLC explores all interleavings of caller, reader and writer threads over the slot ring for small sizes (ownership, once-in-order, determinism, absence of deadlock, termination under weak fairness, both signalling disciplines, mono mode); every real run's slot hand-over trace (hook H1, events taken under io_mutex) must be a behaviour of the specification, and parity/content/errors must be identical across cache depths 1..128 and yield seeds, with each reader and each scanner thread made the slow one in turn (files moved across disks, scrub plans that select nothing, stripes skipped while needing a parity update included).",
    note="Small ring sizes in the model; wake-ups are not observable in traces (covered by liveness on the model and hang detection on real runs); writer-error accounting is excluded (defects F3/F4, see C08).")

CHECKS["C16"] = dict(
    cat="translation_validation", design="6/C16",
    technique="vendored reference arrays and digest/CRC/parity vectors of the pinned version, doubly anchored by independent Python implementations of the TLA+-owned definitions (content encoding, GF(2^8) coefficients); current build must load, verify, rebuild and reproduce them",
    text="Reference version vs current version on stored inputs: 27 golden arrays (both hash kinds, hash sizes 2..16, 1..6 parities, z-parity, split layouts incl. an empty file in front of a used one, content formats 1 (m/n records), 2 and 3, rehash in progress with distinct seeds, arrays left with an unfinished sync with the recorded outcome of the reference's fix per lost disk; configuration lines in several orders; read calls returning short counts) are loaded, checked, damaged within the parity count in every subset, fixed and compared with vendored manifests; 4404 digest/CRC vectors and 128 parity vectors are recomputed by every implementation variant of the current build.",
    note="The digests of Murmur3/SpookyHash are numeric functions: decided by recorded reference behaviour plus independent transliterations, not by TLC (DESIGN.md section 8).")
CHECKS["C07"] = dict(
    cat="fault_enumeration", design="4.2, 6/C07",
    technique="ArraySteps.tla (sync refined into per-system-call steps with Crash anywhere) checked by TLC; every state-changing system call of real sync/fix runs is a kill point (before/after/short write) enumerated with an LD_PRELOAD shim; each execution validated by TLC against ArrayTrace.tla",
    text="TLC checks on the step model that every crash state is safe (data untouched, every content copy whole, synced stripes valid for every copy, resume converges, old files recoverable when only additions are pending); on the binary every state-changing call of sync and fix is a kill point, SIGINT at stripes (also followed by copies of the partly synced files), followed by resume, check and a loss/fix round, all validated as traces.",
    note="Kill model: SIGKILL of the process, no power loss. The autosave defect (F5) is reported as a known finding by its signature.")
CHECKS["C08"] = dict(
    cat="fault_enumeration", design="4.2, 6/C08",
    technique="ArraySteps.tla with failing parity writes (writer error counters as in io.c) checked by TLC; EIO/ENOSPC injected by the shim at every data read, parity read and parity write of real sync/scrub runs over io-cache depths; C08 evaluated by TLC on the projected post-state",
    text="Every read/write call on data and parity files of real sync and scrub runs (arrays with pending changes and a hash migration in progress included) is a fault point; the post-state must show a failing status and the stripe unsynced or bad, every OTHER stripe must end as in the faultless run of the specification (SyncResult / ScrubResult), one failing call is one error in the summary, no block ends recorded as synced with a hash that is not the hash of its data, and the follow-up fix -e / sync / check are validated against the specification; sync -h (errors in the pre-hash phase) and one-stripe arrays (every processed stripe fails) included. Reader-side faults hold; writer-side faults reproduce the two announced defects (F3, F4), reported as known findings by signature.",
    note="One injected fault per run; faults injected at the libc call.")

CHECKS["C09"] = dict(
    cat="fault_enumeration", design="6/C09",
    technique="ContentFormat.tla (normative encoder/strict decoder) and ContentSave.tla (tmp/fsync/verify/rename steps, Crash anywhere) checked by TLC; every bit flip and truncation of content files fed to the ASan build; kill points inside the save sequence with 1..4 copies, traces validated against ContentSaveTrace.tla",
    text="Every single-bit flip and every truncation of content files of all shapes (TLC-generated and tool-written, formats 2 and 3) must be rejected by status/diff/check/sync of the ASan+UBSan build without a sanitizer report and without changing any file; the save sequence is killed at every system call (format 2 and format 3 arrays, growing and shrinking content) and every copy must be a complete old, pre-sync or final image, the next command must bring all copies to the same bytes; every write to a temporary is also made to reach the file with one bit altered (the call succeeds): the re-read must stop the command before any rename (TmpWriteBad / Verify of ContentSave.tla); the recorded call sequence must be a behaviour of ContentSave.tla.",
    note="Memory safety is observed by ASan/UBSan (auxiliary observer outside the TLA+ argument); records appended after the N record are outside the property's statement (listed in the evidence).")
CHECKS["C10"] = dict(
    cat="translation_validation", design="6/C10",
    technique="ContentFormat.tla as normative encoder: TLC-generated states encoded by TLC are loaded/rewritten/listed by the tool (spec->code); every content file written by the tool in seeded histories is decoded independently and re-encoded by the transliteration of the spec that is checked against TLC each run (code->spec)",
    text="Two encoders of the same format (the TLA+ one and the tool's) are compared byte for byte in both directions over TLC-generated states (every record kind, run shapes, boundary values) and over the states the tool reaches in random histories; test-rewrite must reproduce files; every content copy must load to the same state (list, status -G, the layout rebuilt by -C); check and fix under --force-nocopy load the saved state (directed history on provisional hashes, validated against ArrayTrace.tla); after a successful sync the saved state names exactly the files, links and empty directories on the disks (also for a disk holding nothing but empty directories or links).",
    note="Fields refreshed on rewrite (free/total block counts, parity paths in Q records) are compared modulo exactly those; hash sizes other than 2/4/8/16 exist only in the model.")
CHECKS["C14"] = dict(
    cat="model_checking", design="6/C14",
    technique="Lock.tla (flock on a path fixed by the configuration: mutual exclusion over all interleavings of commands, saves and lost content copies) checked by TLC; guards of Sync in Array.tla (empty/rewritten disk, zero-size file, short parity) validated by TLC on traces of real refused and overridden syncs; configuration guards and the lock as Refused steps of ArrayTrace.tla with digests before/after; second command started while the first is SIGSTOPped by the shim",
    text="Each history applies every trigger on some disk/level with or without other pending changes, alone and with the overrides of the OTHER interlocks; TLC checks that the specification's Sync refuses exactly when the binary does, that a refusal changes neither content nor parity (missing = empty parity file), and that the override lets the same sync proceed; the lock is exercised by stopping a running command at a random system call (also a sync started while the first content copy is lost) and starting every other command, and by a second flow in which a command that has ended (stopped just before it would unlink the lock file, if it did) overlaps a running lock holder. What the property demands (r.must of SyncResult) is evaluated separately from what the code does, so that an interlock the code does not apply is a violation: arrays with format-3 content exhibit finding F12 (lost parity not refused), reported by signature.",
    note="Abstractions of Array.tla; the lock is observed at process level (flock), start offsets sampled.")

CHECKS["C19"] = dict(
    cat="model_checking", design="6/C19",
    technique="copy detection, provisional (REP) hashes, pre-hash, --force-nocopy, search and import fetch modelled in Array.tla; real histories with decoys (same name/size/stamp, other content) validated by TLC against it; invariant on real states: no block recorded as synced with a hash that is not the hash of its data",
    text="TLC validates every sync and fix of seeded histories with true copies and decoys on other disks and in import directories, moves, zero and non-zero sub-second stamps, -h and --force-nocopy against the specification (admissible copy sources, REP blocks verified before they become BLK, pre-hash mismatch stops before any parity write, fetched blocks only by matching hash) and evaluates the C19 invariant and FixHonest on the real states.",
    note="Inode-based identity (same inode, size, stamp) is exercised with --test-fake-uuid (profile 'inodes'); it exhibits finding F13 (same path, size and stamp with another inode is taken as restored, unread), reported by signature; disks scanned sequentially in the conformance runs (parallel scan race = finding F11).")

CHECKS["C11"] = dict(
    cat="model_checking", design="6/C11",
    technique="scan and sync of Array.tla validated by TLC on traces over the full alphabet of file-system changes; invariants C11_AfterSync / C11_Diff / C11_List evaluated by TLC on the real states (files, symbolic and hard links, empty directories)",
    text="TLC validates every sync of histories over the whole alphabet of changes against the specification and evaluates on the projected real state that a successful full sync leaves no difference (files, links, empty directories, unsynced blocks), that diff exits 2 exactly when something differs, that list prints exactly the recorded entries and that synced blocks carry the hash of the data on disk.",
    note="The sandbox has no UUIDs: scans that trust inode numbers are exercised with --test-fake-uuid (profile 'inodes': moves, exchanged names, twins, new inodes, changed UUIDs; InoClaims / InoRename of Array.tla); forced alphabetical order and sequential disk scan.")
CHECKS["C15"] = dict(
    cat="model_checking", design="6/C15",
    technique="ScrubPlan.tla: declarative selection vs transcription of scrub.c checked by TLC for all small info arrays and arguments; liveness of repeated default scrubs under fairness; real scrubs with a controlled clock validated against ScrubPlanTrace.tla (selection from parity reads, limits, books)",
    text="TLC checks the transcription of the plan selection against the declarative statement and eventual coverage under fairness; every real scrub step (controlled time distributions, ties, corruption, unsynced files, scrub -> fix -e -> scrub -p bad) must select exactly what the specification allows and keep the books as Array!ScrubResult says; the rehash command must leave the books (time, bad mark, never-scrubbed flag) as they were.",
    note="Liveness holds under 'errors get repaired' (a never-repaired bad stripe can starve a quota of one stripe); share = ceil(pct*blockmax/100).")
CHECKS["C17"] = dict(
    cat="model_checking", design="6/C17",
    technique="SplitMap.tla (Lookup, Chsize transcribed from parity.c) checked by TLC over all grow/shrink/lose/fix sequences; twin arrays (split vs single file) compared byte for byte; every real resize validated by TLC against Chsize",
    text="TLC explores all sequences of growth, shrinkage, loss and fix over 1..4 splits with the bijection / no-straddle / only-last-grows invariants; real split arrays (1..8 files per level) are compared with single-file twins after every step and each resize is a step of the specification (also: several unused trailing files dropped at once, a lost fixed file whose disk has less room than its recorded size - fix must stop).",
    note="Constant per-split limits (a limit is the disk capacity); with varying limits TLC and the binary exhibit F8; F9 recorded.")
CHECKS["C20"] = dict(
    cat="model_checking", design="6/C20",
    technique="Reports.tla: list/dup/status/pool as functions of the recorded state, sanity-checked by TLC; decoded real outputs (log tags and terminal form, nasty name alphabet) validated by TLC against ReportsTrace.tla; ReportsEsc.tla models the two escapings with their inverses",
    text="For every recorded state reached in random histories the decoded outputs of list, dup, status and pool must equal the specification's functions in both directions, names over an alphabet with spaces, newlines, colons, backslashes, glob characters and non-UTF-8 bytes must survive both escapings, and the commands must change nothing but the pool directory.",
    note="Status figures that depend on the file system (free/total blocks) are left out; msg: free-text lines are not part of the tag grammar.")

ARRAY_NOTE = ("Abstractions of Array.tla: hash injective on the block values used, parity as encoded vector (MDS, discharged by C03), "
              "one content copy observed for the state (copy equality checked separately), scenarios without usable inodes; "
              "random 1 KiB blocks make collisions negligible.")
for pid, cat, tech, text in [
    ("C06", "model_checking", "ArrayMC.tla explored by TLC with ParityValid/MapSane evaluated after every command; the same invariants evaluated by TLC on projected states of real runs (ArrayTrace.tla)",
     "TLC explores all histories of edits, complete/killed/partially skipped syncs and fix within the small bounds and checks the invariants in every state; the whole command set (rehash, scrub, sync -R, filtered fixes) is simulated on ArrayMC_ext; traces of the real binary over seeded random histories (ranges, copies, -F, -R, pre-hash, killed syncs, rehash, filtered fix, touch) are validated step by step against the same specification and the invariants are evaluated on every real state (independent content decoder and parity recomputation)."),
    ("C05", "model_checking", "ArrayMC.tla: FixHonest as action property, TLC exhaustive + simulation; trace validation of real fix runs with the version store as oracle; announced counterexamples replayed on the binary",
     "TLC checks on the model that fix never leaves a wrong block unreported, for all bounded histories including interrupted syncs; real fix runs (whole, -S/-B ranges, under -d / -f / -m / -e / -b, with import directories) are validated against the specification and against the version store; files outside the selection must stay untouched. The histories TLC finds for every branch of the repair logic (spec/witness/fixgoals.json, 27 histories) are executed on the binary, which must go through the branch each was found for. The two announced defects (F1, F2) are found by TLC on the model, confirmed by replay, and reported as known findings, as is F7 (reduced hash sizes); anything else fails the check."),
    ("C01", "model_checking", "ArrayMC.tla: FixRestores for every damage within the parity count; trace validation + version-store comparison of real damage/fix/check rounds over configurations",
     "TLC enumerates clean-synced states x damage patterns within NP per stripe and checks that fix restores everything; real arrays (1..6 parities incl. z-parity, several disk counts, both hash functions, reduced hash sizes, split parity, a hash migration in progress, symbolic and hard links, empty directories) are damaged within bounds (devices lost, files deleted, silent corruption, parity lost or corrupted, names of same-size files exchanged), fixed and compared byte for byte and time stamp for time stamp with the version store, links and directories included, then checked."),
    ("C04", "model_checking", "detection sets of check/scrub compared (both directions) with the ground-truth damage computed in TLA+ on the projected real state; TLC model of check/scrub validated by traces",
     "For every real check/scrub on a synced array the reported data/parity errors, marks and exit class are compared by TLC with the damage computed from the projected state; the model of check/scrub in Array.tla is validated on the same traces."),
    ("C12", "model_checking", "frame conditions of every command checked by TLC on byte-level digests recorded before/after each real command, plus the shim's system-call trace against the command's write set",
     "Each command action of the specification carries its frame; TLC checks it on every step of every recorded trace using digests of data trees (bytes, names, ns mtimes), parity streams, content copies and the list of other artefacts. Two frame conditions outside the projected state are checked directly on real arrays: nothing is written through a symbolic link that stands where a recorded file was (target outside or inside the array), and the last name of a hard-linked file survives a fix that selects only the link."),
]:
    CHECKS[pid] = dict(cat=cat, design="6/" + pid, technique=tech, text=text, note=ARRAY_NOTE)

NOT_YET = {
    "C07": "crash-point enumeration (ArraySteps) under construction",
    "C08": "fault enumeration under construction",
    "C09": "content damage sweep under construction",
    "C10": "ContentFormat.tla under construction",
    "C11": "scan alphabet (inodes, links, dirs) under construction",
    "C13": "IoRing.tla / H1 hook being integrated",
    "C14": "interlock scenarios under construction",
    "C15": "ScrubPlan.tla under construction",
    "C16": "golden arrays under construction",
    "C17": "SplitMap.tla under construction",
    "C19": "copy/import scenarios under construction",
    "C20": "report functions under construction",
}


def main():
    ids = [json.loads(l)["id"] for l in open(os.path.join(HERE, "properties.jsonl"))]
    present = [i for i in ids if i in CHECKS and os.path.exists(os.path.join(HERE, "harness", "py", "props", i + ".py"))]
    hooks = []
    hf = os.path.join(HERE, "hooks", "commits.txt")
    if os.path.exists(hf):
        hooks = [l.split()[0] for l in open(hf) if l.strip()]
    m = {
        "version": 1,
        "setup_cmd": "./verif setup",
        "hooks": {"guard": "SNAPRAID_VERIF",
                  "enable": "harness/build.sh hooks compiles /repo's working tree with -DSNAPRAID_VERIF into /verif/build/hooks (no autotools run, /repo is not written)",
                  "baseline_off_cmd": "cd /repo && make check",
                  "source_commits": hooks, "add_only": True},
        "engines": [
            {"name": "tlc-array", "path": "spec/Array.tla spec/ArrayMC.tla spec/ArrayTrace.tla", "serves_properties": [p for p in ["C01", "C04", "C05", "C06", "C07", "C08", "C11", "C12", "C14", "C19"] if p in present],
             "kind_free_text": "TLA+ specification of the array state machine, TLC exhaustive/simulation, trace validation of real runs"},
            {"name": "tlc-pure", "path": "spec/GF256.tla spec/RaidCode.tla spec/Filter.tla", "serves_properties": [p for p in ["C02", "C03", "C09", "C10", "C15", "C17", "C18", "C20"] if p in present],
             "kind_free_text": "TLA+ definitions of pure functions, TLC-enumerated case tables replayed into C harnesses linked with the rebuilt objects"},
        ],
        "checks": [],
        "notes": "Entry point ./verif; see DESIGN.md. Known findings in known-findings.txt.",
        "not_applicable": [],
    }
    for i in ids:
        if i in present:
            c = CHECKS[i]
            m["checks"].append({
                "property_id": i,
                "quick_cmd": "./verif check %s quick" % i,
                "thorough_cmd": "./verif check %s thorough" % i,
                "evidence_file": "/verif/evidence/%s.json" % i,
                "replay_cmd_template": "./verif replay {path}",
                "engine": "tlc-array" if i in ("C01", "C04", "C05", "C06", "C07", "C08", "C11", "C12", "C14", "C19") else ("tlc-ioring" if i == "C13" else ("golden" if i == "C16" else "tlc-pure")),
                "level_claimed": {"category": c["cat"], "text": c["text"], "design_ref": "DESIGN.md section " + c["design"]},
                "level_note": c["note"],
                "technique": c["technique"],
            })
        else:
            m["not_applicable"].append({"property_id": i, "reason": "not claimed yet: " + NOT_YET.get(i, CHECKS.get(i, {}).get("technique", "under construction"))})
    with open(os.path.join(HERE, "MANIFEST.json"), "w") as f:
        json.dump(m, f, indent=1)
    print("claimed:", " ".join(present))


if __name__ == "__main__":
    main()
