"""Spec -> code replay (DESIGN.md 5 (A)): TLC searches, on ArrayMC.tla, a shortest history for every coverage goal of
the repair logic (one goal per branch of CheckStripe/RepairStep) within each history template; the histories are
stored in spec/witness/fixgoals.json and replayed on the real binary by replay()."""
import json, os, re, subprocess, sys, tempfile
from concurrent.futures import ThreadPoolExecutor
import vlib, arr, recorder, arrayprop

GOALS = ["clean", "fetched", "s1-hash", "s1-spare", "s1-chg-lost-hash", "s1-chg-maybe-old-zero", "s1-chg-maybe-old-data",
         "s1-chg-accepted-new", "s1-fail-mismatch", "s1-fail-nostrategy", "s1-fail-toomany", "s2-skipped", "s2-hash", "s2-spare",
         "s2-zeroed-bad-chg", "s2-old-state-not-written", "s2-fail-mismatch", "s2-fail-nostrategy", "s2-fail-toomany"]
TEMPLATES = ["H1", "H2", "H3", "H4", "H5", "H6", "H7", "H8", "H9", "F1s", "F2"]
WITNESS = os.path.join(vlib.SPEC, "witness", "fixgoals.json")


def search(template, np_, goal, timeout=300):
    cfg = arrayprop.write_mc_cfg("wit-%s-%d-%s" % (template, np_, goal), 10, stamp=6, invariant="NoGoal", script=template,
                                 goal=goal, np_=np_)
    out = os.path.join(vlib.OUT, "md", "wit-%s-%d-%s.json" % (template, np_, goal))
    if os.path.exists(out):
        os.remove(out)
    res = vlib.run_tlc("ArrayMC", cfg=cfg, workers=2, timeout=timeout, extra=["-dumpTrace", "json", out],
                       tag="wit-%s-%d-%s" % (template, np_, goal), xmx="3g")
    if res.violated and os.path.exists(out):
        ce = json.load(open(out))["counterexample"]
        states = [s[1] for s in ce["state"]]
        acts = [{"name": a[1]["name"], "ctx": a[1].get("context", {})} for a in ce["action"]]
        os.remove(out)
        return {"template": template, "np": np_, "goal": goal, "states": [{"fs": s["fs"], "last": s["last"]} for s in states],
                "actions": acts, "cov": states[-1]["cov"], "pviol": states[-1]["pviol"]}
    if res.error:
        raise vlib.ToolFailure("witness search %s/%s/%s: %s" % (template, np_, goal, res.error))
    return None


def _search_retry(t, n, g):
    for attempt in (1, 2, 3):
        try:
            return search(t, n, g)
        except vlib.ToolFailure:
            if attempt == 3:
                raise
            import time
            time.sleep(20)       # e.g. the specification was being edited


def generate(path=WITNESS, procs=6, per_goal=2):
    """greedy and resumable: a witness found for one goal usually covers several (its cov set); goals already covered
    for a parity count are not searched again; the file is rewritten after every goal"""
    found = load(path)
    done = set(found.get("_done", []))
    covered = {1: {}, 2: {}}
    for k, ws in found.items():
        if k == "_done":
            continue
        for w in ws:
            for c in w["cov"]:
                covered[w["np"]][c] = covered[w["np"]].get(c, 0) + 1
    os.makedirs(os.path.dirname(path), exist_ok=True)
    with ThreadPoolExecutor(procs) as ex:
        for n in (1, 2):
            for g in GOALS:
                key = "%s/np%d" % (g, n)
                if key in done or covered[n].get(g, 0) >= per_goal:
                    continue
                ws = [w for w in ex.map(lambda t: _search_retry(t, n, g), TEMPLATES) if w]
                ws.sort(key=lambda w: len(w["actions"]))
                for w in ws[:per_goal]:
                    found.setdefault(key, []).append(w)
                    for c in w["cov"]:
                        covered[n][c] = covered[n].get(c, 0) + 1
                done.add(key)
                found["_done"] = sorted(done)
                with open(path + ".tmp", "w") as f:
                    json.dump(found, f, indent=0, sort_keys=True)
                os.replace(path + ".tmp", path)
                print("np=%d goal=%s: %d templates reach it" % (n, g, len(ws)), flush=True)
    return found


def _val(s):
    if s.startswith("v"):
        return int(s[1:])
    if s.startswith("s"):
        return ('s', int(s[1:]))
    raise ValueError(s)


def replay(w, seed):
    """execute the model history on a real array; returns (recorder, description)"""
    a = arr.Array(arr.Conf(nd=2, np=w["np"], copies=2), seed=seed)
    rec = recorder.Recorder(a)
    desc = ["witness %s np=%d goal=%s" % (w["template"], w["np"], w["goal"])]
    flags = ("-E", "-Z", "--force-nocopy")
    try:
        for k in range(1, len(w["states"])):
            cur, prev = w["states"][k], w["states"][k - 1]
            name = cur["last"]
            act = w["actions"][k - 1] if k - 1 < len(w["actions"]) else {"name": name, "ctx": {}}
            ctx = act.get("ctx", {})
            a.clock += 16
            if name in ("Write", "Restore"):
                d, n = ctx["d"], ctx["n"]
                f = cur["fs"][d][n]
                a.write_file(int(d), n, [_val(x) for x in f["b"]], mtime=f["mt"][0])
                rec.env("%s %s/%s %s" % (name.lower(), d, n, f["b"]))
            elif name in ("Delete", "LoseFile"):
                a.remove(int(ctx["d"]), ctx["n"])
                rec.env("%s %s/%s" % (name, ctx["d"], ctx["n"]), damage=(name == "LoseFile"))
            elif name == "CorruptBlock":
                a.corrupt_block(int(ctx["d"]), ctx["n"], ctx["i"] - 1, "whole")
                rec.env("corrupt %s/%s[%d]" % (ctx["d"], ctx["n"], ctx["i"]), damage=True)
            elif name == "CorruptParity":
                a.corrupt_parity(ctx["l"] - 1, ctx["q"] - 1, "whole")
                rec.env("corrupt parity %d@%d" % (ctx["l"], ctx["q"] - 1), damage=True)
            elif name == "LoseParity":
                a.lose_parity(ctx["l"] - 1)
                rec.env("lose parity %d" % ctx["l"], damage=True)
            elif name == "Sync":
                rec.sync(*flags)
            elif name == "SyncKillAfterParity":
                rec.sync(*flags, "--test-kill-after-sync")
            elif name == "SyncKillAfterPresave":
                rec.sync_killed(["rename,c1/content,1,killa"], *flags)
            elif name == "SyncMid":
                p = a.path(int(ctx["d"]), ctx["n"])
                aside = os.path.join(a.root, "aside")
                rec.sync(*flags, midrun="mv '%s' '%s'" % (p, aside))
                os.rename(aside, p)
                rec.env("%s/%s readable again" % (ctx["d"], ctx["n"]))
            elif name == "Fix":
                rec.fix()
                if k == len(w["states"]) - 1:
                    rec.lines[-1]["args"]["goal"] = w["goal"]
            else:
                raise vlib.ToolFailure("unknown model action " + name)
            desc.append(name + (" " + json.dumps(ctx) if ctx else ""))
        rec.check()
        return rec, desc
    finally:
        a.destroy()


def all_witnesses(path=WITNESS):
    f = load(path)
    out = []
    for k in sorted(f):
        if k != "_done":
            out += f[k]
    return out


def replay_index(i, seed):
    """module-level entry for the scenario pool: the i-th stored witness"""
    return replay(all_witnesses()[i], seed)


def load(path=WITNESS):
    return json.load(open(path)) if os.path.exists(path) else {}


if __name__ == "__main__":
    os.makedirs(os.path.join(vlib.OUT, "md"), exist_ok=True)
    f = generate(procs=int(os.environ.get("WPROCS", "6")))
    for k in sorted(f):
        if k != "_done":
            print(k, [w["template"] for w in f[k]])
    print(len(f) - 1, "goal/np combinations with witnesses;", sum(len(v) for k, v in f.items() if k != "_done"), "histories")
