"""Directed histories: the counterexamples TLC finds on ArrayMC.tla (and the property text announces), replayed on
the real binary.  Each returns (recorder, description)."""
import arr, recorder


def _base(seed, np_=2):
    a = arr.Array(arr.Conf(nd=2, np=np_, copies=2), seed=seed)
    return a, None


def f1_pasthash_overwritten(seed):
    """sync.c:1015-1017 stores the hash of the new data in a CHG block even when the stripe is skipped"""
    a = arr.Array(arr.Conf(nd=2, np=2, copies=2), seed=seed)
    a.write_file(0, "A", [1], mtime=11); a.write_file(0, "K", [2], mtime=12)
    a.write_file(1, "C", [3], mtime=13); a.write_file(1, "L", [4], mtime=14)
    rec = recorder.Recorder(a)
    d = ["init A K / C L"]
    rec.sync(); d.append("sync")
    a.remove(0, "A"); a.write_file(0, "B", [5], mtime=15); rec.env("rm A, add B (takes A's position)"); d.append("rm A add B")
    rec.sync(midrun="rm -f '%s'" % a.path(1, "C")); d.append("sync with C vanishing after the scan (stripe 0 skipped)")
    a.write_file(1, "C", [3], mtime=13); rec.env("C restored from backup with its time stamp"); d.append("restore C")
    a.remove(0, "B"); rec.env("B lost", damage=True); d.append("lose B")
    rec.fix(); d.append("fix")
    a.destroy()
    return rec, d


def f2_pasthash_length(seed):
    """check.c:439-452 compares the rebuilt block with the past hash over the new block's length"""
    a = arr.Array(arr.Conf(nd=2, np=2, copies=2), seed=seed)
    a.write_file(0, "A", [('s', 1)], mtime=11); a.write_file(0, "K", [2], mtime=12)
    a.write_file(1, "C", [3], mtime=13); a.write_file(1, "L", [4], mtime=14)
    rec = recorder.Recorder(a)
    d = ["init A(short) K / C L"]
    rec.sync(); d.append("sync")
    a.remove(0, "A"); a.write_file(0, "B", [5], mtime=15); rec.env("rm A, add B (full block on A's position)"); d.append("rm A add B")
    rec.sync_killed(["rename,c1/content,1,killa"]); d.append("sync killed right after the pre-sync content save")
    a.remove(0, "B"); rec.env("B lost", damage=True); d.append("lose B")
    rec.fix(); d.append("fix")
    a.destroy()
    return rec, d


def f5_autosave_not_drained(seed):
    """sync.c:1302-1340 saves the content (stripes declared BLK) while their parity writes are still queued"""
    a = arr.Array(arr.Conf(nd=2, np=2, copies=2), seed=seed)
    a.write_file(0, "K", [1], mtime=11); a.write_file(1, "L", [2], mtime=12)
    rec = recorder.Recorder(a)
    d = ["init K / L"]
    rec.sync(); d.append("sync")
    a.write_file(0, "N", [3, 4, 5, 6, 7], mtime=13); rec.env("add N (5 new stripes)"); d.append("add N")
    # autosave forced after stripe 2, parity writes delayed, process killed right after the autosave's last rename
    rec.sync_killed(["pwrite,/p,0,delay,300", "rename,c1/content,2,killa"], "--test-io-cache", "3",
                    "--test-force-autosave-at", "2", autosave_at=2)
    d.append("sync --test-io-cache 3 --test-force-autosave-at 2, parity writes delayed, killed after the autosave")
    a.clock += 10
    r, out = rec.sync(); d.append("resume sync -> %s" % out["exit"])
    r, out = rec.check(); d.append("check -> %s" % out["exit"])
    a.destroy()
    return rec, d


def fix_frames(seed):
    """the frame of fix under ranges and filters (C12, C05): what fix may create, write, rename or remove when it re-creates
    a missing file and then meets files it does not finish (range ends inside them), files it must leave alone (-e on a file
    that is not the recorded version), files that are not selected (-f, -d, -m)"""
    import random
    rng = random.Random(seed)
    a = arr.Array(arr.Conf(nd=2, np=2, copies=2), seed=seed)
    n1, n2 = rng.choice([(3, 3), (2, 4), (1, 3)])
    a.write_file(0, "A", list(range(1, 1 + n1)), mtime=11)
    a.write_file(0, "B", list(range(10, 10 + n2)), mtime=12)
    a.write_file(0, "K", [20, ('s', 21)], mtime=13)
    a.write_file(1, "C", [30, 31], mtime=14)
    a.write_file(1, "sub/F", [40, 41, 42], mtime=15)
    rec = recorder.Recorder(a)
    d = ["init A B K / C sub/F"]
    rec.sync(); d.append("sync")
    snap = a.clone()
    try:
        def again():
            # back to the synced tree
            for dd in range(2):
                a.lose_disk(dd)
            import shutil, os
            for dd in range(2):
                shutil.rmtree(a.ddir(dd)); shutil.copytree(snap.ddir(dd), a.ddir(dd), symlinks=True)
            rec.env("data disks put back to the synced tree"); d.append("reset data")
        # 1. a missing file is re-created, the range ends inside the next file of the disk
        a.remove(0, "A"); rec.env("lose A", damage=True)
        r, o = rec.fix("-S", "0", "-B", str(n1 + 1)); d.append("lose A; fix -S 0 -B %d -> %s" % (n1 + 1, o["exit"]))
        r, o = rec.fix(); d.append("fix -> %s" % o["exit"])
        again()
        # 2. the range stops inside the missing file itself
        a.remove(0, "B"); rec.env("lose B", damage=True)
        r, o = rec.fix("-S", "0", "-B", str(n1 + 1)); d.append("lose B; fix -S 0 -B %d -> %s" % (n1 + 1, o["exit"]))
        r, o = rec.fix(); d.append("fix -> %s" % o["exit"])
        again()
        # 3. silent error found by scrub, the user deletes the damaged file, fix -e / -b
        a.corrupt_block(0, "B", 0, "flip"); rec.env("corrupt B[0]", damage=True)
        r, o = rec.scrub("full"); d.append("corrupt B[0]; scrub -> %s" % o["exit"])
        a.remove(0, "B"); rec.env("delete B", damage=True)
        a.remove(0, "A"); rec.env("delete A", damage=True)
        r, o = rec.fix(filt={"bad": "block"}); d.append("delete A B; fix -b -> %s" % o["exit"])
        r, o = rec.fix(filt={"bad": "file"}); d.append("fix -e -> %s" % o["exit"])
        r, o = rec.fix(filt={"missing": True}); d.append("fix -m -> %s" % o["exit"])
        r, o = rec.fix(); d.append("fix -> %s" % o["exit"])
        r, o = rec.scrub("bad"); d.append("scrub -p bad -> %s" % o["exit"])
        again()
        # 4. -e with a file that was rewritten since the sync (not the recorded version) and has a block marked bad
        a.corrupt_block(1, "C", 1, "byte"); rec.env("corrupt C[1]", damage=True)
        r, o = rec.scrub("full"); d.append("corrupt C[1]; scrub -> %s" % o["exit"])
        a.write_file(1, "C", [50, 51], mtime=30); rec.env("rewrite C")
        a.remove(1, "sub/F"); rec.env("lose sub/F", damage=True)
        r, o = rec.fix(filt={"bad": "file"}); d.append("rewrite C, lose sub/F; fix -e -> %s" % o["exit"])
        r, o = rec.fix(filt={"names": ["F"]}); d.append("fix -f F -> %s" % o["exit"])
        again()
        # 5. -d and -f leave the other disk / the other files alone, parity included
        a.remove(0, "K"); a.remove(1, "C"); rec.env("lose K and C", damage=True)
        a.corrupt_parity(0, 0, "flip"); rec.env("corrupt parity 0@0", damage=True)
        r, o = rec.fix(filt={"disks": [1]}); d.append("lose K C, parity damage; fix -d d2 -> %s" % o["exit"])
        r, o = rec.fix(filt={"names": ["K"]}); d.append("fix -f K -> %s" % o["exit"])
        r, o = rec.fix(filt={"disks": [], "plevels": [1]}); d.append("fix -d parity -> %s" % o["exit"])
        r, o = rec.check(); d.append("check -> %s" % o["exit"])
        again()
        # 6. whole-path patterns with wildcards: * does not cross a slash (/* names the files at the top of a disk only)
        a.remove(1, "C"); a.remove(1, "sub/F"); a.corrupt_block(0, "B", 0, "flip"); rec.env("lose C and sub/F, corrupt B[0]", damage=True)
        r, o = rec.fix(filt={"names": ["/*"]}); d.append("lose C, sub/F, corrupt B; fix -f '/*' -> %s" % o["exit"])
        r, o = rec.fix(filt={"names": ["/s*/F"]}); d.append("fix -f '/s*/F' -> %s" % o["exit"])
        r, o = rec.check(filt={"names": ["/*"]}); d.append("check -f '/*' -> %s" % o["exit"])
        again()
        # 7. a file that came back as a copy of itself (same bytes, size and time stamp, another inode) rots silently: scrub finds it,
        #    fix -e repairs it (the file IS the recorded version: size and time stamp are what counts, not the inode number)
        import os as _os
        pb = a.path(0, "B"); stb = _os.lstat(pb)
        data = open(pb, "rb").read()
        with open(pb + ".new", "wb") as fh:
            fh.write(data)
        _os.utime(pb + ".new", ns=(stb.st_mtime_ns, stb.st_mtime_ns)); _os.replace(pb + ".new", pb)
        rec.env("B replaced by a copy of itself (new inode)")
        a.corrupt_block(0, "B", 1 if n2 > 1 else 0, "flip"); rec.env("corrupt B", damage=True)
        r, o = rec.scrub("full"); d.append("B re-created as a copy of itself, then corrupted; scrub -> %s" % o["exit"])
        r, o = rec.fix(filt={"bad": "file"}); d.append("fix -e -> %s" % o["exit"])
        r, o = rec.check(); d.append("check -> %s" % o["exit"])
    finally:
        snap.destroy()
        a.destroy()
    return rec, d


def fix_links(seed):
    """C01 for links and directories: recorded symbolic links, hard links and empty directories are restored by fix whatever
    happened to them (lost, replaced by something else, hard link separated from its target because the target was re-created)"""
    import os, random
    rng = random.Random(seed)
    a = arr.Array(arr.Conf(nd=2, np=1, copies=2), seed=seed)
    a.write_file(0, "A", [1, 2], mtime=11)
    a.write_file(0, "B", [3], mtime=12)
    a.write_file(1, "C", [4, 5, 6], mtime=13)
    os.link(a.path(0, "A"), a.path(0, "H1"))              # H1 sorts after A: A is the file, H1 the hard link
    os.symlink("A", a.path(0, "L1"))
    os.symlink("missing target", a.path(1, "L2"))
    os.makedirs(a.path(0, "E1")); os.makedirs(a.path(1, "sub/E2"))
    rec = recorder.Recorder(a)
    d = ["init A B H1=A L1->A E1 / C L2 sub/E2"]
    r, o = rec.sync(); d.append("sync -> %s" % o["exit"])

    def fix_check(what):
        a.clock += 10
        r, o = rec.fix(); rec.lines[-1]["args"]["expect_c01"] = True; d.append("%s; fix -> %s" % (what, o["exit"]))
        r, o = rec.check(); d.append("check -> %s" % o["exit"])

    # the target of the hard link is lost: fix re-creates it with a new inode, the link name still is a separate file
    os.remove(a.path(0, "A")); rec.env("lose A (H1 keeps the old inode)", damage=True)
    fix_check("lose A")
    # the link name is lost
    os.remove(a.path(0, "H1")); rec.env("lose H1", damage=True)
    fix_check("lose H1")
    # links lost / retargeted, directories lost
    os.remove(a.path(0, "L1")); os.symlink("B", a.path(0, "L1")); os.remove(a.path(1, "L2"))
    os.rmdir(a.path(0, "E1")); os.rmdir(a.path(1, "sub/E2"))
    rec.env("retarget L1, lose L2, lose the empty directories", damage=True)
    fix_check("links and directories damaged")
    # a whole disk is lost
    a.lose_disk(0); rec.env("lose disk 0", damage=True)
    fix_check("lose disk 0")
    a.destroy()
    return rec, d


def link_kinds(seed):
    """C11: a link that changes its kind but not its name and target string (symbolic link <-> hard link), links that change
    target, links and directories that appear and disappear: diff reports each, sync records each, list shows the new state"""
    import os
    a = arr.Array(arr.Conf(nd=2, np=1, copies=2), seed=seed)
    a.write_file(0, "A", [1, 2], mtime=11)
    a.write_file(1, "C", [3], mtime=12)
    os.symlink("A", a.path(0, "L1"))
    rec = recorder.Recorder(a)
    d = ["init A L1->A / C"]
    r, o = rec.sync(); d.append("sync -> %s" % o["exit"])

    def round_(what):
        rec.env(what); d.append(what)
        r, o = rec.diff(); d.append("diff -> %s" % o["exit"])
        a.clock += 10
        r, o = rec.sync(); d.append("sync -> %s" % o["exit"])
        r, o = rec.diff(); d.append("diff -> %s" % o["exit"])
        r, o = rec.list(); d.append("list -> rc %s" % o["rc"])
        r, o = rec.check(); d.append("check -> %s" % o["exit"])

    os.remove(a.path(0, "L1")); os.link(a.path(0, "A"), a.path(0, "L1"))
    round_("L1 becomes a hard link of A (same name, same target string)")
    os.remove(a.path(0, "L1")); os.symlink("A", a.path(0, "L1"))
    round_("L1 becomes a symbolic link to A again")
    os.remove(a.path(0, "L1")); os.symlink("C", a.path(0, "L1"))
    round_("L1 retargeted")
    os.makedirs(a.path(1, "E1"))
    round_("empty directory E1 appears")
    a.write_file(1, "E1/X", [4], mtime=20)
    round_("E1 is no longer empty")
    os.remove(a.path(0, "L1"))
    round_("L1 removed")
    a.destroy()
    return rec, d


def restore_after_killed_sync(seed):
    """C11 / C06: a deletion is synced into the parity but the sync dies before the final save; the same data then comes back at
    the same positions (restore from backup, or a new file with the same bytes): the next sync must not trust the hashes of the
    deleted blocks that the pre-save recorded, and after it check must be clean"""
    import random
    rng = random.Random(seed)
    a = arr.Array(arr.Conf(nd=2, np=rng.choice([1, 2]) if False else 1, copies=2), seed=seed)
    a.write_file(0, "A", [1, 2], mtime=11)
    a.write_file(0, "K", [3], mtime=12)
    a.write_file(1, "C", [4, 5, 6], mtime=13)
    rec = recorder.Recorder(a)
    d = ["init A K / C"]
    r, o = rec.sync(); d.append("sync -> %s" % o["exit"])
    a.remove(0, "A"); rec.env("delete A"); d.append("delete A")
    a.clock += 10
    r, o = rec.sync("--test-kill-after-sync"); d.append("sync killed after the parity update -> %s" % o["exit"])
    if rng.random() < 0.5:
        a.write_file(0, "A", [1, 2], mtime=11); rec.env("A restored with its bytes and stamp"); d.append("restore A")
    else:
        a.write_file(0, "B", [1, 2], mtime=20); rec.env("B written with the bytes A had"); d.append("write B = bytes of A")
    r, o = rec.diff(); d.append("diff -> %s" % o["exit"])
    a.clock += 10
    r, o = rec.sync(); d.append("sync -> %s" % o["exit"])
    r, o = rec.diff(); d.append("diff -> %s" % o["exit"])
    r, o = rec.check(); d.append("check -> %s" % o["exit"])
    a.destroy()
    return rec, d


def decoy_prehash(seed):
    """C19: a decoy (same name, size and time stamp as a synced file of another disk, other content) is taken as a copy by the
    scan; the sync that reads it reports the mismatch and leaves its blocks provisional (REP) in the content file; new files are
    added; sync -h must stop in the pre-hash phase without touching the parity; --force-nocopy then syncs everything"""
    import os
    a = arr.Array(arr.Conf(nd=2, np=1, copies=2), seed=seed)
    a.write_file(0, "A", [1, 2], mtime=11)
    a.write_file(0, "K", [3], mtime=12)
    a.write_file(1, "C", [4], mtime=13)
    rec = recorder.Recorder(a)
    d = ["init A K / C"]
    r, o = rec.sync(); d.append("sync -> %s" % o["exit"])
    st = os.lstat(a.path(0, "A"))
    a.write_file(1, "A", [7, 8], mtime=11)
    os.utime(a.path(1, "A"), ns=(st.st_mtime_ns, st.st_mtime_ns))
    rec.env("decoy 1/A: name, size and stamp of 0/A, other content"); d.append("decoy 1/A")
    a.clock += 10
    r, o = rec.sync(); d.append("sync -> %s (the copy does not match)" % o["exit"])
    a.write_file(0, "N", [9, 10], mtime=30); a.write_file(1, "M", [11], mtime=31)
    rec.env("add N and M"); d.append("add N, M")
    a.clock += 10
    r, o = rec.sync("-h"); d.append("sync -h -> %s" % o["exit"])
    r, o = rec.sync("-h"); d.append("sync -h -> %s" % o["exit"])
    a.clock += 10
    r, o = rec.sync("--force-nocopy"); d.append("sync --force-nocopy -> %s" % o["exit"])
    r, o = rec.check(); d.append("check -> %s" % o["exit"])
    a.destroy()
    return rec, d


def import_past_content(seed):
    """C19 / C05: after a sync that was killed when the parity was written, a replaced file's blocks are recorded as changed with
    the hash of the PREVIOUS occupant of their positions; the new file is lost; an import directory offers a file with the size and
    stamp of the new file and the bytes of the old one (and the same by content): fix must rebuild the new bytes from the parity"""
    import os, random, tempfile, shutil
    rng = random.Random(seed)
    a = arr.Array(arr.Conf(nd=2, np=2, copies=2), seed=seed)
    a.write_file(0, "A", [1, 2], mtime=11)
    a.write_file(0, "K", [3], mtime=12)
    a.write_file(1, "C", [4, 5, 6], mtime=13)
    rec = recorder.Recorder(a)
    d = ["init A K / C"]
    r, o = rec.sync(); d.append("sync -> %s" % o["exit"])
    a.remove(0, "A"); a.write_file(0, "B", [7, 8], mtime=20)
    rec.env("A replaced by B (same size)"); d.append("replace A by B")
    a.clock += 10
    r, o = rec.sync("--test-kill-after-sync"); d.append("sync killed after the parity update -> %s" % o["exit"])
    a.remove(0, "B"); rec.env("lose B", damage=True); d.append("lose B")
    imp = tempfile.mkdtemp(prefix="imp-", dir=os.path.dirname(a.root))
    try:
        with open(os.path.join(imp, "decoy"), "wb") as f:
            f.write(a.file_bytes([1, 2]))
        t = (arr.BASE_TIME + 20) * 10**9
        os.utime(os.path.join(imp, "decoy"), ns=(t, t))
        kind = rng.choice(["imp_stamp", "imp_content"])
        r, o = rec.fix(**{kind: imp}); d.append("fix with %s = old bytes under the new stamp -> %s" % (kind, o["exit"]))
        r, o = rec.fix(**{("imp_content" if kind == "imp_stamp" else "imp_stamp"): imp}); d.append("fix with the other import -> %s" % o["exit"])
    finally:
        shutil.rmtree(imp, ignore_errors=True)
    a.clock += 10
    r, o = rec.sync(); d.append("sync -> %s" % o["exit"])
    r, o = rec.check(); d.append("check -> %s" % o["exit"])
    a.destroy()
    return rec, d


def s2_zeroed_bad_chg(seed):
    """C05, branch s2-zeroed-bad-chg of the repair logic (the goal TLC reaches on ArrayMC with template H1): a new file is recorded
    by a sync that does not reach its stripes, on positions its disk never used (hash field = ZERO marker); it is lost together
    with a synced file of another disk in the same stripes, more failures than parity levels: the second strategy (parity still
    holds the state before the sync) rebuilds the old file with the new one taken as zeros; the new file must be reported
    unrecoverable, never written as zeros and called recovered"""
    a = arr.Array(arr.Conf(nd=2, np=1, copies=2), seed=seed)
    a.write_file(0, "K", [1], mtime=11)
    a.write_file(1, "C", [2, 3, 4], mtime=12)
    rec = recorder.Recorder(a)
    d = ["init K / C"]
    r, o = rec.sync(); d.append("sync -> %s" % o["exit"])
    a.write_file(0, "N", [5, 6], mtime=20); rec.env("add N on positions disk 0 never used"); d.append("add N")
    a.clock += 10
    r, o = rec.sync("-S", "0", "-B", "1"); d.append("sync -S 0 -B 1 (N recorded, its stripes not reached) -> %s" % o["exit"])
    a.remove(0, "N"); a.remove(1, "C"); rec.env("lose N and C", damage=True); d.append("lose N and C")
    r, o = rec.fix(); d.append("fix -> %s" % o["exit"])
    r, o = rec.check(); d.append("check -> %s" % o["exit"])
    a.destroy()
    return rec, d


def touched_then_rotten(seed):
    """C04 with every depth of the I/O ring: a file whose time stamp changed since the sync (differences there are expected) is
    followed, on the same disk and on other disks, by synced files with silently rotted blocks: each of those is reported and
    its stripe marked, whatever the ring depth (the ring slots that served the touched file are used again for later stripes)"""
    import random
    rng = random.Random(seed)
    a = arr.Array(arr.Conf(nd=2, np=1, copies=2), seed=seed)
    a.write_file(0, "A", [1, 2, 3], mtime=11)
    a.write_file(0, "B", [4, 5, 6, 7], mtime=12)
    a.write_file(1, "C", [8, 9, 10, 11, 12, 13, 14], mtime=13)
    rec = recorder.Recorder(a)
    d = ["init A B / C"]
    r, o = rec.sync(); d.append("sync -> %s" % o["exit"])
    for cache in rng.sample([1, 3, 4, 8, 128], 3):
        a.set_mtime(0, "A", 40 + cache); rec.env("touch A"); d.append("touch A")
        i = rng.randrange(4); j = rng.randrange(0, 3)          # B[i] is at stripe 3+i, C[j] at stripe j (next to the touched A)
        a.corrupt_block(0, "B", i, "flip"); a.corrupt_block(1, "C", j, "byte")
        rec.env("corrupt B[%d] and C[%d]" % (i, j), damage=True); d.append("corrupt B[%d] C[%d]" % (i, j))
        a.clock += 10
        r, o = rec.scrub("full", "--test-io-cache", str(cache)); d.append("scrub --test-io-cache %d -> %s" % (cache, o["exit"]))
        r, o = rec.check("--test-io-cache", str(cache)); d.append("check -> %s" % o["exit"])
        r, o = rec.fix(filt={"bad": "file"}); d.append("fix -e -> %s" % o["exit"])
        r, o = rec.scrub("bad", "--test-io-cache", str(cache)); d.append("scrub -p bad -> %s" % o["exit"])
        a.clock += 10
        r, o = rec.sync("--test-io-cache", str(cache)); d.append("sync -> %s" % o["exit"])
    a.destroy()
    return rec, d


def rep_block_corruption_nocopy(seed):
    """C10: the same history with -N (--force-nocopy, an option that tells SYNC not to use copies) given to check and fix: they
    load the very state that was saved - the provisional hashes included - and find and repair the rotten block all the same"""
    return rep_block_corruption(seed, nocopy=("-N",))


def rep_block_corruption(seed, nocopy=()):
    """C05 / C19: a copy (cp -p to another disk) is recorded with provisional hashes (REP) by a sync that reaches only its first
    stripe; a block of the copy then rots silently: fix must notice it (the provisional hash is the hash of the original) and
    bring the right bytes back from the original"""
    import os, shutil
    a = arr.Array(arr.Conf(nd=2, np=1, copies=2), seed=seed)
    a.write_file(0, "A", [1, 2, 3], mtime=11)
    a.write_file(1, "K", [4], mtime=12)
    rec = recorder.Recorder(a)
    d = ["init A / K"]
    r, o = rec.sync(); d.append("sync -> %s" % o["exit"])
    shutil.copy2(a.path(0, "A"), a.path(1, "A")); rec.env("cp -p 0/A 1/A"); d.append("cp -p 0/A 1/A")
    a.clock += 10
    r, o = rec.sync("-B", "2"); d.append("sync -B 2 -> %s" % o["exit"])
    a.corrupt_block(1, "A", 2, "flip"); rec.env("corrupt 1/A[2] (a block with a provisional hash)", damage=True); d.append("corrupt 1/A[2]")
    if nocopy:
        r, o = rec.check("-a", *nocopy); d.append("check -a %s -> %s" % (" ".join(nocopy), o["exit"]))
    r, o = rec.check(*nocopy); d.append("check %s -> %s" % (" ".join(nocopy), o["exit"]))
    r, o = rec.fix(*nocopy); d.append("fix %s -> %s" % (" ".join(nocopy), o["exit"]))
    r, o = rec.check(*nocopy); d.append("check %s -> %s" % (" ".join(nocopy), o["exit"]))
    a.clock += 10
    r, o = rec.sync(); d.append("sync -> %s" % o["exit"])
    r, o = rec.check(); d.append("check -> %s" % o["exit"])
    a.destroy()
    return rec, d


def twins_swapped_fix(seed):
    """C19 with trusted inode numbers: two files with the same size and time stamp exchange their names; fix puts the recorded
    bytes back under each name but must not make the files look like the recorded ones to the next scan by inode (each path now
    carries the inode number recorded for the other file): the next sync reads both again and check finds nothing"""
    import os
    conf = arr.Conf(nd=2, np=1, copies=2)
    conf.inomode = True
    a = arr.Array(conf, seed=seed)
    a.write_file(0, "X", [1, 2], mtime=11)
    a.write_file(0, "Y", [3, 4], mtime=11)
    a.write_file(0, "K", [5], mtime=12)
    # P and Q: same size, whole-second stamps one second apart: after the exchange each path carries the inode recorded for the
    # other file, but of ANOTHER time stamp - no collision, fix puts the recorded stamps back
    a.write_file(0, "P", [20, 21], mtime=21)
    a.write_file(0, "Q", [22, 23], mtime=22)
    a.write_file(1, "C", [6, 7, 8], mtime=13)
    rec = recorder.Recorder(a)
    d = ["init X Y (same size, same stamp) K, P Q (same size, stamps one second apart) / C"]
    r, o = rec.sync(); d.append("sync -> %s" % o["exit"])
    a.clock += 10
    r, o = rec.sync(); d.append("sync -> %s" % o["exit"])
    px, py = a.path(0, "X"), a.path(0, "Y")
    os.rename(px, px + ".t"); os.rename(py, px); os.rename(px + ".t", py)
    pp, pq = a.path(0, "P"), a.path(0, "Q")
    os.rename(pp, pp + ".t"); os.rename(pq, pp); os.rename(pp + ".t", pq)
    rec.env("X and Y, P and Q exchange their names"); d.append("swap X <-> Y, P <-> Q")
    r, o = rec.diff(); d.append("diff -> %s" % o["exit"])
    r, o = rec.check(); d.append("check -> %s" % o["exit"])
    r, o = rec.fix(); d.append("fix -> %s" % o["exit"])
    r, o = rec.diff(); d.append("diff -> %s" % o["exit"])
    a.clock += 10
    r, o = rec.sync(); d.append("sync -> %s" % o["exit"])
    r, o = rec.check("-a"); d.append("check -a -> %s" % o["exit"])
    r, o = rec.check(); d.append("check -> %s" % o["exit"])
    # the same exchange followed by a sync instead of a fix: two moves, nothing is read, everything stays right
    os.rename(px, px + ".t"); os.rename(py, px); os.rename(px + ".t", py)
    rec.env("X and Y exchange their names again"); d.append("swap X <-> Y")
    r, o = rec.diff(); d.append("diff -> %s" % o["exit"])
    a.clock += 10
    r, o = rec.sync(); d.append("sync -> %s" % o["exit"])
    r, o = rec.check(); d.append("check -> %s" % o["exit"])
    a.destroy()
    return rec, d


def uuid_appears(seed):
    """C11 / C19: the array was synced while its disks reported no UUID; inode numbers recorded then must not be trusted when a
    UUID appears (or when it changes): two files with the same size and time stamp that ended up with each other's inode numbers
    (bytes and paths as recorded) are not "moved", diff says equal and a sync changes nothing"""
    import os
    conf = arr.Conf(nd=2, np=1, copies=2)
    conf.inomode = True
    a = arr.Array(conf, seed=seed)
    a.nouuid = True
    a.write_file(0, "X", [1, 2], mtime=11)
    a.write_file(0, "Y", [3, 4], mtime=11)
    a.write_file(1, "C", [5, 6, 7], mtime=13)
    rec = recorder.Recorder(a)
    d = ["init X Y (same size, same stamp) / C, disks without UUID"]
    r, o = rec.sync(); d.append("sync -> %s" % o["exit"])
    a.clock += 10
    r, o = rec.sync(); d.append("sync -> %s" % o["exit"])

    def exchange():
        px, py = a.path(0, "X"), a.path(0, "Y")
        bx, by = open(px, "rb").read(), open(py, "rb").read()
        st = os.lstat(px)
        os.rename(px, px + ".t"); os.rename(py, px); os.rename(px + ".t", py)
        for p, b in ((px, bx), (py, by)):
            with open(p, "r+b") as f:
                f.write(b)
            os.utime(p, ns=(st.st_mtime_ns, st.st_mtime_ns))
    exchange()
    rec.env("X and Y get each other's inode numbers (paths, bytes and stamps as recorded)"); d.append("exchange inode numbers of X and Y")
    a.nouuid = False
    rec.env("the disks report a UUID now"); d.append("UUIDs appear")
    r, o = rec.diff(); d.append("diff -> %s" % o["exit"])
    a.clock += 10
    r, o = rec.sync(); d.append("sync -> %s" % o["exit"])
    r, o = rec.check(); d.append("check -> %s" % o["exit"])
    # now the UUIDs are recorded: the same exchange again IS two moves for the scan (identity by inode, size and stamp) - by the
    # rules of the tool the hashes follow the inode numbers; then the data lines are reordered (= other UUIDs): path again
    a.data_reversed = True; a.write_conf()
    rec.env("data lines reordered: the UUIDs differ from the recorded ones"); d.append("UUIDs change")
    exchange()
    rec.env("inode numbers exchanged again"); d.append("exchange inode numbers of X and Y")
    r, o = rec.diff(); d.append("diff -> %s" % o["exit"])
    a.clock += 10
    r, o = rec.sync(); d.append("sync -> %s" % o["exit"])
    r, o = rec.check(); d.append("check -> %s" % o["exit"])
    a.destroy()
    return rec, d


def rehash_silent_sync(seed):
    """C03 / C05 / C15: a hash migration is in progress (stripes still marked for the previous function); a synced block rots
    silently and a file is added on another disk in the same stripes: the sync meets the silent error (it repairs the block in
    memory to compute the parity), reports it and leaves the stripe as it was recorded - marks and hashes of the same function -
    so that fix repairs the rotten block and every later loss within the parity count is still recovered"""
    a = arr.Array(arr.Conf(nd=3, np=2, copies=2), seed=seed)
    a.write_file(0, "A", [1, 2, 3, 4], mtime=11)
    a.write_file(1, "B", [5], mtime=12)
    a.write_file(2, "C", [6, 7, 8, 9], mtime=13)
    rec = recorder.Recorder(a)
    d = ["init A(4) / B(1) / C(4)"]
    r, o = rec.sync(); d.append("sync -> %s" % o["exit"])
    r, o = rec.rehash(); d.append("rehash -> %s" % o["exit"])
    a.write_file(1, "N", [10, 11, 12], mtime=14); rec.env("write 1/N"); d.append("write 1/N (3 blocks)")
    a.corrupt_block(0, "A", 3, "flip"); rec.env("corrupt 0/A[3]", damage=True); d.append("corrupt 0/A[3] silently")
    a.clock += 10
    r, o = rec.sync(); d.append("sync -> %s" % o["exit"])
    a.clock += 10
    r, o = rec.sync(); d.append("sync -> %s" % o["exit"])
    r, o = rec.check(); d.append("check -> %s" % o["exit"])
    r, o = rec.fix(); d.append("fix -> %s" % o["exit"])
    r, o = rec.check(); d.append("check -> %s" % o["exit"])
    for dd, n in ((1, "N"), (2, "C"), (0, "A")):
        import os
        if os.path.exists(a.path(dd, n)):
            a.remove(dd, n)
        rec.env("lose %d/%s" % (dd, n), damage=True); d.append("lose %d/%s" % (dd, n))
        r, o = rec.fix(); d.append("fix -> %s" % o["exit"])
    r, o = rec.check(); d.append("check -> %s" % o["exit"])
    r, o = rec.scrub("full"); d.append("scrub full -> %s" % o["exit"])
    a.destroy()
    return rec, d


def zero_chg_second_disk(seed):
    """C03 / C05: a sync that was adding a file in positions its disk (not the first one) never used stops after its first stripe,
    without its final save: the state holds the new blocks as changed blocks whose parity share is zero, the parity of their
    stripes is the old one.  A synced file of another disk is then lost: fix must put exactly the new blocks back to zero to
    decode (second strategy) and rebuild the lost file bit for bit"""
    import os
    a = arr.Array(arr.Conf(nd=3, np=2, copies=2), seed=seed)
    a.write_file(0, "A", [1, 2, 3, 4, 5], mtime=11)
    a.write_file(1, "B", [6], mtime=12)
    a.write_file(2, "C", [7, 8, 9, 10, 11], mtime=13)
    rec = recorder.Recorder(a)
    d = ["init A(5) / B(1) / C(5)"]
    r, o = rec.sync(); d.append("sync -> %s" % o["exit"])
    a.write_file(1, "N", [12, 13, 14, 15], mtime=14); rec.env("write 1/N"); d.append("write 1/N (4 blocks)")
    a.clock += 10
    r, o = rec.sync("-B", "1", "--test-kill-after-sync"); d.append("sync -B 1, no final save -> %s" % o["exit"])
    for lost in ((2, "C"), (0, "A")):
        a.remove(*lost); rec.env("lose %d/%s" % lost, damage=True); d.append("lose %d/%s" % lost)
        r, o = rec.check(); d.append("check -> %s" % o["exit"])
        r, o = rec.fix(); d.append("fix -> %s" % o["exit"])
    a.clock += 10
    r, o = rec.sync(); d.append("sync -> %s" % o["exit"])
    r, o = rec.check(); d.append("check -> %s" % o["exit"])
    if os.path.exists(a.path(1, "N")):
        a.remove(1, "N")
    rec.env("lose 1/N", damage=True); d.append("lose 1/N")
    r, o = rec.fix(); d.append("fix -> %s" % o["exit"])
    r, o = rec.check(); d.append("check -> %s" % o["exit"])
    a.destroy()
    return rec, d


def audit_two_blocks(seed):
    """C04: several silently rotten blocks in one file (first, middle, last short block): check -a, check and scrub name every one
    of them, not only the first"""
    a = arr.Array(arr.Conf(nd=2, np=2, copies=2), seed=seed)
    a.write_file(0, "A", [1, 2, 3, ("s", 4)], mtime=11)
    a.write_file(1, "B", [5, 6], mtime=12)
    rec = recorder.Recorder(a)
    d = ["init A(4, last short) / B(2)"]
    r, o = rec.sync(); d.append("sync -> %s" % o["exit"])
    for i in (0, 2, 3):
        a.corrupt_block(0, "A", i, "flip")
    rec.env("corrupt 0/A[1], [3], [4] silently", damage=True); d.append("corrupt 0/A blocks 1, 3, 4")
    r, o = rec.check("-a"); d.append("check -a -> %s" % o["exit"])
    r, o = rec.check(); d.append("check -> %s" % o["exit"])
    r, o = rec.scrub("full"); d.append("scrub full -> %s" % o["exit"])
    r, o = rec.check("-a"); d.append("check -a -> %s" % o["exit"])
    r, o = rec.fix(); d.append("fix -> %s" % o["exit"])
    r, o = rec.check(); d.append("check -> %s" % o["exit"])
    a.destroy()
    return rec, d


def deleted_next_to_rotten(seed):
    """C06: a stripe holds the block of a file deleted since the last sync and a synced block that rotted silently; with two
    parities the sync repairs the rotten block in memory (decoding the deleted one with it) and must compute the new parity
    WITHOUT the deleted data: afterwards every synced stripe has the parity of its data, and a lost file is still rebuilt"""
    import os
    a = arr.Array(arr.Conf(nd=3, np=2, copies=2), seed=seed)
    a.write_file(0, "A", [1, 2, 3], mtime=11)
    a.write_file(0, "K", [10], mtime=14)
    a.write_file(1, "B", [4, 5, 6], mtime=12)
    a.write_file(2, "C", [7, 8, 9], mtime=13)
    rec = recorder.Recorder(a)
    d = ["init A K / B / C"]
    r, o = rec.sync(); d.append("sync -> %s" % o["exit"])
    a.remove(0, "A"); rec.env("delete 0/A"); d.append("delete 0/A")
    a.corrupt_block(1, "B", 1, "flip"); rec.env("corrupt 1/B[2] silently", damage=True); d.append("corrupt 1/B[2]")
    a.clock += 10
    r, o = rec.sync(); d.append("sync -> %s" % o["exit"])
    r, o = rec.check(); d.append("check -> %s" % o["exit"])
    r, o = rec.fix(); d.append("fix -> %s" % o["exit"])
    a.clock += 10
    r, o = rec.sync(); d.append("sync -> %s" % o["exit"])
    r, o = rec.check(); d.append("check -> %s" % o["exit"])
    if os.path.exists(a.path(2, "C")):
        a.remove(2, "C")
    rec.env("lose 2/C", damage=True); d.append("lose 2/C")
    r, o = rec.fix(); d.append("fix -> %s" % o["exit"])
    r, o = rec.check(); d.append("check -> %s" % o["exit"])
    a.destroy()
    return rec, d


def nohash_recovery_with_bad_parity(seed):
    """C03 / C05: recovery without a hash: a sync stops after the parity update and before its final save (the new file's blocks
    are recorded as changed, without a usable hash, the parity already holds them); the new file is lost and one parity block of
    one of its stripes rots.  With three parities fix decodes with one combination and uses a spare parity to test the result:
    the combination that uses the rotten block must be rejected, another one accepted - the file comes back bit for bit"""
    a = arr.Array(arr.Conf(nd=2, np=3, copies=2), seed=seed)
    a.write_file(0, "A", [1, 2], mtime=11)
    a.write_file(1, "B", [3, 4, 5, 6], mtime=12)
    rec = recorder.Recorder(a)
    d = ["init A(2) / B(4)"]
    r, o = rec.sync(); d.append("sync -> %s" % o["exit"])
    a.write_file(0, "N", [7, 8], mtime=13); rec.env("write 0/N"); d.append("write 0/N (2 blocks)")
    a.clock += 10
    r, o = rec.sync("--test-kill-after-sync"); d.append("sync without its final save -> %s" % o["exit"])
    a.remove(0, "N"); rec.env("lose 0/N", damage=True); d.append("lose 0/N")
    pos = [b["pos"] for b in rec.lines[-1]["state"]["cf"]["0"]["N"]["bl"]]
    a.corrupt_parity(0, pos[0], "flip"); rec.env("corrupt parity level 0 at stripe %d" % pos[0], damage=True); d.append("corrupt parity 0 @%d" % pos[0])
    a.corrupt_parity(1, pos[1], "flip"); rec.env("corrupt parity level 1 at stripe %d" % pos[1], damage=True); d.append("corrupt parity 1 @%d" % pos[1])
    r, o = rec.check(); d.append("check -> %s" % o["exit"])
    r, o = rec.fix(); d.append("fix -> %s" % o["exit"])
    r, o = rec.check(); d.append("check -> %s" % o["exit"])
    a.clock += 10
    r, o = rec.sync(); d.append("sync -> %s" % o["exit"])
    r, o = rec.check(); d.append("check -> %s" % o["exit"])
    a.destroy()
    return rec, d
