"""Directed histories: the counterexamples TLC finds on ArrayMC.tla (and the property text announces), replayed on
the real binary.  Each returns (recorder, description)."""
import arr, recorder


def _base(seed, np_=2):
    a = arr.Array(arr.Conf(nd=2, np=np_, copies=2), seed=seed)
    return a, None


def f1_pasthash_overwritten(seed):
    """sync.c:1015-1017 stores the hash of the new data in a CHG block even when the stripe is skipped"""
    a = arr.Array(arr.Conf(nd=2, np=2, copies=2), seed=seed)
    a.write_file(0, "A", [1], mtime=11); a.write_file(0, "K", [2], mtime=12)
    a.write_file(1, "C", [3], mtime=13); a.write_file(1, "L", [4], mtime=14)
    rec = recorder.Recorder(a)
    d = ["init A K / C L"]
    rec.sync(); d.append("sync")
    a.remove(0, "A"); a.write_file(0, "B", [5], mtime=15); rec.env("rm A, add B (takes A's position)"); d.append("rm A add B")
    rec.sync(midrun="rm -f '%s'" % a.path(1, "C")); d.append("sync with C vanishing after the scan (stripe 0 skipped)")
    a.write_file(1, "C", [3], mtime=13); rec.env("C restored from backup with its time stamp"); d.append("restore C")
    a.remove(0, "B"); rec.env("B lost", damage=True); d.append("lose B")
    rec.fix(); d.append("fix")
    a.destroy()
    return rec, d


def f2_pasthash_length(seed):
    """check.c:439-452 compares the rebuilt block with the past hash over the new block's length"""
    a = arr.Array(arr.Conf(nd=2, np=2, copies=2), seed=seed)
    a.write_file(0, "A", [('s', 1)], mtime=11); a.write_file(0, "K", [2], mtime=12)
    a.write_file(1, "C", [3], mtime=13); a.write_file(1, "L", [4], mtime=14)
    rec = recorder.Recorder(a)
    d = ["init A(short) K / C L"]
    rec.sync(); d.append("sync")
    a.remove(0, "A"); a.write_file(0, "B", [5], mtime=15); rec.env("rm A, add B (full block on A's position)"); d.append("rm A add B")
    rec.sync_killed(["rename,c1/content,1,killa"]); d.append("sync killed right after the pre-sync content save")
    a.remove(0, "B"); rec.env("B lost", damage=True); d.append("lose B")
    rec.fix(); d.append("fix")
    a.destroy()
    return rec, d


def f5_autosave_not_drained(seed):
    """sync.c:1302-1340 saves the content (stripes declared BLK) while their parity writes are still queued"""
    a = arr.Array(arr.Conf(nd=2, np=2, copies=2), seed=seed)
    a.write_file(0, "K", [1], mtime=11); a.write_file(1, "L", [2], mtime=12)
    rec = recorder.Recorder(a)
    d = ["init K / L"]
    rec.sync(); d.append("sync")
    a.write_file(0, "N", [3, 4, 5, 6, 7], mtime=13); rec.env("add N (5 new stripes)"); d.append("add N")
    # autosave forced after stripe 2, parity writes delayed, process killed right after the autosave's last rename
    rec.sync_killed(["pwrite,/p,0,delay,300", "rename,c1/content,2,killa"], "--test-io-cache", "3",
                    "--test-force-autosave-at", "2", autosave_at=2)
    d.append("sync --test-io-cache 3 --test-force-autosave-at 2, parity writes delayed, killed after the autosave")
    a.clock += 10
    r, out = rec.sync(); d.append("resume sync -> %s" % out["exit"])
    r, out = rec.check(); d.append("check -> %s" % out["exit"])
    a.destroy()
    return rec, d
