"""Scenario generation and execution: seeded random histories of environment actions and commands on a real
array, recorded with recorder.Recorder.  Also: validation of the recorded traces with TLC (ArrayTrace.tla)."""
import os, random, re, json, shutil, time
import arr, recorder, vlib


class Gen:
    """random history generator (abstract actions are executed immediately on the real array)"""

    def __init__(self, seed, conf=None, names=None, maxblk=3, spare=True, profile="mixed", data_seed=None):
        self.rng = random.Random(seed)
        self.nrng = random.Random(seed * 31 + 7)      # separate stream: option noise that leaves the histories as they were
        self.conf = conf or arr.Conf(nd=self.rng.choice([2, 2, 3]), np=self.rng.choice([1, 2, 2, 3]), copies=2)
        if profile == "inodes":
            self.conf.inomode = True
        self.a = arr.Array(self.conf, seed=seed if data_seed is None else data_seed)
        self.a.io_vary = True
        self.names = names or (["A", "B", "sub/E", "sub/F", "sub/deep/K"] if profile == "filters" else ["A", "B", "E", "F", "K"])
        self.maxblk = maxblk
        self.nextv = 1
        self.tick = 10
        self.profile = profile
        self.ranges = profile in ("ranges", "copy", "c19", "rehash", "filters", "c11")
        self.filters = profile in ("filters",)
        self.structured = seed % 2 == 0
        self.steps = []
        if spare:
            for d in range(self.conf.nd):
                self.a.write_file(d, "zz", [self.val()], mtime=self.stamp())
        self.rec = recorder.Recorder(self.a)

    def val(self, short=False):
        v = self.nextv
        self.nextv += 1
        return ('s', v) if short else v

    def stamp(self):
        self.tick += 1
        return self.tick

    def content(self, nblk=None):
        n = self.rng.randint(0, self.maxblk) if nblk is None else nblk
        vals = [self.val() for _ in range(n)]
        if n and self.rng.random() < 0.4:
            vals[-1] = self.val(short=True)
        return vals

    def files(self, d):
        p = self.a.ddir(d)
        return sorted(f for f in os.listdir(p) if os.path.isfile(os.path.join(p, f)) and not os.path.islink(os.path.join(p, f))
                      and not f.endswith(".unrecoverable"))

    def recorded(self):
        st = self.rec.lines[-1]["state"]
        return st

    # ---- environment actions
    def op_add(self):
        d = self.rng.randrange(self.conf.nd)
        n = self.rng.choice(self.names)
        vals = self.content()
        self.a.write_file(d, n, vals, mtime=self.stamp())
        return "write %d/%s %r" % (d, n, vals)

    def op_touch(self):
        d = self.rng.randrange(self.conf.nd)
        fl = self.files(d)
        if not fl:
            return None
        n = self.rng.choice(fl)
        self.a.set_mtime(d, n, self.stamp())
        return "touch %d/%s" % (d, n)

    def op_delete(self):
        d = self.rng.randrange(self.conf.nd)
        fl = [f for f in self.files(d) if f != "zz" or self.rng.random() < 0.1]
        if not fl:
            return None
        n = self.rng.choice(fl)
        self.a.remove(d, n)
        return "delete %d/%s" % (d, n)

    def op_restore(self):
        """a file that is recorded but no longer on the disk comes back with the same bytes and the same time stamp (restored
        from a backup), or with the same bytes under a new name"""
        st = self.recorded()
        cands = []
        for d in self.rec.D:
            for n, f in st["cf"][d].items():
                if n not in st["fs"][d] and f["bl"] and not os.path.lexists(self.a.path(int(d), n)) and f["mt"][0] >= 0:
                    vals = []
                    for b in f["bl"]:
                        h = b["h"]
                        if b["st"] != "BLK":
                            vals = None; break
                        if h.startswith("v") and h[1:].isdigit():
                            vals.append(int(h[1:]))
                        elif h.startswith("s") and h[1:].isdigit():
                            vals.append(("s", int(h[1:])))
                        else:
                            vals = None; break
                    if vals:
                        cands.append((int(d), n, vals, f["mt"]))
        if not cands:
            return None
        d, n, vals, mt = self.rng.choice(cands)
        if self.rng.random() < 0.7:
            self.a.write_file(d, n, vals, mtime=mt[0], mtime_ns=mt[1])
            return "restore %d/%s (same bytes, same stamp)" % (d, n)
        m = self.rng.choice(self.names)
        if os.path.lexists(self.a.path(d, m)):
            return None
        self.a.write_file(d, m, vals, mtime=self.stamp())
        return "restore %d/%s as %s (same bytes)" % (d, n, m)

    def op_mv(self):
        """rename within the disk (the inode stays): to a free name, or onto another file (which is replaced)"""
        d = self.rng.randrange(self.conf.nd)
        fl = [f for f in self.files(d) if f != "zz"]
        if not fl:
            return None
        n = self.rng.choice(fl)
        m = self.rng.choice([x for x in self.names + ["sub/" + self.names[0]] if x != n])
        src, dst = self.a.path(d, n), self.a.path(d, m)
        if os.path.isdir(dst):
            return None
        os.makedirs(os.path.dirname(dst), exist_ok=True)
        over = os.path.lexists(dst)
        self._silent = over and self._same_stamp(src, dst) and str(d) not in self.rec.trusted()
        os.replace(src, dst)
        return "mv %d/%s %s%s" % (d, n, m, " (replacing it)" if over else "")

    def op_swapnames(self):
        """two files of a disk exchange their names (each keeps its inode, bytes and time stamp)"""
        d = self.rng.randrange(self.conf.nd)
        fl = [f for f in self.files(d) if f != "zz"]
        if len(fl) < 2:
            return None
        x, y = self.rng.sample(fl, 2)
        px, py = self.a.path(d, x), self.a.path(d, y)
        self._silent = self._same_stamp(px, py) and str(d) not in self.rec.trusted()
        os.rename(px, px + ".swap"); os.rename(py, px); os.rename(px + ".swap", py)
        return "swap names %d/%s <-> %s" % (d, x, y)

    @staticmethod
    def _same_stamp(p, q):
        """other bytes arriving under a recorded path with the recorded size and time stamp: when the inode numbers of the disk
        are not trusted nothing tells the scan that the file changed - for the histories this is silent damage, like a flipped
        bit, not a change a sync has to notice"""
        try:
            a, b = os.lstat(p), os.lstat(q)
        except OSError:
            return False
        return (a.st_size, a.st_mtime_ns) == (b.st_size, b.st_mtime_ns) and not os.path.islink(p) and not os.path.islink(q)

    def op_twin(self):
        """a second file with the size and the time stamp of an existing one (other bytes)"""
        d = self.rng.randrange(self.conf.nd)
        fl = [f for f in self.files(d) if f != "zz" and os.path.getsize(self.a.path(d, f)) > 0]
        if not fl:
            return None
        n = self.rng.choice(fl)
        st = os.lstat(self.a.path(d, n))
        free = [x for x in self.names if not os.path.lexists(self.a.path(d, x))]
        if not free or st.st_size % arr.BS:
            return None
        m = self.rng.choice(free)
        vals = [self.val() for _ in range(st.st_size // arr.BS)]
        self.a.write_file(d, m, vals)
        os.utime(self.a.path(d, m), ns=(st.st_mtime_ns, st.st_mtime_ns))
        return "write %d/%s %r with the size and stamp of %s" % (d, m, vals, n)

    def op_uuidswap(self):
        """the data lines of the configuration change their order: the disks report other UUIDs than the recorded ones, so the
        next scan must not trust the recorded inode numbers"""
        self.a.data_reversed = not getattr(self.a, "data_reversed", False)
        self.a.write_conf()
        return "data lines of the configuration %s" % ("reversed" if self.a.data_reversed else "in the first order again")

    def op_uuidoff(self):
        """the disks stop / start reporting a UUID (commands run without / with --test-fake-uuid): without a UUID the recorded one
        is kept as it is and inode numbers are not trusted; when a UUID appears where none was recorded they are not trusted either"""
        self.a.nouuid = not getattr(self.a, "nouuid", False)
        return "disks report %s" % ("no UUID" if self.a.nouuid else "their UUID again")

    def op_swapinodes(self):
        """two files with the same size and time stamp end up with each other's inode numbers while every path keeps its own bytes
        (names exchanged, then the bytes exchanged in place)"""
        st = self.recorded()
        for d in self.rec.D:
            fl = st["fs"][d]
            pairs = [(x, y) for x in sorted(fl) for y in sorted(fl) if x < y and fl[x]["sz"] == fl[y]["sz"] and fl[x]["mt"] == fl[y]["mt"]
                     and fl[x]["sz"] > 0 and fl[x]["b"] != fl[y]["b"]]
            if pairs:
                x, y = self.rng.choice(pairs)
                px, py = self.a.path(int(d), x), self.a.path(int(d), y)
                bx, by = open(px, "rb").read(), open(py, "rb").read()
                stx = os.lstat(px)
                os.rename(px, px + ".swap"); os.rename(py, px); os.rename(px + ".swap", py)
                for p, b in ((px, bx), (py, by)):
                    with open(p, "r+b") as f:
                        f.write(b)
                    os.utime(p, ns=(stx.st_mtime_ns, stx.st_mtime_ns))
                return "%s/%s and %s get each other's inode numbers (bytes and stamps stay)" % (d, x, y)
        return None

    def op_reinode(self):
        """a recorded file is replaced by a copy of itself (same bytes, same time stamp): only its inode is new (what a restore
        from a backup or a move through another file-system leaves)"""
        st = self.recorded()
        cands = [(int(d), n) for d in self.rec.D for n, f in st["cf"][d].items()
                 if n in st["fs"][d] and os.path.isfile(self.a.path(int(d), n)) and os.lstat(self.a.path(int(d), n)).st_nlink == 1]
        if not cands:
            return None
        d, n = self.rng.choice(cands)
        p = self.a.path(d, n)
        stt = os.lstat(p)
        with open(p, "rb") as f:
            data = f.read()
        tmp = p + ".reinode"
        with open(tmp, "wb") as f:
            f.write(data)
        os.utime(tmp, ns=(stt.st_mtime_ns, stt.st_mtime_ns))
        os.replace(tmp, p)
        return "replace %d/%s by a copy of itself (new inode)" % (d, n)

    def op_copy(self):
        """cp -p of a file to another disk (same name, size and time stamp): candidate for copy detection"""
        if self.conf.nd < 2:
            return None
        d = self.rng.randrange(self.conf.nd)
        fl = [f for f in self.files(d) if f != "zz"]
        if not fl:
            return None
        n = self.rng.choice(fl)
        e = self.rng.choice([x for x in range(self.conf.nd) if x != d])
        src = self.a.path(d, n)
        with open(src, "rb") as f:
            data = f.read()
        if not data:
            return None
        st = os.lstat(src)
        decoy = self.rng.random() < (0.4 if self.profile == "c19" else 0.25) and len(data) >= 1
        if decoy:
            data = bytes([data[0] ^ 0x5a]) + data[1:]          # same name, size, stamp - other content
        dst = self.a.path(e, n)
        if os.path.lexists(dst):
            os.remove(dst)
        with open(dst, "wb") as f:
            f.write(data)
        os.utime(dst, ns=(st.st_mtime_ns, st.st_mtime_ns))
        return "copy%s %d/%s -> %d/%s" % (" (decoy)" if decoy else "", d, n, e, n)

    # ---- C11: the full alphabet of file-system changes
    def _top_files(self, d):
        return [f for f in self.files(d) if f != "zz"]

    def op_append(self):
        d = self.rng.randrange(self.conf.nd)
        fl = self._top_files(d)
        if not fl:
            return None
        n = self.rng.choice(fl)
        p = self.a.path(d, n)
        if os.path.getsize(p) % arr.BS:
            return None            # only whole blocks can be extended without rewriting the tail
        vals = self.content(self.rng.randint(1, 2))
        with open(p, "ab") as f:
            f.write(self.a.file_bytes(vals))
        self.a.set_mtime(d, n, self.stamp())
        return "append %d/%s %r" % (d, n, vals)

    def op_truncate(self):
        d = self.rng.randrange(self.conf.nd)
        fl = [f for f in self._top_files(d) if os.path.getsize(self.a.path(d, f)) > arr.BS]
        if not fl:
            return None
        n = self.rng.choice(fl)
        p = self.a.path(d, n)
        keep = self.rng.randrange(1, (os.path.getsize(p) + arr.BS - 1) // arr.BS)
        os.truncate(p, keep * arr.BS)
        self.a.set_mtime(d, n, self.stamp())
        return "truncate %d/%s to %d blocks" % (d, n, keep)

    def op_samesize(self):
        """rewrite with other content, same size, new time stamp"""
        d = self.rng.randrange(self.conf.nd)
        fl = self._top_files(d)
        if not fl:
            return None
        n = self.rng.choice(fl)
        sz = os.path.getsize(self.a.path(d, n))
        if sz == 0 or sz % arr.BS:
            return None
        vals = [self.val() for _ in range(sz // arr.BS)]
        self.a.write_file(d, n, vals, mtime=self.stamp())
        return "rewrite %d/%s same size %r" % (d, n, vals)

    def op_replace(self):
        """a recorded file is deleted and another name gets a new file of the same size (it takes over the positions)"""
        d = self.rng.randrange(self.conf.nd)
        fl = self._top_files(d)
        if not fl:
            return None
        n = self.rng.choice(fl)
        sz = os.path.getsize(self.a.path(d, n))
        nb = (sz + arr.BS - 1) // arr.BS
        if nb == 0:
            return None
        m = self.rng.choice([x for x in self.names if x != n])
        self.a.remove(d, n)
        vals = self.content(nb)
        self.a.write_file(d, m, vals, mtime=self.stamp())
        return "delete %d/%s, write %d/%s %r" % (d, n, d, m, vals)

    def op_samesec(self):
        """rewrite in place with other content and the same size within the same second: only the sub-second part of the time
        stamp changes (the recorded one is zero for most files here)"""
        st = self.recorded()
        cands = [(int(d), n, f) for d in self.rec.D for n, f in st["cf"][d].items()
                 if n in st["fs"][d] and f["sz"] > 0 and f["sz"] % arr.BS == 0 and st["fs"][d][n]["mt"] == f["mt"] and f["mt"][0] >= 0
                 and "/" not in n and n != "zz"]
        if not cands:
            return None
        d, n, f = self.rng.choice(cands)
        vals = [self.val() for _ in range(f["sz"] // arr.BS)]
        ns = self.rng.choice([1, 250000000, 999999999])
        if ns == f["mt"][1]:
            ns = 5
        self.a.overwrite_keep_inode(d, n, vals, mtime=f["mt"][0], mtime_ns=ns)
        return "rewrite %d/%s in place, same size, same second (.%09d) %r" % (d, n, ns, vals)

    def op_rename(self):
        d = self.rng.randrange(self.conf.nd)
        fl = self._top_files(d)
        if not fl:
            return None
        n = self.rng.choice(fl)
        m = self.rng.choice([x for x in self.names + ["sub/" + y for y in self.names] if x != n])
        src, dst = self.a.path(d, n), self.a.path(d, m)
        if os.path.lexists(dst) and (os.path.isdir(dst) or self.rng.random() < 0.5):
            return None
        os.makedirs(os.path.dirname(dst), exist_ok=True)
        os.replace(src, dst)                 # may overwrite another file: the names are swapped/overtaken
        return "rename %d/%s -> %s" % (d, n, m)

    def op_symlink(self):
        d = self.rng.randrange(self.conf.nd)
        n = self.rng.choice(["L1", "L2", "sub/L1"])
        p = self.a.path(d, n)
        os.makedirs(os.path.dirname(p), exist_ok=True)
        if os.path.lexists(p):
            if os.path.isdir(p) and not os.path.islink(p):
                return None
            os.remove(p)
            if self.rng.random() < 0.4:
                return "remove link %d/%s" % (d, n)
        to = self.rng.choice(["A", "../zz", "missing target", "sub"])
        os.symlink(to, p)
        return "symlink %d/%s -> %s" % (d, n, to)

    def op_hardlink(self):
        d = self.rng.randrange(self.conf.nd)
        fl = [f for f in self._top_files(d) if f not in ("H1", "H2", "L1")]
        if not fl:
            return None
        n = self.rng.choice(fl)
        m = self.rng.choice(["H1", "H2", "L1"])
        if m == "L1" and "A" in fl:
            n = "A"                       # a hard link in the place of the symbolic link L1 -> A: same name, same target string
        p = self.a.path(d, m)
        if os.path.isdir(p) and not os.path.islink(p):
            return None
        if os.path.lexists(p):
            os.remove(p)
            if self.rng.random() < 0.4:
                return "remove hard link %d/%s" % (d, m)
        os.link(self.a.path(d, n), p)
        return "hard link %d/%s = %s" % (d, m, n)

    def op_dir(self):
        d = self.rng.randrange(self.conf.nd)
        n = self.rng.choice(["E1", "sub/E2", "E3"])
        p = self.a.path(d, n)
        if os.path.isdir(p) and not os.path.islink(p):
            if not os.listdir(p):
                os.rmdir(p)
                return "rmdir %d/%s" % (d, n)
            return None
        if os.path.lexists(p):
            return None
        os.makedirs(p)
        return "mkdir %d/%s" % (d, n)

    def op_replace_kind(self):
        """replace a file by a directory or a link of the same name, or back"""
        d = self.rng.randrange(self.conf.nd)
        n = self.rng.choice(self.names)
        p = self.a.path(d, n)
        if os.path.islink(p):
            os.remove(p)
            self.a.write_file(d, n, self.content(), mtime=self.stamp())
            return "link %d/%s replaced by a file" % (d, n)
        if os.path.isdir(p):
            if os.listdir(p):
                return None
            os.rmdir(p)
            self.a.write_file(d, n, self.content(), mtime=self.stamp())
            return "directory %d/%s replaced by a file" % (d, n)
        if os.path.isfile(p):
            os.remove(p)
            if self.rng.random() < 0.5:
                os.makedirs(p)
                return "file %d/%s replaced by an empty directory" % (d, n)
            os.symlink("zz", p)
            return "file %d/%s replaced by a symlink" % (d, n)
        return None

    def op_move(self):
        """move a file to another disk or into a sub-directory keeping name and time stamp"""
        d = self.rng.randrange(self.conf.nd)
        fl = [f for f in self.files_deep(d) if os.path.basename(f) != "zz"]
        if not fl:
            return None
        n = self.rng.choice(fl)
        src = self.a.path(d, n)
        st = os.lstat(src)
        if self.rng.random() < 0.5 and self.conf.nd > 1:
            e = self.rng.choice([x for x in range(self.conf.nd) if x != d]); m = n
        else:
            e = d; m = ("sub/" + os.path.basename(n)) if "/" not in n else os.path.basename(n)
        dst = self.a.path(e, m)
        if os.path.lexists(dst):
            return None
        os.makedirs(os.path.dirname(dst), exist_ok=True)
        with open(src, "rb") as f:
            data = f.read()
        with open(dst, "wb") as f:
            f.write(data)
        os.utime(dst, ns=(st.st_mtime_ns, st.st_mtime_ns))
        os.remove(src)
        return "move %d/%s -> %d/%s" % (d, n, e, m)

    def op_nsec(self):
        """give a file a non-zero sub-second time stamp (copy detection then compares the bare name)"""
        d = self.rng.randrange(self.conf.nd)
        fl = [f for f in self.files_deep(d) if os.path.basename(f) != "zz"]
        if not fl:
            return None
        n = self.rng.choice(fl)
        sec = self.stamp()
        self.a.set_mtime(d, n, sec, self.rng.choice([1, 500000000, 999999999]))
        return "touch %d/%s with sub-second stamp" % (d, n)

    def files_deep(self, d):
        base = self.a.ddir(d)
        out = []
        for dp, dn, fn in os.walk(base):
            for f in fn:
                p = os.path.join(dp, f)
                rel = os.path.relpath(p, base)
                if not rel.endswith(".unrecoverable") and os.path.isfile(p) and not os.path.islink(p):
                    out.append(rel)
        return sorted(out)

    def make_import(self, kind):
        """an import directory with true copies and decoys (same size and stamp, other content) of recorded files"""
        st = self.recorded()
        import tempfile
        imp = tempfile.mkdtemp(prefix="imp-", dir=os.path.dirname(self.a.root))      # outside the array root
        k = 0
        for d in self.rec.D:
            for n, f in st["cf"][d].items():
                if not f["bl"] or self.rng.random() < 0.3:
                    continue
                vals = [self._unval(b["h"]) if b["h"][:1] in "vs" and b["h"][1:].isdigit() else None for b in f["bl"]]
                if any(v is None for v in vals):
                    continue
                # for a block recorded as changed (CHG) the value is the PAST content of its position: a file made of such
                # values with the size and stamp of the new file is a decoy that fix must never take for the new content
                data = b"".join(self.a.vbytes(v) for v in vals)[:f["sz"]]
                if len(data) < f["sz"]:
                    data += b"\0" * (f["sz"] - len(data))
                if self.rng.random() < 0.35:
                    data = bytes([data[0] ^ 0x33]) + data[1:]       # decoy
                p = os.path.join(imp, "i%d" % k); k += 1
                with open(p, "wb") as fh:
                    fh.write(data)
                t = (arr.BASE_TIME + f["mt"][0]) * 10**9 + max(f["mt"][1], 0)
                os.utime(p, ns=(t, t))
        return imp

    def _range(self):
        st = self.recorded()
        bm = max(len(st["info"]), 1)
        s = self.rng.randrange(0, bm)
        return ["-S", str(s), "-B", str(self.rng.randint(1, bm))]

    def op_corrupt(self):
        st = self.recorded()
        cands = []
        for d in self.rec.D:
            for n, f in st["fs"][d].items():
                for i, v in enumerate(f["b"]):
                    cands.append((int(d), n, i))
        if not cands:
            return None
        d, n, i = self.rng.choice(cands)
        full = len(self.a.vbytes(self._unval(st["fs"][str(d)][n]["b"][i]))) == arr.BS
        shape = self.rng.choice(["flip", "byte", "whole"] + (["zero"] if full else []))
        self.a.corrupt_block(d, n, i, shape)
        return "corrupt %d/%s[%d] %s" % (d, n, i, shape)

    def _unval(self, s):
        if s == "Z":
            return 'Z'
        if s[0] == "v":
            return int(s[1:])
        if s[0] == "s":
            return ('s', int(s[1:]))
        return ('J', s[1:])

    def op_corrupt_burst(self):
        """several blocks of one file, the last (possibly partial) one included"""
        st = self.recorded()
        cands = [(int(d), n, len(f["b"])) for d in self.rec.D for n, f in st["fs"][d].items() if len(f["b"]) >= 2]
        if not cands:
            return None
        d, n, nb = self.rng.choice(cands)
        idx = sorted(set([nb - 1] + self.rng.sample(range(nb), min(nb, self.rng.randint(1, 2)))))
        for i in idx:
            self.a.corrupt_block(d, n, i, self.rng.choice(["flip", "byte", "whole"]))
        return "corrupt %d/%s blocks %s" % (d, n, idx)

    def op_corrupt_parity(self):
        st = self.recorded()
        l = self.rng.randrange(self.conf.np)
        n = len(st["par"][l])
        if not n:
            return None
        p = self.rng.randrange(n)
        self.a.corrupt_parity(l, p, self.rng.choice(["flip", "zero", "whole"]))
        return "corrupt parity %d@%d" % (l, p)

    def op_lose_disk(self):
        d = self.rng.randrange(self.conf.nd)
        self.a.lose_disk(d)
        return "lose disk %d" % d

    def op_lose_parity(self):
        l = self.rng.randrange(self.conf.np)
        self.a.lose_parity(l)
        return "lose parity %d" % l

    def _filter(self):
        """a random combination of the filters of fix: -d (data disks and parity levels), -f (base name, whole path,
        directory), -m, -e, -b; -e/-b and -d exclude each other (snapraid.c:1183)"""
        rng = self.rng
        st = self.recorded()
        names = sorted({n for d in self.rec.D for n in st["cf"][d]})
        f = {}
        k = rng.choice(["disk", "disk", "name", "name", "missing", "badfile", "badfile", "badblock", "name+missing", "name+bad",
                        "disk+name"])
        if "disk" in k:
            f["disks"] = rng.sample(range(self.conf.nd), rng.randint(1, max(1, self.conf.nd - 1))) if rng.random() < 0.85 else []
            f["plevels"] = [l for l in range(1, self.conf.np + 1) if rng.random() < 0.4]
            if not f["disks"] and not f["plevels"]:
                f["disks"] = [rng.randrange(self.conf.nd)]
        if "name" in k and names:
            pats = []
            for n in rng.sample(names, min(len(names), rng.randint(1, 2))):
                r = rng.random()
                if "/" in n and r < 0.3:
                    pats.append(n.split("/")[0] + "/")
                elif r < 0.5:
                    pats.append(n.split("/")[-1])
                elif r < 0.65:
                    pats.append("/" + n)
                elif r < 0.8:
                    pats.append("/*")                                   # whole-path pattern: * does not cross a slash
                elif r < 0.9:
                    pats.append("/" + n.split("/")[0][:1] + "*")
                else:
                    pats.append(n.split("/")[-1][:1] + "*")            # base-name pattern
            f["names"] = pats
        if "missing" in k:
            f["missing"] = True
        if "badfile" in k or k == "name+bad":
            f["bad"] = "file"
        if "badblock" in k:
            f["bad"] = "block"
        return f

    # ---- commands
    def cmd_sync(self):
        r = self.rng.random()
        flags = []
        mid = None
        if r < 0.10:
            flags.append("-F")
        elif r < 0.16 and self.profile in ("syncheavy", "ranges", "mixed", "copy", "rehash", "c11"):
            flags.append("-R")
        elif r < 0.25:
            flags.append("--test-kill-after-sync")
        elif r < 0.45:
            # remove a file between scan and sync
            d = self.rng.randrange(self.conf.nd)
            fl = [f for f in self.files(d) if f != "zz"]
            if fl:
                mid = "rm -f '%s'" % self.a.path(d, self.rng.choice(fl))
        if self.rng.random() < 0.15:
            flags.append("-E")
        if self.ranges and self.rng.random() < 0.25:
            flags += self._range()
        if self.profile == "c19":
            if self.rng.random() < 0.4 and not mid:
                flags.append("-h")
            if "-h" not in flags and "-F" not in flags and "-R" not in flags and self.rng.random() < 0.15:      # -N excludes -h, -F, -R
                flags.append("--force-nocopy")
        self.a.clock += self.rng.choice([0, 8, 100, 100000])
        r, out = self.rec.sync(*flags, midrun=mid)
        return "sync %s %s -> %s" % (flags, mid, out["exit"])

    def cmd(self, name):
        self.a.clock += self.rng.choice([0, 8, 100, 100000])
        if name == "check":
            fl = ["-a"] if self.rng.random() < 0.3 else []
            if self.ranges and self.rng.random() < 0.15:
                fl += self._range()
            rules = ["pread,/p,0,shortread,%d" % self.rng.choice([1, 700, 1023])] if self.profile == "detect" and self.rng.random() < 0.3 else None
            if self.nrng.random() < 0.12:
                fl.append("-N")                   # check / fix: no search for copies in the array
            kw = {}
            if self.filters and self.rng.random() < 0.6:
                kw["filt"] = self._filter()
            return "check %s%s%s -> %s" % (fl, " short reads" if rules else "", " filtered" if kw else "",
                                           self.rec.check(*fl, rules=rules, **kw)[1]["exit"])
        if name == "fix":
            fl = self._range() if (self.ranges and self.rng.random() < 0.25) else []
            if self.nrng.random() < 0.12:
                fl.append("-N")
            kw = {}
            if self.filters and self.rng.random() < 0.75:
                kw["filt"] = self._filter()
            if self.profile == "c19" and self.rng.random() < 0.5:
                kind = self.rng.choice(["imp_stamp", "imp_content"])
                kw[kind] = self.make_import(kind)
            res = "fix %s %s -> %s" % (fl, list(kw), self.rec.fix(*fl, **kw)[1]["exit"])
            for p in kw.values():
                shutil.rmtree(p, ignore_errors=True)
            # the user removes the .unrecoverable leftovers (a second fix would rename them back and then stop
            # with "file ... disappeared": search.c:83, recorded as observation O1 in DESIGN.md)
            gone = []
            for d in range(self.conf.nd):
                for f in os.listdir(self.a.ddir(d)):
                    if f.endswith(".unrecoverable"):
                        os.remove(os.path.join(self.a.ddir(d), f))
                        gone.append("%d/%s" % (d, f))
            if gone:
                self.steps.append(res)
                self.rec.env("cleanup " + " ".join(gone))
                return "cleanup " + " ".join(gone)
            return res
        if name == "scrub":
            plan = self.rng.choice(["full", "full", "new", "bad", "pct100"])
            rules = ["pread,/p,0,shortread,%d" % self.rng.choice([1, 700, 1023])] if self.profile == "detect" and self.rng.random() < 0.3 else None
            return "scrub %s%s -> %s" % (plan, " short reads" if rules else "", self.rec.scrub(plan, rules=rules)[1]["exit"])
        if name == "diff":
            return "diff -> %s" % self.rec.diff()[1]["exit"]
        if name == "list":
            return "list -> rc %s" % self.rec.list()[1]["rc"]
        if name == "rehashcmd":
            return "rehash command -> %s" % self.rec.rehash()[1]["exit"]
        if name == "touchcmd":
            return "touch command -> %s" % self.rec.touch()[1]["exit"]

    WEIGHTS = {
        "mixed": [("reinode", 3), ("add", 20), ("touchcmd", 3), ("touch", 4), ("delete", 8), ("corrupt", 6), ("corrupt_parity", 4), ("lose_disk", 2),
                  ("lose_parity", 2), ("sync", 22), ("check", 8), ("fix", 10), ("scrub", 8), ("diff", 4)],
        "syncheavy": [("add", 30), ("touchcmd", 3), ("touch", 6), ("delete", 14), ("restore", 8), ("sync", 40), ("diff", 5), ("check", 5)],
        "ranges": [("add", 18), ("touch", 3), ("delete", 8), ("corrupt", 5), ("corrupt_parity", 3), ("lose_disk", 2),
                   ("lose_parity", 1), ("sync", 26), ("check", 8), ("fix", 14), ("scrub", 4), ("diff", 2)],
        "copy": [("add", 14), ("copy", 16), ("touch", 3), ("delete", 8), ("corrupt", 3), ("lose_disk", 2),
                 ("sync", 28), ("check", 6), ("fix", 8), ("diff", 4)],
        "c11": [("add", 10), ("samesize", 5), ("append", 5), ("truncate", 4), ("delete", 6), ("rename", 8), ("move", 6), ("copy", 4),
                ("replace_kind", 6), ("symlink", 6), ("hardlink", 5), ("dir", 5), ("touch", 4), ("nsec", 2), ("touchcmd", 2),
                ("restore", 6), ("samesec", 4), ("sync", 16), ("diff", 10), ("list", 6), ("check", 4)],
        "c19": [("samesec", 6), ("replace", 6), ("add", 12), ("copy", 16), ("move", 10), ("nsec", 6), ("touch", 2), ("delete", 6), ("corrupt", 3), ("lose_disk", 3),
                ("sync", 26), ("check", 5), ("fix", 12), ("diff", 2)],
        "filters": [("reinode", 4), ("add", 12), ("touch", 2), ("delete", 10), ("corrupt", 14), ("corrupt_burst", 3), ("corrupt_parity", 5),
                    ("lose_disk", 3), ("lose_parity", 3), ("sync", 14), ("check", 12), ("fix", 22), ("scrub", 14), ("diff", 1)],
        "rehash": [("add", 14), ("copy", 5), ("touch", 2), ("delete", 8), ("corrupt", 6), ("corrupt_parity", 2), ("lose_disk", 2),
                   ("sync", 20), ("check", 6), ("fix", 8), ("scrub", 12), ("diff", 2), ("rehashcmd", 10)],
        "inodes": [("uuidoff", 4), ("swapinodes", 5), ("uuidswap", 3), ("add", 14), ("mv", 14), ("swapnames", 8), ("twin", 6), ("reinode", 6), ("samesize", 4), ("samesec", 3), ("touch", 3),
                   ("delete", 6), ("restore", 3), ("sync", 20), ("diff", 8), ("check", 5), ("list", 2), ("fix", 7), ("corrupt", 3)],
        "detect": [("reinode", 2), ("touch", 3), ("rehashcmd", 2), ("add", 8), ("delete", 3), ("corrupt", 14), ("corrupt_burst", 10), ("corrupt_parity", 14), ("sync", 14),
                   ("check", 18), ("scrub", 14), ("fix", 6)],
        "damage": [("reinode", 3), ("add", 10), ("delete", 6), ("corrupt", 14), ("corrupt_parity", 8), ("lose_disk", 6), ("lose_parity", 5),
                   ("sync", 18), ("check", 10), ("fix", 16), ("scrub", 8)],
    }

    # ---- C01: build a fragmented, clean array; damage at most NP devices (or NP blocks per stripe); fix; check
    def c01_history(self, rounds=2):
        rng = self.rng
        for _ in range(rounds):
            # growth phase with deletions and partial syncs -> fragmented allocation
            for _ in range(rng.randint(2, 5)):
                for _ in range(rng.randint(1, 3)):
                    desc = rng.choice([self.op_add, self.op_add, self.op_add, self.op_delete, self.op_delete, self.op_touch, self.op_touch,
                                       self.op_symlink, self.op_hardlink, self.op_dir])()
                    if desc:
                        self.rec.env(desc)
                        self.steps.append(desc)
                self.a.clock += 10
                r, out = self.rec.sync(*(["-E"] if rng.random() < 0.5 else []))
                self.steps.append("sync -> %s" % out["exit"])
                # a hash migration may be in progress when the last sync is made (part of the stripes still carry hashes
                # of the previous function)
                if rng.random() < 0.2:
                    self.steps.append("rehash command -> %s" % self.rec.rehash()[1]["exit"])
            r, out = self.rec.sync("-E")
            self.steps.append("sync -E -> %s" % out["exit"])
            if out["exit"] != "ok":
                return
            st = self.recorded()
            npar, nd = self.conf.np, self.conf.nd
            mode = rng.choice(["devices", "devices", "stripes"])
            if mode == "devices":
                k = rng.randint(1, npar)
                devs = rng.sample([("d", i) for i in range(nd)] + [("p", l) for l in range(npar)], min(k, nd + npar))
                for kind, i in devs:
                    if kind == "d":
                        how = rng.choice(["lose", "lose", "files", "corrupt", "swap", "swap"])
                        pairs = []
                        if how == "swap":
                            fl = st["fs"][str(i)]
                            pairs = [(x, y) for x in sorted(fl) for y in sorted(fl) if x < y and fl[x]["sz"] == fl[y]["sz"]
                                     and fl[x]["mt"] != fl[y]["mt"] and fl[x]["sz"] > 0]
                            if not pairs:
                                how = "lose"
                        if how == "swap":
                            # the directory entries of two files of the same size are exchanged (what a rebuilt disk whose files
                            # got their inodes in another order looks like): each name now has the bytes, the time stamp and the
                            # inode recorded for the other
                            x, y = rng.choice(pairs)
                            px, py = self.a.path(i, x), self.a.path(i, y)
                            os.rename(px, px + ".swap"); os.rename(py, px); os.rename(px + ".swap", py)
                            desc = "swap %d/%s <-> %s" % (i, x, y)
                        elif how == "lose":
                            self.a.lose_disk(i); desc = "lose disk %d" % i
                        elif how == "files":
                            gone = [f for f in self.files(i) if rng.random() < 0.6]
                            for f in gone:
                                self.a.remove(i, f)
                            desc = "delete %d/%s" % (i, ",".join(gone))
                        else:
                            done = []
                            for n, f in st["fs"][str(i)].items():
                                for b in range(len(f["b"])):
                                    if rng.random() < 0.5:
                                        full = f["sz"] - b * arr.BS >= arr.BS
                                        self.a.corrupt_block(i, n, b, rng.choice(["flip", "byte", "whole"] + (["zero"] if full else [])))
                                        done.append("%s[%d]" % (n, b))
                            desc = "corrupt on disk %d: %s" % (i, " ".join(done))
                    else:
                        if rng.random() < 0.6:
                            self.a.lose_parity(i); desc = "lose parity %d" % i
                        else:
                            npos = len(st["par"][i])
                            hit = [p for p in range(npos) if rng.random() < 0.6]
                            for p in hit:
                                self.a.corrupt_parity(i, p, rng.choice(["flip", "zero", "whole"]))
                            desc = "corrupt parity %d at %s" % (i, hit)
                    self.rec.env(desc, damage=True)
                    self.steps.append(desc)
            else:
                # per stripe: up to NP damaged blocks chosen independently among data blocks and parity blocks
                npos = len(st["info"])
                where = {}
                for d in self.rec.D:
                    for n, f in st["cf"][d].items():
                        for i, b in enumerate(f["bl"]):
                            where[(int(d), b["pos"])] = (n, i, f["sz"])
                done = []
                for p in range(npos):
                    cands = [("d", d) for d in range(nd) if (d, p) in where] + [("p", l) for l in range(npar)]
                    for kind, i in rng.sample(cands, min(len(cands), rng.randint(0, npar))):
                        if kind == "d":
                            n, bi, sz = where[(i, p)]
                            full = sz - bi * arr.BS >= arr.BS
                            self.a.corrupt_block(i, n, bi, rng.choice(["flip", "byte", "whole"] + (["zero"] if full else [])))
                            done.append("d%d/%s[%d]" % (i, n, bi))
                        else:
                            self.a.corrupt_parity(i, p, rng.choice(["flip", "zero", "whole"]))
                            done.append("p%d@%d" % (i, p))
                desc = "stripe damage " + " ".join(done)
                self.rec.env(desc, damage=True)
                self.steps.append(desc)
            self.a.clock += 10
            r, out = self.rec.fix()
            self.rec.lines[-1]["args"]["expect_c01"] = True
            self.steps.append("fix -> %s" % out["exit"])
            r, out = self.rec.check()
            self.steps.append("check -> %s" % out["exit"])

    # ---- histories of interrupted / partial syncs followed by damage and fix (C05, C06): a small grammar, sampled
    def grammar_history(self):
        rng, a, rec = self.rng, self.a, self.rec
        nd = self.conf.nd

        def note(desc, damage=False):
            rec.env(desc, damage=damage); self.steps.append(desc)

        def wr(d, n, nblk=None):
            vals = self.content(nblk if nblk is not None else rng.randint(1, 3))
            a.write_file(d, n, vals, mtime=self.stamp())
            return "write %d/%s %r" % (d, n, vals)

        def do_sync(kind):
            a.clock += 10
            st = self.recorded()
            bm = max(len(st["info"]), 1)
            if kind == "normal":
                r, o = rec.sync("-E"); self.steps.append("sync -E -> %s" % o["exit"])
            elif kind == "killafter":
                r, o = rec.sync("-E", "--test-kill-after-sync"); self.steps.append("sync killed after parity -> %s" % o["exit"])
            elif kind == "presavekill":
                rec.sync_killed(["rename,c%d/content,1,killa" % (self.conf.copies - 1)], "-E")
                self.steps.append("sync killed after the pre-save")
            elif kind == "range":
                s0 = rng.randrange(0, bm + 1); c = rng.randint(1, bm)
                r, o = rec.sync("-E", "-S", str(s0), "-B", str(c)); self.steps.append("sync -S %d -B %d -> %s" % (s0, c, o["exit"]))
            elif kind == "midrm":
                cands = [(d, f) for d in range(nd) for f in self.files(d)]
                d, f = rng.choice(cands)
                data = open(a.path(d, f), "rb").read(); stt = os.lstat(a.path(d, f))
                r, o = rec.sync("-E", midrun="rm -f '%s'" % a.path(d, f))
                self.steps.append("sync with %d/%s vanishing after the scan -> %s" % (d, f, o["exit"]))
                if rng.random() < 0.7:
                    with open(a.path(d, f), "wb") as fh:
                        fh.write(data)
                    os.utime(a.path(d, f), ns=(stt.st_mtime_ns, stt.st_mtime_ns))
                    note("restore %d/%s with its time stamp" % (d, f))
            elif kind == "autosavekill":
                rec.sync_killed(["pwrite,/p,0,delay,150", "rename,c%d/content,2,killa" % (self.conf.copies - 1)], "-E",
                                "--test-io-cache", "3", "--test-force-autosave-at", str(rng.randrange(0, bm + 1)),
                                autosave_at=None)
                self.steps.append("sync with forced autosave, killed after it")

        def edit():
            k = rng.choice(["delete", "replace", "add", "add_other", "modify", "resize", "none"])
            d = rng.randrange(nd)
            fl = [f for f in self.files(d) if f != "zz"]
            if k == "delete" and fl:
                n = rng.choice(fl); a.remove(d, n); note("delete %d/%s" % (d, n))
            elif k == "replace" and fl:
                n = rng.choice(fl); a.remove(d, n); note("delete %d/%s, then %s" % (d, n, wr(d, rng.choice(self.names))))
            elif k in ("add", "add_other"):
                note(wr(d, rng.choice(self.names)))
            elif k == "modify" and fl:
                n = rng.choice(fl)
                nb = (os.path.getsize(a.path(d, n)) + arr.BS - 1) // arr.BS
                note(wr(d, n, nb))
            elif k == "resize" and fl:
                note(wr(d, rng.choice(fl)))

        # base array
        for d in range(nd):
            note(wr(d, "A", rng.randint(1, 3)))
        do_sync("normal")
        for _ in range(rng.randint(1, 3)):
            for _ in range(rng.randint(1, 2)):
                edit()
            do_sync(rng.choice(["killafter", "presavekill", "range", "range", "midrm", "normal"]))
        # damage
        st = self.recorded()
        recfiles = [(int(d), n) for d in rec.D for n in st["cf"][d] if n in st["fs"][d]]
        k = rng.choice(["file", "file", "two", "disk", "corrupt"])
        if k == "disk" or not recfiles:
            d = rng.randrange(nd); a.lose_disk(d); note("lose disk %d" % d, damage=True)
        elif k == "corrupt":
            desc = self.op_corrupt()
            if desc:
                note(desc, damage=True)
        else:
            for d, n in rng.sample(recfiles, min(len(recfiles), 1 if k == "file" else 2)):
                a.remove(d, n); note("lose %d/%s" % (d, n), damage=True)
        a.clock += 10
        r, o = rec.fix(); self.steps.append("fix -> %s" % o["exit"])
        r, o = rec.check(); self.steps.append("check -> %s" % o["exit"])

    # ---- filtered fixes: damage of several kinds, optionally found by scrub first, then fix under a filter, then a plain fix
    def filters_round(self):
        rng = self.rng
        for _ in range(rng.randint(1, 3)):
            desc = rng.choice([self.op_add, self.op_add, self.op_delete, self.op_touch])()
            if desc:
                self.rec.env(desc); self.steps.append(desc)
        self.a.clock += 10
        self.steps.append(self.cmd_sync())
        if rng.random() < 0.7:
            self.a.clock += 10
            r, out = self.rec.sync(); self.steps.append("sync -> %s" % out["exit"])
        for _ in range(rng.randint(1, 4)):
            name = rng.choice(["corrupt", "corrupt", "corrupt", "corrupt_burst", "corrupt_parity", "delete", "delete", "lose_disk",
                               "lose_parity", "add"])
            desc = getattr(self, "op_" + name)()
            if desc:
                self.rec.env(desc, damage=name not in ("add",)); self.steps.append(desc)
            if name.startswith("corrupt") and rng.random() < 0.6:
                self.steps.append(self.cmd("scrub"))
                m = re.match(r"corrupt (\d+)/(\S+?)\[", desc or "")
                if m and rng.random() < 0.5 and os.path.exists(self.a.path(int(m.group(1)), m.group(2))):
                    # the user removes the file that scrub has found damaged
                    self.a.remove(int(m.group(1)), m.group(2))
                    desc = "delete %s/%s" % (m.group(1), m.group(2))
                    self.rec.env(desc, damage=True); self.steps.append(desc)
                elif rng.random() < 0.3:
                    desc = self.op_touch()
                    if desc:
                        self.rec.env(desc); self.steps.append(desc)
        for _ in range(rng.randint(1, 2)):
            self.steps.append(self.cmd("fix"))
        if rng.random() < 0.6:
            self.a.clock += 10
            r, out = self.rec.fix(); self.steps.append("fix -> %s" % out["exit"])
            self._cleanup_unrec()
            r, out = self.rec.check(); self.steps.append("check -> %s" % out["exit"])

    def _cleanup_unrec(self):
        gone = []
        for d in range(self.conf.nd):
            for f in os.listdir(self.a.ddir(d)):
                if f.endswith(".unrecoverable"):
                    os.remove(os.path.join(self.a.ddir(d), f))
                    gone.append("%d/%s" % (d, f))
        if gone:
            self.rec.env("cleanup " + " ".join(gone)); self.steps.append("cleanup " + " ".join(gone))

    def step(self):
        ops = self.WEIGHTS[self.profile]
        tot = sum(w for _, w in ops)
        x = self.rng.uniform(0, tot)
        for name, w in ops:
            x -= w
            if x <= 0:
                break
        if name == "sync":
            desc = self.cmd_sync()
        elif name in ("check", "fix", "scrub", "diff", "touchcmd", "list", "rehashcmd"):
            desc = self.cmd(name)
        else:
            self._silent = False
            desc = getattr(self, "op_" + name)()
            if desc is None:
                return
            self.rec.env(desc, damage=name in ("corrupt", "corrupt_burst", "corrupt_parity", "lose_disk", "lose_parity", "swapinodes")
                         or bool(self._silent))
        self.steps.append(desc)

    def run(self, n):
        if self.profile == "c01":
            self.c01_history(rounds=max(1, n // 12))
            return self.rec
        if self.profile == "grammar":
            self.grammar_history()
            return self.rec
        if self.profile == "filters" and self.structured:
            for _ in range(max(2, n // 8)):
                self.filters_round()
            return self.rec
        for _ in range(n):
            self.step()
        return self.rec

    def close(self):
        self.a.destroy()


# ---------------------------------------------------------------------------------------
# TLC validation of recorded traces

def validate(recs, tag, invariants=("Conforms", "NoPropertyViolation", "C06_ParityValid", "C06_MapSane"), keep=False, timeout=600):
    """returns dict(accepted, violated, line, diag, states, out, path)"""
    os.makedirs(os.path.join(vlib.OUT, "traces"), exist_ok=True)
    path = os.path.join(vlib.OUT, "traces", tag + ".ndjson")
    known = sorted({(k["property"], k["signature"]) for k in vlib.load_known_findings() if k["status"] == "open"})
    n = recorder.write_traces(path, recs, known=known)
    cfg = os.path.join(vlib.OUT, "traces", tag + ".cfg")
    with open(cfg, "w") as f:
        f.write("SPECIFICATION Spec\n")
        for inv in invariants:
            f.write("INVARIANT %s\n" % inv)
        f.write("POSTCONDITION Accepted\nCHECK_DEADLOCK FALSE\n")
    res = vlib.run_tlc("ArrayTrace", cfg=cfg, workers=1, env={"TRACE": path}, timeout=timeout, tag=tag, xmx="4g")
    out = {"path": path, "lines": n, "states": res.distinct, "generated": res.generated, "violated": res.violated,
           "error": res.error, "accepted": False, "line": None, "diag": None, "pviol": None, "raw": res.out[-6000:],
           # occurrences of recorded known findings: (property, signature, 1-based line of the trace file)
           "known_hits": [(a, b, int(c)) for a, b, c in re.findall(r'<<"KNOWN-HIT", "(C\d\d)", "([^"]+)", (\d+)>>', res.out)],
           # replayed witness histories whose fix did not go through the branch they were generated for
           "witness_miss": sorted(set(re.findall(r'<<"WITNESS-MISS", (\d+), "([^"]+)">>', res.out)))}
    if res.violated:
        m = re.findall(r"/\\ l = (\d+)", res.out)
        if m:
            out["line"] = int(m[-1]) - 1      # the line consumed by the last step
        m = re.search(r"/\\ diag = (.*?)(?=\n/\\ |\n\n|\Z)", res.out[res.out.rfind("State "):], re.S) if "State " in res.out else None
        if m:
            out["diag"] = m.group(1)[:4000]
        last = res.out[res.out.rfind("State "):] if "State " in res.out else ""
        m = re.search(r"/\\ pviol = (.*?)(?=\n/\\ |\n\n|\Z)", last, re.S)
        out["pviol"] = m.group(1)[:4000] if m else None
        out["error"] = None
    elif res.error is None and res.distinct == n:
        out["accepted"] = True
    elif res.error is None:
        out["error"] = "trace not fully consumed (%d of %d)" % (res.distinct, n)
    if out["accepted"] and not keep:
        os.remove(path)
        os.remove(cfg)
    return out
