#!/usr/bin/env python3
"""Witness tables for GF(2^8)/0x11d and the two SnapRAID generator matrices.

Everything here is computed from first principles (shift-and-reduce product, search for inverses,
the documented extended-Cauchy construction); nothing is read from /repo/raid/tables.c.  The tables are
only *witnesses*: TLC checks every entry against the non-recursive defining equations of
spec/GF256.tla and spec/RaidCode.tla before any harness is allowed to use them (props/C02.py, C03.py).

  gfwitness.py <dir>      writes <dir>/witness_gf.json   {exp, log, inv, mul}
                                 <dir>/witness_mat.json  {cauchy (6 x 251), power (3 x 251)}
JSON arrays become 1-based TLA+ sequences (index i+1 holds the entry for i).
The binary blob for the C harness (write_blob) is produced from the JSON files after TLC accepted them.
"""
import hashlib, json, os, struct, sys

POLY = 0x11d
NDISK = 251
NPAR = 6


def gmul(a, b):
    """Carry-less product reduced modulo x^8+x^4+x^3+x^2+1, bit by bit."""
    r = 0
    while b:
        if b & 1:
            r ^= a
        a <<= 1
        if a & 0x100:
            a ^= POLY
        b >>= 1
    return r


def tables():
    mul = [[gmul(a, b) for b in range(256)] for a in range(256)]
    exp = [1]
    for _ in range(255):
        exp.append(gmul(exp[-1], 2))          # exp[255] = 2^255 = 1
    log = [0] * 256                            # log[0] is a don't care, stored as 0
    for i in range(255):
        log[exp[i]] = i
    inv = [0] * 256                            # inv[0] := 0 by convention
    for a in range(1, 256):
        inv[a] = next(b for b in range(1, 256) if mul[a][b] == 1)
    return exp, log, inv, mul


def matrices(exp, inv, mul):
    # extended Cauchy: row 0 all ones; row j>=1: 1/(x_i + y_j) with x_i = 2^-i, y_1 = 0, y_j = 2^(j-1);
    # rows 2.. scaled by the inverse of their first element
    x = [inv[exp[i]] for i in range(NDISK)]
    y = [None, 0] + [exp[j - 1] for j in range(2, NPAR)]
    cauchy = [[1] * NDISK]
    for j in range(1, NPAR):
        raw = [inv[x[i] ^ y[j]] for i in range(NDISK)]
        f = inv[raw[0]]
        cauchy.append([mul[raw[i]][f] for i in range(NDISK)])
    power = [[1] * NDISK, [exp[i] for i in range(NDISK)], [inv[exp[i]] for i in range(NDISK)]]
    return cauchy, power


def generate(outdir):
    exp, log, inv, mul = tables()
    cauchy, power = matrices(exp, inv, mul)
    os.makedirs(outdir, exist_ok=True)
    p1 = os.path.join(outdir, "witness_gf.json")
    p2 = os.path.join(outdir, "witness_mat.json")
    with open(p1, "w") as f:
        json.dump({"exp": exp, "log": log, "inv": inv, "mul": mul}, f, separators=(",", ":"))
    with open(p2, "w") as f:
        json.dump({"cauchy": cauchy, "power": power}, f, separators=(",", ":"))
    return p1, p2


def sha(path):
    return hashlib.sha256(open(path, "rb").read()).hexdigest()


def write_blob(gf_json, mat_json, blob):
    """Binary form of the (TLC-validated) JSON witnesses for harness/c/raid_conf.c."""
    g = json.load(open(gf_json))
    m = json.load(open(mat_json))
    b = bytearray(b"GFW1")
    b += bytes(g["exp"]) + bytes(g["log"]) + bytes(g["inv"])
    for row in g["mul"]:
        b += bytes(row)
    for row in m["cauchy"]:
        assert len(row) == NDISK
        b += bytes(row)
    for row in m["power"]:
        assert len(row) == NDISK
        b += bytes(row)
    assert len(b) == 4 + 3 * 256 + 65536 + 9 * NDISK
    with open(blob, "wb") as f:
        f.write(b)
    return blob


if __name__ == "__main__":
    d = sys.argv[1] if len(sys.argv) > 1 else "."
    for p in generate(d):
        print(p, sha(p))
