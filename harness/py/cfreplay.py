#!/usr/bin/env python3
"""Re-execute a replay file written by props/C09.py (damaged content file) or props/C10.py (spec -> code case):
rebuilds the array configuration of the replay in a fresh scratch directory, installs the recorded content bytes
and runs the recorded command(s) with the rebuilt snapraid (ASan build for C09).

usage: cfreplay.py <replay.json>        exit 1 when the violation reproduces, 0 when it does not"""
import json, os, re, shutil, subprocess, sys

sys.path.insert(0, os.path.dirname(os.path.abspath(__file__)))
import vlib, cfarr


def _array(conf_text):
    m = re.search(r"^content (.*)/c0/content$", conf_text, re.M)
    old = m.group(1)
    root = vlib.scratch_root()
    text = conf_text.replace(old, root)
    for line in text.splitlines():
        w = line.split()
        if not w:
            continue
        if w[0] == "content":
            os.makedirs(os.path.dirname(w[1]), exist_ok=True)
        elif w[0] == "data":
            os.makedirs(w[2], exist_ok=True)
        elif w[0].endswith("parity"):
            for p in w[1].split(","):
                os.makedirs(os.path.dirname(os.path.join(root, p)), exist_ok=True)
    conf = os.path.join(root, "snapraid.conf")
    with open(conf, "w") as f:
        f.write(text)
    copies = [w.split()[1] for w in text.splitlines() if w.startswith("content ")]
    return root, conf, copies


def main(argv):
    rep = json.load(open(argv[0]))
    pid, r = rep["property"], rep["replay"]
    if not isinstance(r, dict) or "conf" not in r:
        print("this replay has no array to rebuild; see its fields:", list(r) if isinstance(r, dict) else type(r))
        return 2
    root, conf, copies = _array(r["conf"])
    try:
        if pid == "C09":
            binary = vlib.build("asan")
            dmg = bytes.fromhex(r["damaged"])
            orig = bytes.fromhex(r["original"])
            for i, c in enumerate(copies):
                with open(c, "wb") as f:
                    f.write(dmg if (r["mode"] == "all" or i == 0) else orig)
            p = subprocess.run([binary, "-c", conf] + cfarr.FLAGS + r["command"], cwd=root, stdout=subprocess.PIPE,
                               stderr=subprocess.PIPE, timeout=30)
            err = p.stderr.decode("latin1")
            print("exit", p.returncode)
            print(err[-2000:])
            bad = p.returncode == 0 or any(m in err for m in cfarr.SAN_MARKS)
            print("REPRODUCED" if bad else "not reproduced (rejected cleanly)")
            return 1 if bad else 0
        binary = vlib.build("hooks")
        shim = vlib.build_shim()
        raw, exp = bytes.fromhex(r["raw"]), bytes.fromhex(r["expected"])
        for c in copies:
            with open(c, "wb") as f:
                f.write(raw)
        env = dict(os.environ, LD_PRELOAD=shim, VSHIM_ROOT=root, VSHIM_STATFS="1", VSHIM_TIME="1601000000")
        p = subprocess.run([binary, "-c", conf] + cfarr.FLAGS + ["test-rewrite"], cwd=root, env=env,
                           stdout=subprocess.PIPE, stderr=subprocess.PIPE, timeout=3000)
        got = open(copies[0], "rb").read()
        print("test-rewrite exit", p.returncode, "bytes equal to Encode(s):", got == exp)
        print(p.stderr.decode("latin1")[-1500:])
        for cmd in (["list"], ["status", "-G"], ["diff"]):
            log = os.path.join(root, "log")
            q = subprocess.run([binary, "-c", conf] + cfarr.FLAGS + ["-l", log] + cmd, cwd=root, env=env,
                               stdout=subprocess.PIPE, stderr=subprocess.PIPE, timeout=3000)
            print(" ".join(cmd), "exit", q.returncode)
            if os.path.exists(log):
                print(open(log, "rb").read().decode("latin1")[-1500:])
                os.remove(log)
        bad = p.returncode != 0 or got != exp
        print("REPRODUCED (rewrite)" if bad else "rewrite reproduces the bytes; compare the reports above with replay['state']")
        return 1 if bad else 0
    finally:
        shutil.rmtree(root, ignore_errors=True)


if __name__ == "__main__":
    sys.exit(main(sys.argv[1:]))
