"""Helpers of property C16 shared by the generator of /verif/golden (golden_gen.py) and the check (props/C16.py):
the documented PRNG of the vector inputs, the vector file parser, the independent recomputation of every vector
in Python (hashes.murmur3, spooky2.spooky128, content.crc32c, gf.parity_block), packing / unpacking of golden
arrays, tree manifests and the projection of a decoded content file used to compare states."""
import glob, hashlib, io, json, os, stat, struct, tarfile

import vlib, content, gf, hashes, spooky2

VERIF = os.path.abspath(os.path.join(os.path.dirname(__file__), "..", ".."))
GOLDEN = os.path.join(VERIF, "golden")
ARRAYS = os.path.join(GOLDEN, "arrays")
VECTORS = os.path.join(GOLDEN, "vectors", "vectors.txt")

M64 = 0xFFFFFFFFFFFFFFFF
CRC1_INIT = 0xC16C16C1
LMAX = 1100
NSEED = 4


# ---------------------------------------------------------------------------------------------------------
# SplitMix64 streams (same definition as harness/c/golden_conf.c)

def sm_fill(n, key):
    out = bytearray()
    s = key & M64
    while len(out) < n:
        s = (s + 0x9E3779B97F4A7C15) & M64
        z = s
        z = ((z ^ (z >> 30)) * 0xBF58476D1CE4E5B9) & M64
        z = ((z ^ (z >> 27)) * 0x94D049BB133111EB) & M64
        z ^= z >> 31
        out += struct.pack("<Q", z)
    return bytes(out[:n])


def hash_seed(s):
    if s == 0:
        return b"\x00" * 16
    if s == 1:
        return b"\xff" * 16
    return sm_fill(16, (0xC165 << 48) | s)


def digest_input(s, length):
    return sm_fill(length, (0xC16D << 48) | (s << 32) | length)


def raid_block(r, nd, b, d):
    return sm_fill(b, (0xC16A << 48) | (r << 32) | (nd << 16) | ((b // 64) << 8) | d)


# ---------------------------------------------------------------------------------------------------------
# vectors

def parse_vectors(path=VECTORS):
    """-> (digests, parities): digests = [(s, L, murmur3, spooky2, metro, crc0, crc1)] (digests as bytes),
    parities = [(mode, r, nd, b, parity bytes)]"""
    D, R = [], []
    with open(path) as f:
        for line in f:
            if not line.strip() or line[0] == '#':
                continue
            t = line.split()
            if t[0] == 'D':
                D.append((int(t[1]), int(t[2]), bytes.fromhex(t[3]), bytes.fromhex(t[4]), bytes.fromhex(t[5]),
                          int(t[6], 16), int(t[7], 16)))
            elif t[0] == 'R':
                R.append((t[1], int(t[2]), int(t[3]), int(t[4]), bytes.fromhex(t[5])))
            else:
                raise ValueError("bad vector line " + line[:40])
    return D, R


def python_recompute(D, R):
    """Recompute every vector with the independent Python implementations.
    Returns the list of vector ids that disagree (empty = doubly anchored)."""
    bad = []
    for (s, L, m3, sp, metro, c0, c1) in D:
        seed = hash_seed(s)
        data = digest_input(s, L)
        if hashes.murmur3(data, seed) != m3:
            bad.append("murmur3/s%d/L%d" % (s, L))
        if spooky2.spooky128(data, seed) != sp:
            bad.append("spooky2/s%d/L%d" % (s, L))
        if content.crc32c(data, 0) != c0:
            bad.append("crc32c/i0/s%d/L%d" % (s, L))
        if content.crc32c(data, CRC1_INIT) != c1:
            bad.append("crc32c/i1/s%d/L%d" % (s, L))
    for (mode, r, nd, b, par) in R:
        np_ = 3 if mode == 'z' else 6
        blocks = {d: raid_block(r, nd, b, d) for d in range(nd)}
        for l in range(np_):
            if gf.parity_block(l, blocks, zmode=(mode == 'z'), size=b) != par[l * b:(l + 1) * b]:
                bad.append("parity/%s/r%d/nd%d/b%d/level%d" % (mode, r, nd, b, l))
    return bad


# ---------------------------------------------------------------------------------------------------------
# golden arrays: <name>.tar.gz (tree d*/ p*/ c*/ as written by the reference build) + <name>.json (manifest)

def enc(b):
    """bytes path -> json-safe str (latin-1, reversible)"""
    return b.decode("latin1")


def dec(s):
    return s.encode("latin1")


def tree_manifest(root_b):
    """Manifest of one directory tree (bytes path): list of entries sorted by path.
       file: {path, type:'f', size, mtime_ns, sha256, nlink_group}; symlink: {path, type:'l', target};
       dir: {path, type:'d'}.  Paths are relative, latin-1 decoded."""
    ents = []
    inos = {}
    for dp, dn, fn in os.walk(root_b):
        dn.sort()
        for n in sorted(dn + fn):
            p = os.path.join(dp, n)
            rel = os.path.relpath(p, root_b)
            st = os.lstat(p)
            if stat.S_ISLNK(st.st_mode):
                ents.append({"path": enc(rel), "type": "l", "target": enc(os.readlink(p))})
            elif stat.S_ISDIR(st.st_mode):
                ents.append({"path": enc(rel), "type": "d"})
            elif stat.S_ISREG(st.st_mode):
                with open(p, "rb") as f:
                    h = hashlib.sha256(f.read()).hexdigest()
                e = {"path": enc(rel), "type": "f", "size": st.st_size, "mtime_ns": st.st_mtime_ns, "sha256": h}
                if st.st_nlink > 1:
                    e["hardlink_group"] = inos.setdefault(st.st_ino, enc(rel))
                ents.append(e)
    ents.sort(key=lambda e: e["path"])
    return ents


def pack(root, out_tgz, tops):
    """Deterministic tar.gz of the given top-level directories of root (names as raw bytes via surrogateescape)."""
    raw = io.BytesIO()
    with tarfile.open(fileobj=raw, mode="w", format=tarfile.GNU_FORMAT, encoding="utf-8",
                      errors="surrogateescape") as tf:
        def norm(ti):
            ti.uid = ti.gid = 0
            ti.uname = ti.gname = ""
            ti.mtime = int(ti.mtime)
            return ti
        for t in sorted(tops):
            tf.add(os.path.join(root, t), arcname=t, recursive=True, filter=norm)
    import gzip
    with open(out_tgz, "wb") as f:
        with gzip.GzipFile(fileobj=f, mode="wb", mtime=0, compresslevel=9, filename="") as g:
            g.write(raw.getvalue())


def unpack(name, dest):
    """Unpack golden array `name` below dest (must exist, empty); restore exact ns mtimes from the manifest;
    write snapraid.conf from the template. Returns the manifest."""
    man = load_manifest(name)
    with tarfile.open(os.path.join(ARRAYS, name + ".tar.gz"), mode="r:gz", encoding="utf-8",
                      errors="surrogateescape") as tf:
        for m in tf.getmembers():
            if m.name.startswith("/") or ".." in m.name.split("/"):
                raise ValueError("unsafe member in golden tar")
        try:
            tf.extractall(dest, filter="fully_trusted")
        except TypeError:
            tf.extractall(dest)
    dest_b = os.fsencode(dest)
    for dname, ents in man["data"].items():
        for e in ents:
            if e["type"] == "f":
                p = os.path.join(dest_b, dec(dname), dec(e["path"]))
                os.utime(p, ns=(e["mtime_ns"], e["mtime_ns"]))
    with open(os.path.join(dest, "snapraid.conf"), "w") as f:
        f.write(man["conf_template"].replace("ROOT", dest))
    return man


def load_manifest(name):
    with open(os.path.join(ARRAYS, name + ".json")) as f:
        return json.load(f)


def array_names():
    return sorted(n[:-5] for n in os.listdir(ARRAYS) if n.endswith(".json"))


# ---------------------------------------------------------------------------------------------------------
# projection of a decoded content file (what "the same state" means for C16)

def project(cs, with_inode=False, with_paths=False):
    """State carried by a content file, independent of the encoding details (run lengths, record order inside a
    disk is kept because the tool keeps it)."""
    def hx(b):
        return b.hex()
    disks = {}
    for idx in sorted(cs["disks"]):
        d = cs["disks"][idx]
        files = []
        for f in d["files"]:
            e = {"sub": enc(f["sub"]), "size": f["size"], "sec": f["mtime_sec"], "nsec": f["mtime_nsec"],
                 # a deprecated NEW block means "changed, the parity holds zeros here": the CHG state with the ZERO value
                 "blocks": [(p, "CHG" if st == "NEW" else st, hx(h)) for (p, st, h) in f["blocks"]]}
            if with_inode:
                e["inode"] = f["inode"]
            files.append(e)
        files.sort(key=lambda e: e["sub"])
        disks[enc(d["name"])] = {
            "pos": d["pos"], "files": files,
            "links": sorted((l["kind"], enc(l["sub"]), enc(l["linkto"])) for l in d["links"]),
            "dirs": sorted(enc(s) for s in d["dirs"]),
            "deleted": sorted((p, hx(h)) for p, h in d["deleted"].items())}
    par = []
    for p in cs["parity"]:
        e = {"level": p["level"], "sizes": [s["size"] for s in p["splits"]]}
        if with_paths:
            e["paths"] = [enc(s["path"]) if s["path"] is not None else None for s in p["splits"]]
        par.append(e)
    return {"block_size": cs["block_size"], "blockmax": cs["blockmax"], "hash_size": cs["hash_size"],
            "hash": (cs["hash"]["kind"], hx(cs["hash"]["seed"])),
            "prevhash": (cs["prevhash"]["kind"], hx(cs["prevhash"]["seed"])) if cs["prevhash"] else None,
            "maps": [(enc(m["name"]), m["pos"], enc(m["uuid"])) for m in cs["maps"]],
            "parity": par, "disks": disks,
            "info": [None if e is None else (e["t"], e["bad"], e["rehash"], e["justsynced"]) for e in cs["info"]]}


def diff_paths(a, b, path="", out=None, limit=8):
    """first differing paths between two projections (for messages)"""
    out = [] if out is None else out
    if len(out) >= limit:
        return out
    if type(a) != type(b):
        out.append("%s: %r != %r" % (path, a, b))
    elif isinstance(a, dict):
        for k in sorted(set(a) | set(b), key=str):
            if k not in a or k not in b:
                out.append("%s/%s: only on one side" % (path, k))
            else:
                diff_paths(a[k], b[k], path + "/" + str(k), out, limit)
    elif isinstance(a, (list, tuple)):
        if len(a) != len(b):
            out.append("%s: length %d != %d" % (path, len(a), len(b)))
        else:
            for i, (x, y) in enumerate(zip(a, b)):
                diff_paths(x, y, "%s[%d]" % (path, i), out, limit)
    elif a != b:
        out.append("%s: %r != %r" % (path, a, b))
    return out


# ---------------------------------------------------------------------------------------------------------
# C harness linked against the objects of the tree under test (everything but snapraid.o, which holds main)

def harness_objs():
    objdir = os.path.join(vlib.BUILD, "hooks", "obj")
    return sorted(o for o in glob.glob(os.path.join(objdir, "*.o")) if not o.endswith("cmdline_snapraid.o"))


def build_harness(name="golden_conf"):
    vlib.build("hooks")
    flags = []
    inc = os.path.join(vlib.BUILD, "hooks", "inc")
    if os.path.isdir(inc) and not os.path.exists(os.path.join(vlib.REPO, "config.h")):
        flags.append("-I" + inc)
    return vlib.cc_harness(name, [os.path.join(vlib.VERIF, "harness", "c", "golden_conf.c")], objs=harness_objs(),
                           flags=flags, libs=["-lblkid"])
