"""GF(2^8) (polynomial 0x11d) and the SnapRAID generator matrices, computed from the documented construction
(raid/mktables.c comments), never read from raid/tables.c.  When spec/witness/gf_tables.json (the tables TLC
verified against GF256.tla / RaidCode.tla) is present, the tables computed here are cross-checked against it."""
import json, os

EXP = [0] * 512
LOG = [0] * 256
_x = 1
for _i in range(255):
    EXP[_i] = _x
    LOG[_x] = _i
    _x <<= 1
    if _x & 0x100:
        _x ^= 0x11d
for _i in range(255, 512):
    EXP[_i] = EXP[_i - 255]


def mul(a, b):
    if a == 0 or b == 0:
        return 0
    return EXP[LOG[a] + LOG[b]]


def inv(a):
    return EXP[255 - LOG[a]]


def pow2(i):
    return EXP[i % 255]


NDISK = 251


def cauchy():
    m = [[1] * NDISK, [pow2(i) for i in range(NDISK)]]
    for j in range(4):
        y = pow2(j + 1)
        row = [inv(y ^ inv(pow2(i))) for i in range(NDISK)]
        f = inv(row[0])
        m.append([mul(v, f) for v in row])
    return m


def power():
    return [[1] * 255, [pow2(i) for i in range(255)], [inv(pow2(i)) for i in range(255)]]


CAUCHY = cauchy()
POWER = power()
_MULTAB = {}


def multab(c):
    t = _MULTAB.get(c)
    if t is None:
        t = bytes(mul(c, b) for b in range(256))
        _MULTAB[c] = t
    return t


def coef(level, col, zmode=False):
    return (POWER if zmode else CAUCHY)[level][col]


def parity_block(level, blocks, zmode=False, size=1024):
    """blocks: {column: bytes (padded to size)}; returns the parity block of `level`"""
    acc = 0
    for col, b in blocks.items():
        if len(b) < size:
            b = b + b"\0" * (size - len(b))
        c = coef(level, col, zmode)
        if c != 1:
            b = b.translate(multab(c))
        acc ^= int.from_bytes(b, "little")
    return acc.to_bytes(size, "little")
