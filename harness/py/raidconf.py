"""Shared machinery of the C02 / C03 checks (RAID parity algebra).

Flow of both checks:
  1. gfwitness.py computes the witness tables from first principles into a scratch directory;
  2. TLC checks them against spec/GF256.tla + spec/RaidCode.tla (Part = "witness"), C03 also runs
     Part = "minors" (theorem premises, determinants) and Part = "cases" (enumeration of the admissible
     index-set cases, each checked solvable, written as JSON);
  3. only then the witness JSON is turned into the binary blob that harness/c/raid_conf.c uses as its
     single oracle, the harness is linked against the raid_*.o objects built from $REPO's working tree,
     and its FAIL lines become VIOLATION lines.
"""
import concurrent.futures as cf
import glob, json, math, os, re, shutil, subprocess, sys, time

import vlib
import gfwitness

SPEC_FILES = ["GF256.tla", "RaidCode.tla"]
NSHARDS = min(16, os.cpu_count() or 4)


def build_dir():
    return os.environ.get("VERIF_BUILD", vlib.BUILD)


def prepare(tag):
    """Scratch dir with the spec, its configurations and freshly generated witnesses."""
    d = vlib.scratch_root()
    for f in SPEC_FILES:
        shutil.copy(os.path.join(vlib.SPEC, f), d)
    for f in glob.glob(os.path.join(vlib.SPEC, "RaidCode_*.cfg")) + [os.path.join(vlib.SPEC, "GF256.cfg")]:
        shutil.copy(f, d)
    gfj, matj = gfwitness.generate(d)
    return d, gfj, matj


def tlc_part(d, part, tier, timeout):
    cfg = "RaidCode_%s_%s.cfg" % (part, tier)
    res = vlib.run_tlc("RaidCode", cfg=cfg, cwd=d, workers=16, timeout=timeout, xmx="6g",
                       tag="RaidCode-%s-%s" % (part, tier))
    res.part = part
    res.job = None
    if res.violated:
        m = re.search(r'job = <<"(\w+)", (\d+), (\d+)>>', "\n".join(res.trace) or res.out)
        if m:
            res.job = (m.group(1), int(m.group(2)), int(m.group(3)))
    return res


def tlc_tail(res, n=25):
    lines = [l for l in res.out.splitlines() if not re.match(r"^(Semantic|Linting|Parsing|Computed|Warning)", l)]
    return "\n".join(lines[-n:])


def require_witness_ok(res):
    """The witness part judges OUR tables and definitions, never the code under test: a failure is a tool failure."""
    if res.error:
        raise vlib.ToolFailure("TLC (witness validation) failed: %s\n%s" % (res.error, tlc_tail(res)))
    if res.violated:
        raise vlib.ToolFailure("TLC rejected the witness tables (%s, job %s)\n%s" % (res.violated, res.job, tlc_tail(res)))
    if res.distinct < 2:
        raise vlib.ToolFailure("TLC (witness validation) explored nothing")


def build_harness(name):
    vlib.build("hooks")
    objdir = os.path.join(build_dir(), "hooks", "obj")
    objs = sorted(o for o in glob.glob(os.path.join(objdir, "raid_*.o")) if not o.endswith("raid_test.o"))
    if len(objs) < 8:
        raise vlib.ToolFailure("raid objects missing in " + objdir)
    flags = []
    inc = os.path.join(build_dir(), "hooks", "inc")
    if os.path.isdir(inc) and not os.path.exists(os.path.join(vlib.REPO, "config.h")):
        flags.append("-I" + inc)
    src = os.path.join(vlib.VERIF, "harness", "c", "raid_conf.c")
    newest = max(os.path.getmtime(o) for o in objs)
    exe = vlib.cc_harness(name, [src], objs=objs, flags=flags)
    return exe, {"objects": [os.path.basename(o) for o in objs], "objects_newest_mtime": newest}


class HarnessRun:
    def __init__(self):
        self.fails = []        # (kind, text, cmd)
        self.stats = {}
        self.samples = []
        self.skips = []
        self.crashed = 0
        self.cmds = []
        self.wall = 0.0

    def stat(self, k):
        return self.stats.get(k, 0)


def _one(cmd, timeout):
    t0 = time.time()
    try:
        p = subprocess.run(cmd, stdout=subprocess.PIPE, stderr=subprocess.PIPE, text=True, errors="replace",
                           timeout=timeout)
        return cmd, p.returncode, p.stdout, p.stderr, time.time() - t0
    except subprocess.TimeoutExpired as e:
        return cmd, 124, (e.stdout or b"").decode(errors="replace") if isinstance(e.stdout, bytes) else (e.stdout or ""), \
            "timeout", time.time() - t0


def run_harness(cmds, timeout, into=None):
    """Run harness commands in parallel; additive STATs are summed over the shards."""
    hr = into or HarnessRun()
    t0 = time.time()
    with cf.ThreadPoolExecutor(max_workers=NSHARDS) as ex:
        results = list(ex.map(lambda c: _one(c, timeout), cmds))
    for cmd, rc, out, err, wall in results:
        hr.cmds.append(" ".join(cmd))
        done = False
        for line in out.splitlines():
            if line.startswith("FAIL "):
                parts = line.split(" ", 2)
                hr.fails.append((parts[1], parts[2] if len(parts) > 2 else "", " ".join(cmd)))
            elif line.startswith("STAT "):
                _, k, v = line.split(" ", 2)
                hr.stats[k] = hr.stats.get(k, 0) + int(v)
            elif line.startswith("SAMPLE "):
                try:
                    hr.samples.append(json.loads(line[7:]))
                except ValueError:
                    hr.samples.append(line[7:])
            elif line.startswith("SKIP "):
                hr.skips.append(line[5:])
            elif line == "DONE":
                done = True
        if rc == 3 and any(f[0] == "crash" and f[2] == " ".join(cmd) for f in hr.fails):
            hr.crashed += 1          # the code under test crashed inside a call made within its contract
        elif rc != 0 or not done:
            raise vlib.ToolFailure("harness failed (rc=%s): %s\n%s" % (rc, " ".join(cmd), (err or out)[-2000:]))
    hr.wall += time.time() - t0
    return hr


def report_fails(v, hr, tier, extra=None, max_reports=8):
    """One VIOLATION per failure kind (with the first instance spelled out and the number of instances)."""
    by_kind = {}
    for kind, text, cmd in hr.fails:
        by_kind.setdefault(kind, []).append((text, cmd))
    total = hr.stat("failures") if hr.stat("failures") > len(hr.fails) else len(hr.fails)
    for i, (kind, items) in enumerate(sorted(by_kind.items())):
        if i >= max_reports:
            break
        text, cmd = items[0]
        what = "%s: %s   [%d reported instance(s) of this kind, %d failures in total]" % (kind, text, len(items), total)
        v.violation(what, {"harness_cmd": cmd, "env": {"REPO": vlib.REPO, "VERIF_SEED": vlib.seed(), "tier": tier},
                           "how": "./verif check %s %s   (or run harness_cmd after the check has rebuilt the "
                                  "harness; the witness blob is regenerated and re-validated by TLC on every run)"
                                  % (v.pid, tier),
                           "instances": [t for t, _ in items[:25]], "extra": extra})


def binom(n, k):
    return math.comb(n, k) if 0 <= k <= n else 0
