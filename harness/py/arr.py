"""Array builder and command executor: turns abstract actions into file-system operations and snapraid runs
on a real array in a scratch directory, and keeps the version store (every block value ever written)."""
import os, random, shutil, subprocess, hashlib, json, stat, time
import vlib, content

BS = 1024
LEVELS = ["parity", "2-parity", "3-parity", "4-parity", "5-parity", "6-parity"]
BASE_TIME = 1600000000        # all scenario time stamps are BASE_TIME + small offsets


class Conf:
    def __init__(self, nd=2, np=2, copies=2, hash_size=16, hash_kind="murmur3", splits=None, zmode=False,
                 holes=(), block_kib=1, autosave=0, extra=(), disk_names=None, nohidden=False, pool=False, inomode=False):
        self.nd, self.np, self.copies = nd, np, copies
        self.hash_size, self.hash_kind = hash_size, hash_kind
        self.splits = splits or [1] * np          # number of files per level
        self.zmode = zmode
        self.holes = tuple(holes)                 # not used yet (column holes are produced by removing a disk)
        self.block_kib = block_kib
        self.autosave = autosave
        self.extra = list(extra)                  # extra config lines
        self.disk_names = disk_names or ["d%d" % (i + 1) for i in range(nd)]
        self.nohidden = nohidden
        self.pool = pool
        # inode mode: every command gets --test-fake-uuid, which gives the first two data disks a UUID (the sandbox has none):
        # from the second sync on their recorded inode numbers are trusted by the scan (moves are recognised by inode)
        self.inomode = inomode

    def to_json(self):
        return dict(self.__dict__)


class Result:
    def __init__(self, rc, out, err, tags, trace, argv, timed_out=False):
        self.rc, self.out, self.err, self.tags, self.trace, self.argv = rc, out, err, tags, trace, argv
        self.timed_out = timed_out

    def tag(self, name):
        return [t for t in self.tags if t and t[0] == name]

    def summary(self):
        return {t[1]: (t[2] if len(t) > 2 else True) for t in self.tag("summary")}


def value_bytes(seed, cid, length=BS):
    """Deterministic pseudo-random content of block value `cid`."""
    out = bytearray()
    ctr = 0
    while len(out) < length:
        out += hashlib.sha256(b"%d/%d/%d" % (seed, cid, ctr)).digest()
        ctr += 1
    return bytes(out[:length])


class Array:
    """A real array in a scratch directory.

    Block values: value id v > 0 is BS pseudo-random bytes; a *short* value ('s', v) is the first slen(v) bytes
    of another stream.  Files are sequences of values; only the last may be short."""

    def __init__(self, conf, root=None, seed=1, binary=None, ext4=False):
        self.conf = conf
        self.seed = seed
        self.own_root = root is None
        self.root = root or (vlib.scratch_ext4() if ext4 else vlib.scratch_root())
        self.bin = binary or vlib.build("hooks")
        self.shim = vlib.build_shim()
        self.clock = BASE_TIME + 1000000   # controlled "now" (seconds), advanced by the driver
        self.store = {}                    # bytes -> value key
        self.jbytes = {}                   # digest -> bytes of junk values seen on disk
        self.jlen = {}
        self.store[b"\0" * BS] = 'Z'
        self.ncmd = 0
        self.urandom = os.path.join(self.root, "urandom")
        self.make_dirs()
        self.write_conf()

    # ---- layout
    def ddir(self, d):
        return os.path.join(self.root, self.conf.disk_names[d])

    def pfile(self, l, s=0):
        return os.path.join(self.root, "p%d" % l, "parity.%d" % s)

    def cfile(self, c):
        return os.path.join(self.root, "c%d" % c, "content")

    def conf_path(self):
        return os.path.join(self.root, "snapraid.conf")

    def make_dirs(self):
        for d in range(self.conf.nd):
            os.makedirs(self.ddir(d), exist_ok=True)
        for l in range(self.conf.np):
            os.makedirs(os.path.join(self.root, "p%d" % l), exist_ok=True)
        for c in range(self.conf.copies):
            os.makedirs(os.path.join(self.root, "c%d" % c), exist_ok=True)
        rnd = random.Random(self.seed * 7919 + 13)
        with open(self.urandom, "wb") as f:
            f.write(bytes(rnd.getrandbits(8) for _ in range(4096)))

    def write_conf(self, path=None, drop_disks=(), extra=()):
        c = self.conf
        lines = ["blocksize %d" % c.block_kib]
        if c.hash_size != 16:
            lines.append("hashsize %d" % c.hash_size)
        if c.autosave:
            lines.append("autosave %d" % c.autosave)
        for l in range(c.np):
            name = LEVELS[l] if not (c.zmode and l == 2) else "z-parity"
            lines.append("%s %s" % (name, ",".join(self.pfile(l, s) for s in range(c.splits[l]))))
        for k in range(c.copies):
            lines.append("content %s" % self.cfile(k))
        # data_reversed: the data lines in the opposite order (with --test-fake-uuid the UUID of a disk follows the position of
        # its line: reversing the lines is a change of UUID for the first two disks)
        for d in (reversed(range(c.nd)) if getattr(self, "data_reversed", False) else range(c.nd)):
            if d in drop_disks:
                continue
            lines.append("data %s %s/" % (c.disk_names[d], self.ddir(d)))
        if c.nohidden:
            lines.append("nohidden")
        if c.pool:
            lines.append("pool %s" % os.path.join(self.root, "pool"))
        lines += c.extra
        lines += list(extra)
        with open(path or self.conf_path(), "w") as f:
            f.write("\n".join(lines) + "\n")

    # ---- values
    def slen(self, v):
        """byte length of short value v: in 1..BS-1, fixed per value id"""
        return 1 + (v * 379) % (BS - 1)

    def vbytes(self, val):
        """val = v (int, full block) or ('s', v) short block or 'Z' (zero block) """
        if val == 'Z':
            return b"\0" * BS
        if isinstance(val, (tuple, list)) and val[0] == 'J':
            return self.jbytes[val[1]]
        if isinstance(val, (tuple, list)):
            return value_bytes(self.seed, val[1] + 1000000, self.slen(val[1]))
        return value_bytes(self.seed, val, BS)

    def file_bytes(self, vals):
        b = b"".join(self.vbytes(v) for v in vals)
        for v in vals:
            self.remember(v)
        return b

    def remember(self, val):
        key = tuple(val) if isinstance(val, (tuple, list)) else val
        self.store[self.vbytes(val)] = key

    def classify(self, blk):
        """bytes of one block of a file -> value key or ('J', digest)"""
        if blk in self.store:
            return self.store[blk]
        if len(blk) == BS and blk == b"\0" * BS:
            return 'Z'
        dig = hashlib.sha1(blk).hexdigest()[:10]
        self.jbytes[dig] = blk
        self.jlen[dig] = len(blk)
        self.store[blk] = ('J', dig)
        return ('J', dig)

    # ---- file operations (environment actions)
    def path(self, d, name):
        return os.path.join(self.ddir(d), name)

    def write_file(self, d, name, vals, mtime=None, mtime_ns=0):
        p = self.path(d, name)
        os.makedirs(os.path.dirname(p), exist_ok=True)
        tmp_exists = os.path.lexists(p)
        if tmp_exists and not os.path.isfile(p):
            self.remove(d, name)
        with open(p, "wb") as f:
            f.write(self.file_bytes(vals))
        if mtime is not None:
            self.set_mtime(d, name, mtime, mtime_ns)

    def overwrite_keep_inode(self, d, name, vals, mtime=None, mtime_ns=0):
        p = self.path(d, name)
        with open(p, "r+b") as f:
            f.truncate(0)
            f.write(self.file_bytes(vals))
        if mtime is not None:
            self.set_mtime(d, name, mtime, mtime_ns)

    def set_mtime(self, d, name, sec, ns=0):
        p = self.path(d, name)
        t = (BASE_TIME + sec) * 10**9 + ns
        os.utime(p, ns=(t, t), follow_symlinks=False)

    def get_stat(self, d, name):
        return os.lstat(self.path(d, name))

    def corrupt_block(self, d, name, idx, shape="flip", keep_stamp=True):
        """silent corruption of one block of a data file; returns the new junk value key"""
        p = self.path(d, name)
        st = os.lstat(p)
        with open(p, "r+b") as f:
            f.seek(idx * BS)
            blk = bytearray(f.read(BS))
            if shape == "flip":
                blk[len(blk) // 2] ^= 0x10
            elif shape == "byte":
                blk[0] = (blk[0] + 1) & 0xFF
            elif shape == "zero":
                if blk == bytearray(len(blk)):
                    blk[0] = 1
                else:
                    blk = bytearray(len(blk))
            elif shape == "whole":
                blk = bytearray(hashlib.sha256(bytes(blk)).digest() * (len(blk) // 32 + 1))[:len(blk)]
            f.seek(idx * BS)
            f.write(blk)
        if keep_stamp:
            os.utime(p, ns=(st.st_atime_ns, st.st_mtime_ns))
        return self.classify(bytes(blk))

    def remove(self, d, name):
        p = self.path(d, name)
        if os.path.isdir(p) and not os.path.islink(p):
            shutil.rmtree(p)
        else:
            os.remove(p)

    def lose_disk(self, d):
        p = self.ddir(d)
        shutil.rmtree(p)
        os.makedirs(p)

    def lose_parity(self, l):
        for s in range(self.conf.splits[l]):
            try:
                os.remove(self.pfile(l, s))
            except FileNotFoundError:
                pass

    def corrupt_parity(self, l, pos, shape="flip"):
        """corrupt parity block at stripe position pos of level l (single split layout or via split sizes)"""
        f, off = self.parity_locate(l, pos)
        with open(f, "r+b") as fh:
            fh.seek(off)
            blk = bytearray(fh.read(BS))
            if len(blk) < BS:
                raise ValueError("parity too short")
            if shape == "flip":
                blk[7] ^= 0x01
            elif shape == "zero":
                blk = bytearray(BS) if blk != bytearray(BS) else bytearray(b"\1" * BS)
            else:
                blk = bytearray(hashlib.sha256(bytes(blk)).digest() * 32)
            fh.seek(off)
            fh.write(blk)

    def parity_locate(self, l, pos):
        off = pos * BS
        for s in range(self.conf.splits[l]):
            p = self.pfile(l, s)
            size = os.path.getsize(p) if os.path.exists(p) else 0
            if s == self.conf.splits[l] - 1 or off < size:
                return p, off
            off -= size
        raise ValueError("position out of parity")

    # ---- commands
    # --test-skip-multi-scan: the data disks are scanned one after the other (with parallel scan threads the result of the
    # copy detection can depend on thread timing: finding F11); C13 exercises the parallel scan on purpose
    BASE_FLAGS = ["--test-skip-device", "--test-skip-self", "--test-force-order-alpha", "--test-skip-multi-scan", "--no-warnings",
                  "-q", "-q", "-q"]

    def run(self, cmd, *args, rules=None, trace=False, trace_reads=False, now=None, timeout=60, conf=None,
            freeze=True, extra_env=None, base_flags=None, hashflag=True):
        self.ncmd += 1
        log = os.path.join(self.root, "log.%d" % self.ncmd)
        argv = [self.bin, "-c", conf or self.conf_path()] + (base_flags if base_flags is not None else self.BASE_FLAGS)
        if hashflag and self.conf.hash_kind in ("murmur3", "spooky2"):
            argv.append("--test-force-" + self.conf.hash_kind)
        if getattr(self.conf, "inomode", False) and not getattr(self, "nouuid", False) and "--test-fake-uuid" not in [str(x) for x in args]:
            # --force-uuid: a change of the UUIDs (data lines reordered) is accepted; that interlock is not the subject here
            argv += ["--test-fake-uuid", "--force-uuid"]
        # the depth of the I/O ring does not change any result (C13): vary it from command to command
        if getattr(self, "io_vary", False) and cmd in ("sync", "scrub", "check", "fix") and "--test-io-cache" not in [str(x) for x in args]:
            argv += ["--test-io-cache", str([1, 3, 4, 8, 128][(self.seed + self.ncmd) % 5])]
        argv += ["-l", log, cmd] + [str(a) for a in args]
        env = dict(os.environ)
        env["LD_PRELOAD"] = self.shim
        env["VSHIM_ROOT"] = self.root
        tracefile = None
        if trace:
            tracefile = os.path.join(self.root, "trace.%d" % self.ncmd)
            env["VSHIM_TRACE"] = tracefile
            if trace_reads:
                env["VSHIM_TRACE_READS"] = "1"
        if rules:
            env["VSHIM_RULES"] = ";".join(rules)
        if freeze:
            env["VSHIM_TIME"] = str(now if now is not None else self.clock)
            # /dev/urandom is a deterministic stream that differs from command to command (the hash seed drawn by rehash
            # must not be the seed drawn when the array was created)
            rnd = random.Random(self.seed * 7919 + 13 + 104729 * self.ncmd)
            with open(self.urandom, "wb") as f:
                f.write(bytes(rnd.getrandbits(8) for _ in range(4096)))
            env["VSHIM_URANDOM"] = self.urandom
            env["VSHIM_STATFS"] = "1"
        if extra_env:
            env.update(extra_env)
        timed_out = False
        try:
            p = subprocess.run(argv, stdout=subprocess.PIPE, stderr=subprocess.PIPE, env=env, timeout=timeout)
            rc, out, err = p.returncode, p.stdout, p.stderr
        except subprocess.TimeoutExpired as e:
            rc, out, err = -999, e.stdout or b"", e.stderr or b""
            timed_out = True
        tags = []
        if os.path.exists(log):
            with open(log, "rb") as f:
                for line in f.read().split(b"\n"):
                    if line:
                        tags.append(split_tag(line))
            os.remove(log)
        tr = []
        if tracefile and os.path.exists(tracefile):
            with open(tracefile, "rb") as f:
                for line in f.read().split(b"\n"):
                    if line.strip():
                        try:
                            tr.append(json.loads(line))
                        except ValueError:
                            tr.append({"c": "garbled", "raw": line.decode("latin1")})
            os.remove(tracefile)
        return Result(rc, out.decode("latin1"), err.decode("latin1"), tags, tr, argv, timed_out)

    def role(self, path):
        """path -> role string used in traces: data:<d>, parity:<l>:<s>, content:<c>, tmp:<c>, lock, log, pool, other"""
        if not path.startswith(self.root):
            return "outside"
        rel = path[len(self.root):].lstrip("/")
        top = rel.split("/", 1)[0]
        if top in self.conf.disk_names:
            return "data:%d" % self.conf.disk_names.index(top)
        if top.startswith("p") and top[1:].isdigit() and "/" in rel:
            base = rel.split("/", 1)[1]
            if base.startswith("parity."):
                s = base.split(".")[1]
                return "parity:%s:%s" % (top[1:], s)
            return "paritydir:%s" % top[1:]
        if top.startswith("c") and top[1:].isdigit():
            base = rel.split("/", 1)[1] if "/" in rel else ""
            if base == "content":
                return "content:%s" % top[1:]
            if base == "content.tmp":
                return "tmp:%s" % top[1:]
            if base == "content.lock":
                return "lock"
            return "contentdir:%s" % top[1:]
        if top == "pool":
            return "pool"
        if top.startswith("log.") or top.startswith("trace."):
            return "log"
        return "other"

    def snapshot_tree(self, sub):
        """byte/mtime/inode snapshot of a subtree: {relpath: (kind, size, mtime_ns, ino, sha1|target)}"""
        res = {}
        base = os.path.join(self.root, sub)
        if not os.path.lexists(base):
            return res
        for dp, dn, fn in os.walk(base):
            for n in dn + fn:
                p = os.path.join(dp, n)
                st = os.lstat(p)
                rel = os.path.relpath(p, self.root)
                if stat.S_ISLNK(st.st_mode):
                    res[rel] = ("l", 0, st.st_mtime_ns, st.st_ino, os.readlink(p))
                elif stat.S_ISDIR(st.st_mode):
                    res[rel] = ("d", 0, 0, st.st_ino, "")
                else:
                    with open(p, "rb") as f:
                        h = hashlib.sha1(f.read()).hexdigest()
                    res[rel] = ("f", st.st_size, st.st_mtime_ns, st.st_ino, h)
        return res

    def clone(self, newroot=None):
        """copy of the whole array (same seed, same store) in a new scratch directory"""
        import copy
        newroot = newroot or vlib.scratch_root()
        os.rmdir(newroot)
        shutil.copytree(self.root, newroot, symlinks=True)
        a = copy.copy(self)
        a.root = newroot
        a.own_root = True
        a.store = dict(self.store)
        a.jbytes = dict(self.jbytes)
        a.jlen = dict(self.jlen)
        a.urandom = os.path.join(newroot, "urandom")
        # rewrite conf with the new paths
        a.conf = copy.deepcopy(self.conf)
        a.write_conf()
        return a

    def destroy(self):
        if self.own_root:
            shutil.rmtree(self.root, ignore_errors=True)


def split_tag(line):
    """split a log line 'a:b:c' at unescaped colons and undo the tag escaping (\\d -> ':', \\n, \\r, \\\\)"""
    parts = []
    cur = bytearray()
    i = 0
    while i < len(line):
        c = line[i:i + 1]
        if c == b"\\" and i + 1 < len(line):
            n = line[i + 1:i + 2]
            cur += {b"d": b":", b"n": b"\n", b"r": b"\r", b"\\": b"\\"}.get(n, b"\\" + n)
            i += 2
            continue
        if c == b":":
            parts.append(cur.decode("latin1"))
            cur = bytearray()
        else:
            cur += c
        i += 1
    parts.append(cur.decode("latin1"))
    return parts
