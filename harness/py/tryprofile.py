"""experiment driver: tryprofile.py <profile> <n> [seed0] [nd np] [steps]  - records n histories of a profile on the current build and
validates them with TLC; prints the findings (not a registered check)"""
import sys, json, os
import vlib, arrayprop

def main():
    prof = sys.argv[1]; n = int(sys.argv[2]); s0 = int(sys.argv[3]) if len(sys.argv) > 3 else 1
    shapes = [(int(sys.argv[4]), int(sys.argv[5]))] if len(sys.argv) > 5 else [(2, 2), (3, 2), (2, 1), (3, 1), (4, 2), (1, 1)]
    steps = int(sys.argv[6]) if len(sys.argv) > 6 else 24
    vlib.build("hooks"); vlib.build_shim()
    jobs = []
    for i in range(n):
        nd, np_ = shapes[i % len(shapes)]
        jobs.append((s0 + i, dict(nd=nd, np=np_, copies=2, **({"hash_size": int(os.environ["HS"])} if os.environ.get("HS") else {})), prof, steps, None, None))
    scs = arrayprop.record_scenarios(jobs, procs=12)
    for s in scs:
        if s.get("err"):
            print("RECORD ERROR seed", s["seed"], s["err"][-1500:]); return 2
    bykey = {}
    for s in scs:
        bykey.setdefault((s["conf"]["nd"], s["conf"]["np"]), []).append(s)
    tot = 0; nf = 0
    for k, group in bykey.items():
        f, acc, st = arrayprop.validate_batch(group, "try-%s-%d-%d" % (prof, k[0], k[1]))
        tot += acc
        for x in f:
            nf += 1
            pid, sig, text = arrayprop.classify(x)
            sc = x["scenario"]
            print("FINDING", pid, sig, "seed", sc["seed"], "conf", sc["conf"], "line", x["line"], x["step"])
            print("   ", (text or "")[:1500])
            for i, stp in enumerate(sc["steps"]):
                print("      ", i, str(stp)[:160])
            with open("/tmp/try-finding-%d.json" % sc["seed"], "w") as fh:
                json.dump({"lines": sc["lines"][:x["line"]], "steps": sc["steps"], "diag": x["diag"], "pviol": x["pviol"]}, fh, default=str)
    print("scenarios", len(scs), "accepted lines", tot, "findings", nf)

main()
