"""Independent decoder / encoder of the SnapRAID content file (SNAPCNT2 / SNAPCNT3).

Written from the format as documented by the writer in cmdline/state.c; shares no code with it.
decode(bytes) -> dict ; encode(dict) -> bytes ;  decode is strict: any framing or CRC problem raises
ContentError.  The dict is the "ContentState" used by the observer:

 {version, block_size, blockmax, hash_size, hash:{kind,seed}, prevhash:{kind,seed}|None,
  maps:[{name,pos,total,free,uuid}], parity:[{level,total,free,splits:[{path,uuid,size}]}],
  items:[ ... in file order ... ]   # ('f',...), ('a'|'s',...), ('r',...), ('h',...)
  disks:{mapidx:{files:[{sub,size,mtime_sec,mtime_nsec,inode,blocks:[(pos,state,hash)]}],
                 links:[{kind,sub,linkto}], dirs:[sub], deleted:{pos:hash}}},
  info_oldest, info:[None|{t,bad,rehash,justsynced}] (len blockmax), crc}
"""
import struct

NSEC_INVALID = -1


class ContentError(Exception):
    pass


def _mk_crc_table():
    poly = 0x82F63B78
    t = []
    for i in range(256):
        c = i
        for _ in range(8):
            c = (c >> 1) ^ poly if c & 1 else c >> 1
        t.append(c)
    return t


_CRC = _mk_crc_table()


def crc32c(data, crc=0):
    c = crc ^ 0xFFFFFFFF
    for b in data:
        c = _CRC[(c ^ b) & 0xFF] ^ (c >> 8)
    return c ^ 0xFFFFFFFF


class _R:
    def __init__(self, b):
        self.b = b
        self.i = 0

    def eof(self):
        return self.i >= len(self.b)

    def c(self):
        if self.i >= len(self.b):
            raise ContentError("unexpected EOF")
        v = self.b[self.i]
        self.i += 1
        return v

    def raw(self, n):
        if self.i + n > len(self.b):
            raise ContentError("unexpected EOF")
        v = self.b[self.i:self.i + n]
        self.i += n
        return v

    def vi(self, bits):
        v = 0
        s = 0
        while True:
            b = self.c()
            if b & 0x80:
                v |= (b & 0x7F) << s
                break
            v |= b << s
            s += 7
            if s >= bits:
                raise ContentError("varint too long")
        if v >= (1 << bits):
            # the C reader silently truncates; a file written by the tool never has this
            raise ContentError("varint overflow")
        return v

    def bs(self):
        n = self.vi(32)
        return bytes(self.raw(n))


HK = {ord('u'): "murmur3", ord('k'): "spooky2", ord('m'): "metro"}
HKR = {v: k for k, v in HK.items()}
ST = {ord('b'): "BLK", ord('g'): "CHG", ord('p'): "REP", ord('n'): "NEW"}
STR = {"BLK": b'b', "CHG": b'g', "REP": b'p'}


def decode(b, check_crc=True):
    r = _R(b)
    hdr = bytes(r.raw(12))
    if hdr == b"SNAPCNT2\n\x03\x00\x00":
        ver = 2
    elif hdr == b"SNAPCNT3\n\x03\x00\x00":
        ver = 3
    elif hdr == b"SNAPCNT1\n\x03\x00\x00":
        ver = 1
    else:
        raise ContentError("bad header")
    cs = {"version": ver, "block_size": 0, "blockmax": 0, "hash_size": 16, "hash": None, "prevhash": None,
          "maps": [], "parity": [], "items": [], "disks": {}, "info_oldest": 0, "info": None, "crc": None,
          "order": []}

    def disk(m):
        if m not in cs["disks"]:
            raise ContentError("mapping index out of range")
        return cs["disks"][m]

    done = False
    while not r.eof():
        c = r.c()
        ch = chr(c)
        cs["order"].append(ch)
        if ch == 'z':
            cs["block_size"] = r.vi(32)
        elif ch == 'x':
            cs["blockmax"] = r.vi(32)
        elif ch == 'y':
            cs["hash_size"] = r.vi(32)
            if not (2 <= cs["hash_size"] <= 16):
                raise ContentError("bad hash size")
        elif ch in 'cC':
            k = r.c()
            if k not in HK:
                raise ContentError("bad hash kind")
            h = {"kind": HK[k], "seed": bytes(r.raw(16))}
            cs["hash" if ch == 'c' else "prevhash"] = h
        elif ch in 'Mm':
            # 'm' (SnapRAID 4.x - 6.x): no free space figures
            name = r.bs()
            pos = r.vi(32)
            tot = r.vi(32) if ch == 'M' else 0
            free = r.vi(32) if ch == 'M' else 0
            uuid = r.bs()
            cs["maps"].append({"name": name, "pos": pos, "total": tot, "free": free, "uuid": uuid})
            idx = len(cs["maps"]) - 1
            cs["disks"][idx] = {"name": name, "pos": pos, "files": [], "links": [], "dirs": [], "deleted": {},
                                "has_h": False}
        elif ch == 'P':
            l = r.vi(32)
            tot = r.vi(32)
            free = r.vi(32)
            uuid = r.bs()
            cs["parity"].append({"level": l, "total": tot, "free": free, "v": 'P',
                                 "splits": [{"path": None, "uuid": uuid, "size": None}]})
        elif ch == 'Q':
            l = r.vi(32)
            tot = r.vi(32)
            free = r.vi(32)
            n = r.vi(32)
            sp = []
            for _ in range(n):
                p = r.bs()
                u = r.bs()
                sz = r.vi(64)
                sp.append({"path": p, "uuid": u, "size": sz})
            cs["parity"].append({"level": l, "total": tot, "free": free, "v": 'Q', "splits": sp})
        elif ch == 'f':
            m = r.vi(32)
            d = disk(m)
            size = r.vi(64)
            if cs["block_size"] == 0:
                raise ContentError("zero block size")
            sec = r.vi(64)
            ns = r.vi(32)
            ns = NSEC_INVALID if ns == 0 else ns - 1
            ino = r.vi(64)
            sub = r.bs()
            if not sub:
                raise ContentError("null file")
            nblk = (size + cs["block_size"] - 1) // cs["block_size"]
            if nblk > cs["blockmax"]:
                raise ContentError("file too big")
            blocks = []
            runs = []
            while len(blocks) < nblk:
                t = r.c()
                if t not in ST:
                    raise ContentError("bad block type")
                pos = r.vi(32)
                cnt = r.vi(32)
                if len(blocks) + cnt > nblk or pos + cnt > cs["blockmax"] or cnt == 0:
                    raise ContentError("block run out of range")
                runs.append((ST[t], pos, cnt))
                for k in range(cnt):
                    h = bytes(r.raw(cs["hash_size"])) if ST[t] != "NEW" else b"\xff" * cs["hash_size"]
                    blocks.append((pos + k, ST[t], h))
            f = {"sub": sub, "size": size, "mtime_sec": sec, "mtime_nsec": ns, "inode": ino, "blocks": blocks,
                 "runs": runs}
            d["files"].append(f)
            cs["items"].append(('f', m, f))
        elif ch in 'as':
            m = r.vi(32)
            d = disk(m)
            sub = r.bs()
            to = r.bs()
            if not sub or not to:
                raise ContentError("null link")
            l = {"kind": "hard" if ch == 'a' else "sym", "sub": sub, "linkto": to}
            d["links"].append(l)
            cs["items"].append((ch, m, l))
        elif ch == 'r':
            m = r.vi(32)
            d = disk(m)
            sub = r.bs()
            if not sub:
                raise ContentError("null dir")
            d["dirs"].append(sub)
            cs["items"].append(('r', m, sub))
        elif ch == 'h':
            m = r.vi(32)
            d = disk(m)
            d["has_h"] = True
            pos = 0
            runs = []
            while pos < cs["blockmax"]:
                cnt = r.vi(32)
                if pos + cnt > cs["blockmax"]:
                    raise ContentError("hole run out of range")
                t = r.c()
                if t == ord('o'):
                    for k in range(cnt):
                        d["deleted"][pos + k] = bytes(r.raw(cs["hash_size"]))
                elif t != ord('O'):
                    raise ContentError("bad hole type")
                runs.append((chr(t), cnt))
                pos += cnt
            cs["items"].append(('h', m, runs))
        elif ch == 'i':
            cs["info_oldest"] = r.vi(32)
            pos = 0
            info = []
            runs = []
            while pos < cs["blockmax"]:
                cnt = r.vi(32)
                if pos + cnt > cs["blockmax"]:
                    raise ContentError("info run out of range")
                flag = r.vi(32)
                if flag & 1:
                    t = r.vi(32)
                    e = {"t": t + cs["info_oldest"], "bad": bool(flag & 2), "rehash": bool(flag & 4),
                         "justsynced": bool(flag & 8)}
                else:
                    e = None
                runs.append((cnt, flag))
                info.extend([e] * cnt)
                pos += cnt
            cs["info"] = info
            cs["info_runs"] = runs
        elif ch == 'N':
            end = r.i - 1 + 1
            stored = struct.unpack("<I", bytes(r.raw(4)))[0]
            cs["crc"] = stored
            if check_crc and crc32c(b[:end]) != stored:
                raise ContentError("crc mismatch")
            if not r.eof():
                raise ContentError("data after crc")
            done = True
        else:
            raise ContentError("unknown record %r at %d" % (ch, r.i - 1))
    if not done:
        raise ContentError("missing N record")
    if cs["info"] is None:
        cs["info"] = [None] * cs["blockmax"]
    return cs


def load(path):
    with open(path, "rb") as f:
        return decode(f.read())


def _vi(v):
    out = bytearray()
    while True:
        b = v & 0x7F
        v >>= 7
        if v:
            out.append(b)
        else:
            out.append(b | 0x80)
            return bytes(out)


def _bs(s):
    return _vi(len(s)) + s


def encode(cs, info_now=None, legacy=False):
    """Normative encoder (Python transliteration of spec/ContentFormat.tla).
    Files are written per disk in list order: files, links, dirs, then the 'h' record; run-length rules as
    documented: a block run continues while state is equal and positions are consecutive.
    legacy: the first format (SNAPCNT1 of SnapRAID 4.x - 6.x, still read by the reference): 'm' mapping records without free
    space, no parity records, blocks that are new in never used positions as 'n' runs without hash (16-byte hashes only)."""
    hs = cs["hash_size"]
    ver = 3 if (hs != 16 or any(len(p["splits"]) > 1 for p in cs["parity"])) else 2
    ver = cs.get("force_version", ver)
    if legacy:
        if ver != 2:
            raise ContentError("the first format has 16-byte hashes and one file per parity level")
        ver = 1
    o = bytearray(b"SNAPCNT%d\n\x03\x00\x00" % ver)
    o += b'z' + _vi(cs["block_size"]) + b'x' + _vi(cs["blockmax"])
    if ver == 3:
        o += b'y' + _vi(hs)
    o += b'c' + bytes([HKR[cs["hash"]["kind"]]]) + cs["hash"]["seed"]
    has_rehash = any(e and e["rehash"] for e in cs["info"])
    if cs.get("prevhash") and has_rehash:
        o += b'C' + bytes([HKR[cs["prevhash"]["kind"]]]) + cs["prevhash"]["seed"]
    for m in cs["maps"]:
        if legacy:
            o += b'm' + _bs(m["name"]) + _vi(m["pos"]) + _bs(m["uuid"])
        else:
            o += b'M' + _bs(m["name"]) + _vi(m["pos"]) + _vi(m["total"]) + _vi(m["free"]) + _bs(m["uuid"])
    for p in ([] if legacy else cs["parity"]):
        if ver == 3:
            o += b'Q' + _vi(p["level"]) + _vi(p["total"]) + _vi(p["free"]) + _vi(len(p["splits"]))
            for s in p["splits"]:
                o += _bs(s["path"]) + _bs(s["uuid"]) + _vi(s["size"])
        else:
            o += b'P' + _vi(p["level"]) + _vi(p["total"]) + _vi(p["free"]) + _bs(p["splits"][0]["uuid"])
    for idx in sorted(cs["disks"]):
        d = cs["disks"][idx]
        for f in d["files"]:
            ns = 0 if f["mtime_nsec"] == NSEC_INVALID else f["mtime_nsec"] + 1
            o += b'f' + _vi(idx) + _vi(f["size"]) + _vi(f["mtime_sec"]) + _vi(ns) + _vi(f["inode"]) + _bs(f["sub"])
            bl = f["blocks"]
            if legacy:
                bl = [(q, "NEW" if (st == "NEW" or (st == "CHG" and is_zero_hash(h))) else st, h) for (q, st, h) in bl]
            i = 0
            while i < len(bl):
                j = i + 1
                while j < len(bl) and bl[j][1] == bl[i][1] and bl[j][0] == bl[i][0] + (j - i):
                    j += 1
                o += (b'n' if bl[i][1] == "NEW" else STR[bl[i][1]]) + _vi(bl[i][0]) + _vi(j - i)
                if bl[i][1] != "NEW":
                    for k in range(i, j):
                        o += bl[k][2]
                i = j
        for l in d["links"]:
            o += (b'a' if l["kind"] == "hard" else b's') + _vi(idx) + _bs(l["sub"]) + _bs(l["linkto"])
        for s in d["dirs"]:
            o += b'r' + _vi(idx) + _bs(s)
        o += b'h' + _vi(idx)
        i = 0
        bm = cs["blockmax"]
        while i < bm:
            isdel = i in d["deleted"]
            j = i + 1
            while j < bm and (j in d["deleted"]) == isdel:
                j += 1
            o += _vi(j - i)
            if isdel:
                o += b'o'
                for k in range(i, j):
                    o += d["deleted"][k]
            else:
                o += b'O'
            i = j
    oldest = cs["info_oldest"]
    o += b'i' + _vi(oldest)
    i = 0
    bm = cs["blockmax"]
    inf = cs["info"]
    while i < bm:
        j = i + 1
        while j < bm and inf[j] == inf[i]:
            j += 1
        o += _vi(j - i)
        e = inf[i]
        if e:
            flag = 1 | (2 if e["bad"] else 0) | (4 if e["rehash"] else 0) | (8 if e["justsynced"] else 0)
            t = e["t"]
            if info_now is not None and t > info_now:
                t = info_now
            t = 0 if t < oldest else t - oldest
            o += _vi(flag) + _vi(t)
        else:
            o += _vi(0)
        i = j
    o += b'N'
    o += struct.pack("<I", crc32c(bytes(o)))
    return bytes(o)


# hash markers (elem.h): INVALID = all bytes 0x00, ZERO = all bytes 0xFF; recognisable only with 16-byte hashes
def is_zero_hash(h):
    return len(h) == 16 and all(x == 0xFF for x in h)


def is_invalid_hash(h):
    return len(h) == 16 and all(x == 0 for x in h)
