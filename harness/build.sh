#!/bin/bash
# Rebuild snapraid from /repo's current working tree into /verif/build/<flavour>/.
# usage: build.sh [hooks|nohooks|asan]      (REPO overrides the source tree)
# Incremental: an object is rebuilt when its .c or any header of the tree is newer.
set -e
FLAVOUR=${1:-hooks}
REPO=${REPO:-/repo}
HERE=$(cd "$(dirname "$0")" && pwd)
OUT=${VERIF_BUILD:-$HERE/../build}/$FLAVOUR
mkdir -p "$OUT/obj"
# one build at a time per flavour (checks may run concurrently)
exec 9>"$OUT/.lock"; flock 9
case $FLAVOUR in
 hooks)   CC=gcc;   FLAGS="-O2 -g -DSNAPRAID_VERIF";;
 nohooks) CC=gcc;   FLAGS="-O2 -g";;
 asan)    CC=clang; FLAGS="-O1 -g -fsanitize=address,undefined -fno-sanitize-recover=undefined -fno-omit-frame-pointer -DSNAPRAID_VERIF";;
 *) echo "unknown flavour $FLAVOUR" >&2; exit 2;;
esac
INC="-I$REPO"
if [ ! -f "$REPO/config.h" ]; then mkdir -p "$OUT/inc"; cp "$HERE/config.h.fallback" "$OUT/inc/config.h"; INC="-I$OUT/inc -I$REPO"; fi
SRCS=$(awk '/^snapraid_SOURCES/{f=1;next} f&&/^[ \t]*$/{exit} f{gsub(/\\/,"");print $1}' "$REPO/Makefile.am")
# newest header
NEWH=$(find "$REPO/cmdline" "$REPO/raid" "$REPO/tommyds" "$REPO/config.h" -name '*.h' -newer "$OUT/.stamp" 2>/dev/null | head -1)
TODO=""
for s in $SRCS; do
  o="$OUT/obj/$(echo $s | tr / _ | sed 's/\.c$/.o/')"
  if [ ! -f "$o" ] || [ "$REPO/$s" -nt "$o" ] || [ -n "$NEWH" ] || [ ! -f "$OUT/.stamp" ]; then TODO="$TODO $s"; fi
done
# included .c files (murmur3.c, spooky2.c, metro.c, tommy*.c) -> treat as headers
NEWC=$(find "$REPO/cmdline/murmur3.c" "$REPO/cmdline/spooky2.c" "$REPO/cmdline/metro.c" "$REPO/cmdline/murmur3test.c" "$REPO/cmdline/spooky2test.c" "$REPO"/tommyds/*.c -newer "$OUT/.stamp" 2>/dev/null | head -1)
if [ -n "$NEWC" ]; then TODO="$SRCS"; fi
if [ -n "$TODO" ]; then
  echo $TODO | tr ' ' '\n' | xargs -P 16 -I{} sh -c "$CC $FLAGS -DHAVE_CONFIG_H -DSYSCONFDIR='\"/etc\"' $INC -pthread -fno-common -w -c $REPO/{} -o $OUT/obj/\$(echo {} | tr / _ | sed 's/\.c\$/.o/')"
fi
if [ -n "$TODO" ] || [ ! -x "$OUT/snapraid" ]; then
  $CC $FLAGS -pthread -rdynamic -o "$OUT/snapraid" "$OUT"/obj/*.o -lblkid -lm
fi
touch "$OUT/.stamp"
echo "$OUT/snapraid"
