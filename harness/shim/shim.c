/*
 * LD_PRELOAD shim for the snapraid conformance harness (no change to the repository needed).
 *
 *  VSHIM_TRACE=<file>     append one ndjson line per state-changing call (and per injected fault)
 *  VSHIM_TRACE_READS=1    also trace pread/read on files under VSHIM_ROOT
 *  VSHIM_ROOT=<dir>       only paths below this directory are traced / matched (default: all)
 *  VSHIM_RULES=r;r;...    r = call,pathsub,k,action[,arg]
 *        call   : pwrite write pread read rename remove unlink rmdir mkdir symlink link ftruncate fallocate
 *                 fsync open utimens opendir (delay only: slows the scan of one disk) any      ("any" = any state-changing call: everything except pread/read/open-for-read)
 *        pathsub: substring of the path ("*" = any)
 *        k      : 1-based index among the matching calls; 0 = every matching call
 *        action : eio enospc  (the call fails with that errno, nothing is done)
 *                 flip        (write/pwrite: one bit of the data is altered on its way to the file, the call succeeds)
 *                 stopb       (SIGSTOP before the call; the call is made after SIGCONT)
 *                 killb       (SIGKILL before the call)        killa  (SIGKILL right after the call)
 *                 short       (write/pwrite: half of the bytes are written, then SIGKILL)
 *                 sigint      (SIGINT to the process after the call)   sigterm
 *                 stop        (SIGSTOP to the process after the call)
 *                 delay,<ms>  (sleep before the call)
 *                 shortread,<n> (pread returns at most n bytes)
 *  VSHIM_TIME=<sec>       time() returns this value (+ content of VSHIM_TIME_FILE if set, re-read each call)
 *  VSHIM_URANDOM=<file>   open("/dev/urandom") opens this file instead
 *  VSHIM_STATFS=1         statfs() succeeds with constant sizes (f_type kept)
 *
 * Lines are written with one write(2) through the raw syscall to a private O_APPEND descriptor.
 */
#define _GNU_SOURCE
#include <dirent.h>
#include <dlfcn.h>
#include <errno.h>
#include <fcntl.h>
#include <limits.h>
#include <pthread.h>
#include <signal.h>
#include <stdarg.h>
#include <stdio.h>
#include <stdlib.h>
#include <string.h>
#include <sys/stat.h>
#include <sys/statfs.h>
#include <sys/syscall.h>
#include <sys/time.h>
#include <sys/types.h>
#include <time.h>
#include <unistd.h>

#define MAXR 32
struct rule {
	char call[16];
	char sub[256];
	long k;
	char action[16];
	long arg;
	long count;
};
static struct rule rules[MAXR];
static int nrules;
static int trace_fd = -1;
static int trace_reads;
static char root[PATH_MAX];
static size_t rootlen;
static long seq;
static pthread_mutex_t mu = PTHREAD_MUTEX_INITIALIZER;
static int inited;
static long fixed_time = -1;
static const char* time_file;
static const char* urandom_file;
static int fake_statfs;

static void init(void)
{
	const char* s;
	if (inited)
		return;
	inited = 1;
	s = getenv("VSHIM_ROOT");
	if (s) {
		strncpy(root, s, sizeof(root) - 1);
		rootlen = strlen(root);
	}
	s = getenv("VSHIM_TRACE");
	if (s && *s)
		trace_fd = syscall(SYS_open, s, O_WRONLY | O_CREAT | O_APPEND | O_CLOEXEC, 0644);
	if (trace_fd >= 0 && trace_fd < 100) { /* move away from low numbers */
		int nfd = syscall(SYS_fcntl, trace_fd, F_DUPFD_CLOEXEC, 500);
		if (nfd >= 0) {
			syscall(SYS_close, trace_fd);
			trace_fd = nfd;
		}
	}
	trace_reads = getenv("VSHIM_TRACE_READS") != 0;
	s = getenv("VSHIM_TIME");
	if (s && *s)
		fixed_time = atol(s);
	time_file = getenv("VSHIM_TIME_FILE");
	urandom_file = getenv("VSHIM_URANDOM");
	fake_statfs = getenv("VSHIM_STATFS") != 0;
	s = getenv("VSHIM_RULES");
	if (s && *s) {
		char* dup = strdup(s);
		char* save1;
		char* r;
		for (r = strtok_r(dup, ";", &save1); r && nrules < MAXR; r = strtok_r(0, ";", &save1)) {
			char* save2;
			char* f[5] = { 0, 0, 0, 0, 0 };
			int n = 0;
			char* t;
			for (t = strtok_r(r, ",", &save2); t && n < 5; t = strtok_r(0, ",", &save2))
				f[n++] = t;
			if (n < 4)
				continue;
			strncpy(rules[nrules].call, f[0], 15);
			strncpy(rules[nrules].sub, f[1], 255);
			rules[nrules].k = atol(f[2]);
			strncpy(rules[nrules].action, f[3], 15);
			rules[nrules].arg = f[4] ? atol(f[4]) : 0;
			rules[nrules].count = 0;
			++nrules;
		}
	}
}

static int fdpath(int fd, char* buf, size_t size)
{
	char p[64];
	ssize_t n;
	snprintf(p, sizeof(p), "/proc/self/fd/%d", fd);
	n = syscall(SYS_readlink, p, buf, size - 1);
	if (n < 0) {
		buf[0] = 0;
		return -1;
	}
	buf[n] = 0;
	return 0;
}

static int in_root(const char* path)
{
	if (!path)
		return 0;
	if (!rootlen)
		return 1;
	return strncmp(path, root, rootlen) == 0;
}

static void jescape(char* out, size_t size, const char* in)
{
	size_t o = 0;
	for (; *in && o + 8 < size; ++in) {
		unsigned char c = *in;
		if (c == '"' || c == '\\') {
			out[o++] = '\\';
			out[o++] = c;
		} else if (c < 0x20 || c >= 0x7f) {
			o += snprintf(out + o, size - o, "\\u%04x", c);
		} else
			out[o++] = c;
	}
	out[o] = 0;
}

static void emit(const char* call, const char* path, const char* path2, long long off, long long len, long long ret, int err, const char* inj)
{
	char line[3 * PATH_MAX];
	char e1[PATH_MAX + 64], e2[PATH_MAX + 64];
	int n;
	long q;
	if (trace_fd < 0)
		return;
	jescape(e1, sizeof(e1), path ? path : "");
	jescape(e2, sizeof(e2), path2 ? path2 : "");
	q = __sync_add_and_fetch(&seq, 1);
	n = snprintf(line, sizeof(line), "{\"q\":%ld,\"t\":%ld,\"c\":\"%s\",\"path\":\"%s\",\"path2\":\"%s\",\"off\":%lld,\"len\":%lld,\"r\":%lld,\"errno\":%d,\"inj\":\"%s\"}\n",
		q, (long)syscall(SYS_gettid), call, e1, e2, off, len, ret, err, inj ? inj : "none");
	if (n > 0)
		syscall(SYS_write, trace_fd, line, (size_t)n);
}

/* returns the matched rule (action to take) or 0 */
static struct rule* match(const char* call, const char* path, int state_changing)
{
	int i;
	struct rule* hit = 0;
	if (!nrules)
		return 0;
	pthread_mutex_lock(&mu);
	for (i = 0; i < nrules; ++i) {
		struct rule* r = &rules[i];
		if (strcmp(r->call, call) != 0 && !(state_changing && strcmp(r->call, "any") == 0))
			continue;
		if (strcmp(r->sub, "*") != 0 && (!path || !strstr(path, r->sub)))
			continue;
		++r->count;
		if (r->k == 0 || r->count == r->k) {
			if (!hit)
				hit = r;
		}
	}
	pthread_mutex_unlock(&mu);
	return hit;
}

static void die(void)
{
	syscall(SYS_kill, getpid(), SIGKILL);
	for (;;)
		pause();
}

/* pre-call handling; returns 1 if the call must fail with errno set */
static int pre(struct rule* r, const char* call, const char* path, long long off, long long len)
{
	if (!r)
		return 0;
	if (strcmp(r->action, "delay") == 0) {
		struct timespec ts = { r->arg / 1000, (r->arg % 1000) * 1000000L };
		nanosleep(&ts, 0);
		return 0;
	}
	if (strcmp(r->action, "killb") == 0) {
		emit(call, path, 0, off, len, -1, 0, "killb");
		die();
	}
	if (strcmp(r->action, "stopb") == 0) {
		/* stopped before the call is made; it is made when the process is continued */
		syscall(SYS_kill, getpid(), SIGSTOP);
		return 0;
	}
	if (strcmp(r->action, "eio") == 0) {
		emit(call, path, 0, off, len, -1, EIO, "eio");
		errno = EIO;
		return 1;
	}
	if (strcmp(r->action, "enospc") == 0) {
		emit(call, path, 0, off, len, -1, ENOSPC, "enospc");
		errno = ENOSPC;
		return 1;
	}
	return 0;
}

static void post(struct rule* r)
{
	if (!r)
		return;
	if (strcmp(r->action, "killa") == 0)
		die();
	if (strcmp(r->action, "sigint") == 0)
		syscall(SYS_kill, getpid(), SIGINT);
	if (strcmp(r->action, "sigterm") == 0)
		syscall(SYS_kill, getpid(), SIGTERM);
	if (strcmp(r->action, "stop") == 0)
		syscall(SYS_kill, getpid(), SIGSTOP);
}

#define REAL(name) static __typeof__(name)* real_##name; if (!real_##name) real_##name = dlsym(RTLD_NEXT, #name)

static ssize_t do_write(const char* call, int fd, const void* buf, size_t count, off_t off, int positional)
{
	REAL(pwrite);
	REAL(write);
	char path[PATH_MAX];
	struct rule* r;
	ssize_t ret;
	int e;
	init();
	if (fd == trace_fd || fd <= 2 || fdpath(fd, path, sizeof(path)) != 0 || path[0] != '/' || !in_root(path))
		return positional ? real_pwrite(fd, buf, count, off) : real_write(fd, buf, count);
	r = match(call, path, 1);
	if (pre(r, call, path, off, count))
		return -1;
	if (r && strcmp(r->action, "short") == 0) {
		size_t half = count / 2;
		ret = positional ? real_pwrite(fd, buf, half, off) : real_write(fd, buf, half);
		emit(call, path, 0, off, count, ret, 0, "short");
		die();
	}
	if (r && strcmp(r->action, "flip") == 0 && count > 0) {
		/* the data reaches the file with one bit altered (at byte arg % count) and the call reports success */
		unsigned char* tmp = malloc(count);
		if (tmp) {
			memcpy(tmp, buf, count);
			tmp[(r->arg > 0 ? (size_t)r->arg : count / 2) % count] ^= 0x10;
			ret = positional ? real_pwrite(fd, tmp, count, off) : real_write(fd, tmp, count);
			e = errno;
			free(tmp);
			emit(call, path, 0, positional ? (long long)off : -1, count, ret, ret < 0 ? e : 0, "flip");
			errno = e;
			return ret;
		}
	}
	ret = positional ? real_pwrite(fd, buf, count, off) : real_write(fd, buf, count);
	e = errno;
	emit(call, path, 0, positional ? (long long)off : -1, count, ret, ret < 0 ? e : 0, r ? r->action : 0);
	post(r);
	errno = e;
	return ret;
}

ssize_t pwrite(int fd, const void* buf, size_t count, off_t off)
{
	return do_write("pwrite", fd, buf, count, off, 1);
}
ssize_t pwrite64(int fd, const void* buf, size_t count, off_t off)
{
	return do_write("pwrite", fd, buf, count, off, 1);
}
ssize_t write(int fd, const void* buf, size_t count)
{
	return do_write("write", fd, buf, count, 0, 0);
}

static ssize_t do_pread(int fd, void* buf, size_t count, off_t off)
{
	REAL(pread);
	char path[PATH_MAX];
	struct rule* r;
	ssize_t ret;
	int e;
	init();
	if ((!nrules && !trace_reads) || fdpath(fd, path, sizeof(path)) != 0 || path[0] != '/' || !in_root(path))
		return real_pread(fd, buf, count, off);
	r = match("pread", path, 0);
	if (pre(r, "pread", path, off, count))
		return -1;
	/* shortread,<n>: the call returns at most n bytes (a legal short read) */
	if (r && strcmp(r->action, "shortread") == 0 && r->arg > 0 && count > (size_t)r->arg)
		count = (size_t)r->arg;
	ret = real_pread(fd, buf, count, off);
	e = errno;
	if (trace_reads || r)
		emit("pread", path, 0, off, count, ret, ret < 0 ? e : 0, r ? r->action : 0);
	post(r);
	errno = e;
	return ret;
}
ssize_t pread(int fd, void* buf, size_t count, off_t off)
{
	return do_pread(fd, buf, count, off);
}
ssize_t pread64(int fd, void* buf, size_t count, off_t off)
{
	return do_pread(fd, buf, count, off);
}

ssize_t read(int fd, void* buf, size_t count)
{
	REAL(read);
	char path[PATH_MAX];
	struct rule* r;
	ssize_t ret;
	int e;
	init();
	if (!nrules || fd <= 2 || fdpath(fd, path, sizeof(path)) != 0 || path[0] != '/' || !in_root(path))
		return real_read(fd, buf, count);
	r = match("read", path, 0);
	if (pre(r, "read", path, -1, count))
		return -1;
	ret = real_read(fd, buf, count);
	e = errno;
	if (r)
		emit("read", path, 0, -1, count, ret, ret < 0 ? e : 0, r->action);
	post(r);
	errno = e;
	return ret;
}

#define PATHCALL2(name, p1, p2, CALLEXPR) \
	do { \
		struct rule* r; int ret; int e; \
		init(); \
		if (!in_root(p1) && !in_root(p2)) return CALLEXPR; \
		r = match(#name, p1, 1); \
		if (pre(r, #name, p1, 0, 0)) return -1; \
		ret = CALLEXPR; e = errno; \
		emit(#name, p1, p2, 0, 0, ret, ret < 0 ? e : 0, r ? r->action : 0); \
		post(r); errno = e; return ret; \
	} while (0)

int rename(const char* a, const char* b)
{
	REAL(rename);
	PATHCALL2(rename, a, b, real_rename(a, b));
}
int remove(const char* a)
{
	REAL(remove);
	PATHCALL2(remove, a, (const char*)0, real_remove(a));
}
int unlink(const char* a)
{
	REAL(unlink);
	PATHCALL2(unlink, a, (const char*)0, real_unlink(a));
}
int rmdir(const char* a)
{
	REAL(rmdir);
	PATHCALL2(rmdir, a, (const char*)0, real_rmdir(a));
}
int mkdir(const char* a, mode_t m)
{
	REAL(mkdir);
	PATHCALL2(mkdir, a, (const char*)0, real_mkdir(a, m));
}
int symlink(const char* target, const char* linkpath)
{
	REAL(symlink);
	PATHCALL2(symlink, linkpath, target, real_symlink(target, linkpath));
}
int link(const char* a, const char* b)
{
	REAL(link);
	PATHCALL2(link, b, a, real_link(a, b));
}

#define FDCALL(name, fd, off, len, CALLEXPR) \
	do { \
		char path[PATH_MAX]; struct rule* r; int ret; int e; \
		init(); \
		if (fdpath(fd, path, sizeof(path)) != 0 || path[0] != '/' || !in_root(path)) return CALLEXPR; \
		r = match(#name, path, 1); \
		if (pre(r, #name, path, off, len)) return -1; \
		ret = CALLEXPR; e = errno; \
		emit(#name, path, 0, off, len, ret, ret < 0 ? e : 0, r ? r->action : 0); \
		post(r); errno = e; return ret; \
	} while (0)

int ftruncate(int fd, off_t len)
{
	REAL(ftruncate);
	FDCALL(ftruncate, fd, 0, len, real_ftruncate(fd, len));
}
int ftruncate64(int fd, off_t len)
{
	REAL(ftruncate);
	FDCALL(ftruncate, fd, 0, len, real_ftruncate(fd, len));
}
int fallocate(int fd, int mode, off_t off, off_t len)
{
	REAL(fallocate);
	FDCALL(fallocate, fd, off, len, real_fallocate(fd, mode, off, len));
}
int fallocate64(int fd, int mode, off_t off, off_t len)
{
	REAL(fallocate);
	FDCALL(fallocate, fd, off, len, real_fallocate(fd, mode, off, len));
}
int fsync(int fd)
{
	REAL(fsync);
	FDCALL(fsync, fd, 0, 0, real_fsync(fd));
}
int futimens(int fd, const struct timespec tv[2])
{
	REAL(futimens);
	FDCALL(utimens, fd, tv ? tv[1].tv_sec : 0, tv ? tv[1].tv_nsec : 0, real_futimens(fd, tv));
}
int utimensat(int dirfd, const char* path, const struct timespec tv[2], int flags)
{
	REAL(utimensat);
	PATHCALL2(utimens, path, (const char*)0, real_utimensat(dirfd, path, tv, flags));
}

static int do_open(const char* path, int flags, mode_t mode, int is64)
{
	REAL(open);
	struct rule* r;
	int ret;
	int e;
	int changing;
	init();
	if (urandom_file && path && strcmp(path, "/dev/urandom") == 0)
		return real_open(urandom_file, O_RDONLY);
	if (!path || !in_root(path))
		return real_open(path, flags, mode);
	changing = (flags & (O_CREAT | O_TRUNC)) != 0;
	r = match("open", path, changing);
	if (pre(r, "open", path, flags, 0))
		return -1;
	if (changing) {
		/* report whether the file is created */
		struct stat st;
		int existed = syscall(SYS_stat, path, &st) == 0;
		ret = real_open(path, flags, mode);
		e = errno;
		emit("open", path, 0, flags, existed, ret, ret < 0 ? e : 0, r ? r->action : 0);
	} else {
		ret = real_open(path, flags, mode);
		e = errno;
		if ((flags & O_ACCMODE) != O_RDONLY)
			emit("openw", path, 0, flags, 1, ret, ret < 0 ? e : 0, r ? r->action : 0);
	}
	post(r);
	errno = e;
	(void)is64;
	return ret;
}
int open(const char* path, int flags, ...)
{
	mode_t mode = 0;
	if (flags & (O_CREAT | O_TMPFILE)) {
		va_list ap;
		va_start(ap, flags);
		mode = va_arg(ap, mode_t);
		va_end(ap);
	}
	return do_open(path, flags, mode, 0);
}
int open64(const char* path, int flags, ...)
{
	mode_t mode = 0;
	if (flags & (O_CREAT | O_TMPFILE)) {
		va_list ap;
		va_start(ap, flags);
		mode = va_arg(ap, mode_t);
		va_end(ap);
	}
	return do_open(path, flags, mode, 1);
}

/* directory scan: only the delay action makes sense (one scanner thread made slower than the others) */
DIR* opendir(const char* path)
{
	REAL(opendir);
	struct rule* r;
	init();
	if (path && in_root(path)) {
		r = match("opendir", path, 0);
		if (r && strcmp(r->action, "delay") == 0)
			pre(r, "opendir", path, 0, 0);
	}
	return real_opendir(path);
}

time_t time(time_t* t)
{
	REAL(time);
	time_t v;
	init();
	if (fixed_time >= 0 || time_file) {
		v = fixed_time >= 0 ? fixed_time : 0;
		if (time_file) {
			char buf[64];
			int f = syscall(SYS_open, time_file, O_RDONLY);
			if (f >= 0) {
				ssize_t n = syscall(SYS_read, f, buf, sizeof(buf) - 1);
				syscall(SYS_close, f);
				if (n > 0) {
					buf[n] = 0;
					v += atol(buf);
				}
			}
		}
	} else
		v = real_time(0);
	if (t)
		*t = v;
	return v;
}

int statfs(const char* path, struct statfs* st)
{
	REAL(statfs);
	int ret;
	init();
	ret = real_statfs(path, st);
	if (ret == 0 && fake_statfs && in_root(path)) {
		st->f_bsize = 4096;
		st->f_frsize = 4096;
		st->f_blocks = 1 << 20;
		st->f_bfree = 1 << 19;
		st->f_bavail = 1 << 19;
	}
	return ret;
}
int statfs64(const char* path, struct statfs64* st)
{
	REAL(statfs64);
	int ret;
	init();
	ret = real_statfs64(path, st);
	if (ret == 0 && fake_statfs && in_root(path)) {
		st->f_bsize = 4096;
		st->f_frsize = 4096;
		st->f_blocks = 1 << 20;
		st->f_bfree = 1 << 19;
		st->f_bavail = 1 << 19;
	}
	return ret;
}
