#!/bin/bash
# usage: try_seed.sh <patch.diff> <id> <check> [<check>...]   - runs the quick checks against a scratch copy of /repo with the patch
# applied (REPO/VERIF_BUILD/VERIF_OUT/VERIF_EVID point into /tmp/mut-<id>), prints one line per check, removes the copy.
P=$1; ID=$2; shift 2
WT=/tmp/mut-$ID
git -C /repo worktree remove --force $WT >/dev/null 2>&1; rm -rf $WT
git -C /repo worktree add -q $WT HEAD || exit 2
cp /repo/config.h $WT/config.h
(cd $WT && git apply $P) || { echo "$ID APPLY-FAILED"; exit 2; }
mkdir -p $WT/.verif/out/md $WT/.verif/evidence
cp -r /verif/spec $WT/.verif/spec     # frozen copy: the specification may be edited while the trial runs
for c in "$@"; do
  ( cd /verif && REPO=$WT VERIF_SPEC=$WT/.verif/spec VERIF_BUILD=$WT/.verif/build VERIF_OUT=$WT/.verif/out VERIF_EVID=$WT/.verif/evidence timeout 1500 ./verif check $c ${TIER:-quick} > $WT/.verif/$c.log 2>&1; echo $? > $WT/.verif/$c.rc )
  echo "$ID $c rc=$(cat $WT/.verif/$c.rc) $(grep -c '^VIOLATION' $WT/.verif/$c.log) violation lines: $(grep '^VIOLATION' $WT/.verif/$c.log | head -2 | tr '\n' ' ') $(grep -A1 '^VIOLATION' $WT/.verif/$c.log | grep -v '^VIOLATION' | head -1 | cut -c1-220)"
  mkdir -p /verif/out/seedlogs; cp $WT/.verif/$c.log /verif/out/seedlogs/$ID-$c.log
done
git -C /repo worktree remove --force $WT; rm -rf $WT
