"""seedtable.py: reads seeded/*/meta.json and the trial logs out/seedlogs/<id>-<check>.log (written by try_seed.sh), records in
each meta.json which registered checks report the seeded change (field trials) and prints the table of DESIGN.md 13.5"""
import glob, json, os, re
rows = []
for mp in sorted(glob.glob('/verif/seeded/*/meta.json')):
    sid = os.path.basename(os.path.dirname(mp))
    m = json.load(open(mp))
    trials = m.get("trials", {})
    for lp in sorted(glob.glob('/verif/out/seedlogs/%s-*.log' % sid)):
        chk = os.path.basename(lp)[len(sid) + 1:-4]
        t = open(lp, errors="replace").read()
        viol = re.findall(r'^VIOLATION property=(\S+)', t, re.M)
        first = ""
        mm = re.search(r'^VIOLATION.*\n\s+(.*)', t, re.M)
        if mm:
            first = mm.group(1).strip()[:160]
        if t.startswith("TOOL-FAILURE") or "TOOL-FAILURE" in t[:200]:
            res = "tool-failure"
        elif viol:
            res = "caught"
        else:
            res = "missed"
        trials[chk] = {"result": res, "violations": len(viol), "first": first, "tier": "quick",
                       "log_mtime": int(os.path.getmtime(lp))}
    m["trials"] = trials
    caught = [c for c, x in trials.items() if x["result"] == "caught"]
    missed = [c for c, x in trials.items() if x["result"] == "missed"]
    m["detected_by"] = ("quick check " + ", ".join(sorted(caught))) if caught else ("not caught by " + ", ".join(sorted(missed)) if missed else "not tried")
    json.dump(m, open(mp, "w"), indent=1)
    what = m.get("summary", "").replace("|", "/").replace("\n", " ")
    what = what[:150] + ("..." if len(what) > 150 else "")
    how = ""
    if caught:
        c = sorted(caught)[0]
        how = "**%s** quick: %s" % (", ".join(sorted(caught)), trials[c]["first"][:110].replace("|", "/"))
        if missed:
            how += " (missed by %s)" % ", ".join(sorted(missed))
    elif missed:
        how = "**missed** (%s quick)" % ", ".join(sorted(missed))
    else:
        how = "not tried yet"
    rows.append("| %s | %s | %s |" % (sid, what, how))
print("| id | what the change does | caught by |\n|---|---|---|")
print("\n".join(rows))
