"""store_seeds.py <confirm log>...: copy the seeded defects confirmed in the given logs from /tmp/seeded-out to /verif/seeded"""
import json, os, shutil, re, sys
conf = {}
for p in sys.argv[1:]:
    for l in open(p):
        m = re.match(r'(C\d\d-\d) make_check', l)
        if m:
            conf[m.group(1)] = l.strip()
for k, line in sorted(conf.items()):
    src = '/tmp/seeded-out/' + k; dst = '/verif/seeded/' + k
    if os.path.exists(dst):
        continue
    if 'make_check_rc=0 success demo_unmodified_rc=0 demo_modified_rc=1' not in line:
        print("NOT CONFIRMED", line); continue
    os.makedirs(dst)
    for f in os.listdir(src):
        if os.path.isfile(src + '/' + f):
            shutil.copy(src + '/' + f, dst + '/' + f)
    m = json.load(open(src + '/meta.json'))
    m["confirmed_by_main"] = {"how": "scratch worktree of /repo HEAD + patch, ./configure && make && make check, demo.sh on /repo/snapraid and on the patched build (harness/confirm_seed.sh)", "result": line}
    m["origin"] = "fresh sub-agent given only the property text and a scratch worktree"
    m["ran"] = "harness/try_seed.sh <patch> <id> <check>: quick check against a scratch worktree of /repo with the patch applied (REPO/VERIF_BUILD redirected), logs in out/seedlogs"
    json.dump(m, open(dst + '/meta.json', 'w'), indent=1)
    print("stored", k)
