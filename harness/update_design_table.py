"""update_design_table.py: rewrites section 13.5 of DESIGN.md (seeded defects) from seeded/*/meta.json and the trial logs
(out/seedlogs, read by seedtable.py)."""
import re, subprocess, sys

table = subprocess.run([sys.executable, "/verif/harness/seedtable.py"], stdout=subprocess.PIPE, text=True).stdout.strip()
rows = [l for l in table.splitlines() if l.startswith("| C")]
own = sum(1 for l in rows if re.match(r"\| (C\d\d)-\d \|.*\| \*\*[^*]*\b\1\b", l))
missed = [l.split("|")[1].strip() for l in rows if "**missed**" in l or "not tried" in l]
other = [l.split("|")[1].strip() for l in rows if l.split("|")[1].strip() not in missed
         and not re.match(r"\| (C\d\d)-\d \|.*\| \*\*[^*]*\b\1\b", l)]
intro = """### 13.5 Seeded defects (independent sub-agents; `seeded/<id>/meta.json` has the details)
%d changes (six per property, in two rounds of three, and a third round of eight for C09, C12 and C15 - ids 7..9) were
produced by fresh sub-agents that saw only the text of one property (after the first round also one-line summaries of the
changes that existed, so as not to repeat them) and a scratch
worktree of `/repo`; each was confirmed here (`harness/confirm_seed.sh`: builds, unedited `make check` passes, its demonstration
passes on the unchanged build and fails on the changed one) before it was kept. `harness/try_seed.sh` runs a registered check
against a scratch worktree with the change applied (REPO / VERIF_BUILD / VERIF_OUT redirected, a frozen copy of `spec/`);
`harness/seedtable.py` rebuilds this table from the trial logs of the last complete re-trial (every change against the final
state of the checks, quick tier). %d are reported by the check of their own property; %s
%s

""" % (len(rows), own,
       ("%d only by the check of a neighbouring property (%s): the C03 changes of the second round are in `check.c` / `sync.c` "
        "(the repair logic of the array, which C05 validates), not in the raid library that the check of C03 drives directly."
        % (len(other), ", ".join(other))) if other else "none needs a neighbouring check.",
       ("Not caught in that re-trial: %s." % ", ".join(missed)) if missed else "None is missed.")
closing = """
Each miss led to an extension of the model/generators rather than to a special case. First round: block ranges, copies, the
grammar of interrupted syncs, short reads, witness replay, the filters of fix (`-d -f -m -e -b`), the hash migration
(`rehash`), `-R`, reduced hash sizes, links and directories in check/fix, restore-from-backup operations, altered writes
(`flip`) with the verification failure path of `ContentSave.tla`, "other stripes are processed normally" for I/O errors,
format-3 arrays in the kill sweeps, directed histories for the frame of fix and for link kinds. Second round: the scan by inode
numbers (trusted UUIDs) with finding F13, `--force-nocopy` in check/fix, scanner-thread skew and the other C13 scenarios, faults
in scrubs over pending changes and during a hash migration, cross-override refusals and the lock with a lost content copy, the
golden arrays of section 13.2, and the directed histories listed there. Third round (run in the last hours, five of eight missed
at first): the books kept by the `rehash` command (C15-7), nothing written through a symbolic link standing where a recorded
file was (C12-7) and the last name of a hard-linked file under a selection (C12-8) became checks; C12-9 (a content file inside a
data disk taken for data) is reported by the check of C18, whose statement names it ("the tool's own content ... files
always"); C09-7 turns a clean rejection of one flipped bit (exit 1) into an assertion failure (SIGABRT): the content file is
still rejected with a failing status and nothing is changed, and since `os_abort()` is the tool's own way of rejecting most
damaged content the check of C09 accepts that exit - read here as not violating the statement, and listed as missed. Two changes of the first round (C04-2, C06-2) and one
of C01 (C01-2) had been caught by a single random history each; when the option noise of the second round shifted the random
histories they were missed, and each got a directed history of its own (several rotten blocks in one file, a deleted block
next to a rotten one in a sync, files with stamps one second apart exchanging names) - a reminder that a catch by one random
history is not a stable catch.

"""
p = "/verif/DESIGN.md"
s = open(p).read()
a = s.index("### 13.5 Seeded defects")
b = s.index("## Appendix A.")
s = s[:a] + intro + "| id | what the change does | caught by (quick tier, first report) |\n|---|---|---|\n" + "\n".join(rows) + "\n" + closing + s[b:]
open(p, "w").write(s)
print("rows", len(rows), "own", own, "other", other, "missed", missed)
