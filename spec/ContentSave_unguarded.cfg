\* sanity: without the write-all / verify-all / rename order the invariant CopiesWhole must fail
CONSTANTS NCopies = 2  NChunks = 2  NSaves = 1  WriteFaults = TRUE  VerifyAll = TRUE  Guarded = FALSE
SPECIFICATION Spec
INVARIANT CopiesWhole
CHECK_DEADLOCK FALSE
