------------------------------ MODULE SplitMap ------------------------------
(***************************************************************************)
(* C17: one parity level stored in several files ("splits").               *)
(*                                                                         *)
(* Constant-level transcription of cmdline/parity.c:                       *)
(*   LookupT  : parity_split_find (827-844): byte offset of a stripe ->    *)
(*              (split, offset in the split), by the RECORDED sizes only;  *)
(*   Lookup   : the same as a closed formula (SplitMapMC checks equality); *)
(*   GrowTo   : result of parity_handle_fill (374-489) as a closed formula *)
(*              (SplitMapFill.tla checks it against the loop);             *)
(*   Chsize   : parity_chsize (541-660) with parity_split_is_fixed and     *)
(*              parity_handle_chsize: which split is resized to what.      *)
(* SplitMapMC.tla wraps them into a state machine (grow / shrink / lose a  *)
(* file / fix / junk tail / drop or add a split) with the invariants of    *)
(* the property; SplitMapTrace.tla validates the resize steps of the real  *)
(* binary against Chsize.                                                  *)
(*                                                                         *)
(* Sizes, offsets and limits are in one unit (bytes for real traces);      *)
(* B = block size in that unit.  Splits are numbered from 1 here           *)
(* (s - 1 in the C code).  limit 0 = no limit.                             *)
(***************************************************************************)
EXTENDS Integers, Sequences, FiniteSets, TLC, SequencesExt

CONSTANT B

Eager(f) == f @@ <<>>
Sum(s) == FoldLeft(LAMBDA a, b : a + b, 0, s)
Before(sizes, s) == Sum(SubSeq(sizes, 1, s - 1))
Align(x) == x - (x % B)
Indices(n) == [i \in 1..n |-> i]

(***************************************************************************)
(* parity_split_find                                                       *)
(***************************************************************************)
NoSplit == [s |-> 0, o |-> 0]
(* literal: for each split in order: if offset < split->size then return it; else offset -= split->size.  None: 0 *)
LookupT(sizes, off) ==
    LET step(acc, s) == IF acc.found THEN acc
                        ELSE IF acc.o < sizes[s] THEN [found |-> TRUE, s |-> s, o |-> acc.o]
                        ELSE [found |-> FALSE, s |-> 0, o |-> acc.o - sizes[s]]
        r == FoldLeft(step, [found |-> FALSE, s |-> 0, o |-> off], Indices(Len(sizes)))
    IN IF off < 0 \/ ~r.found THEN NoSplit ELSE [s |-> r.s, o |-> r.o]
(* closed form: the split whose interval [Before, Before + size) contains the offset *)
Lookup(sizes, off) ==
    LET hit == {s \in 1..Len(sizes) : Before(sizes, s) <= off /\ off < Before(sizes, s) + sizes[s]}
    IN IF off < 0 \/ hit = {} THEN NoSplit
       ELSE LET s == CHOOSE x \in hit : TRUE IN [s |-> s, o |-> off - Before(sizes, s)]

(***************************************************************************)
(* parity_handle_fill / parity_handle_chsize                               *)
(***************************************************************************)
(* growing an aligned file from `from` towards `to`: every single grow beyond the limit fails, the binary
   search ends at the largest block-aligned size within the limit (SplitMapFill.tla) *)
GrowTo(from, to, lim) == IF lim = 0 \/ to <= lim THEN to
                         ELSE IF Align(lim) > from THEN Align(lim) ELSE from
(* new size of a file of size f asked to become run *)
HandleChsize(f, run, lim) == IF f < run THEN GrowTo(Align(f), run, lim)      \* fill: base = st_size & ~mask
                             ELSE IF f > run THEN run                        \* shrink
                             ELSE f

(***************************************************************************)
(* parity_chsize(handle, parity, size):                                    *)
(*   sizes : recorded split sizes (content file; for a split without a     *)
(*           record parity_create takes the size of the file)              *)
(*   fs    : sizes of the files as found                                   *)
(*   lims  : per-split limits in force during this call                    *)
(*   total : requested size of the level = blockmax * block_size           *)
(* Result [ok, sizes, fs]: on failure the command stops without saving the *)
(* content file: the recorded sizes stay, the files stay as resized so far.*)
(***************************************************************************)
IsFixed(sizes, s) == s + 1 <= Len(sizes) /\ sizes[s + 1] # 0     \* parity_split_is_fixed: "if the next it's 0, this one is growing"

ChsizeStep(old, f0, lims, acc, s) ==
        IF ~acc.ok THEN acc
        ELSE LET fixed0 == IsFixed(old, s)                 \* the size of the next split is still the recorded one
                 fixed == fixed0 /\ ~(acc.size <= old[s])   \* "if the required size is smaller, we have to reduce also the file"
                 run == IF fixed THEN old[s] ELSE acc.size
                 nf == HandleChsize(f0[s], run, lims[s])
             IN IF nf > run THEN [acc EXCEPT !.ok = FALSE, !.fs[s] = nf]                       \* "Unexpected over resizing"
                ELSE IF fixed /\ nf < run THEN [acc EXCEPT !.ok = FALSE, !.fs[s] = nf]         \* "Failed restoring parity file"
                ELSE [acc EXCEPT !.sizes[s] = nf, !.fs[s] = nf, !.size = acc.size - nf]        \* "store what we have allocated"

Chsize(sizes, f0, lims, total) ==
    LET step(acc, s) == ChsizeStep(sizes, f0, lims, acc, s)
        r == FoldLeft(step, [ok |-> TRUE, size |-> total, sizes |-> sizes, fs |-> f0], Indices(Len(sizes)))
        ok == r.ok /\ r.size = 0                            \* "Failed to allocate all the required parity space"
    IN [ok |-> ok, sizes |-> IF ok THEN r.sizes ELSE sizes, fs |-> r.fs]

(***************************************************************************)
(* What the property states about a map and about a resize.                *)
(***************************************************************************)
NBlocks(sizes) == Sum(sizes) \div B
(* every stripe lies within one file *)
NoStraddle(sizes) == /\ \A s \in 1..Len(sizes) : sizes[s] % B = 0
                     /\ \A p \in 0..(NBlocks(sizes) - 1) : LET x == Lookup(sizes, p * B) IN x.s # 0 /\ x.o % B = 0 /\ x.o + B <= sizes[x.s]
(* position -> (split, offset) is a bijection onto the block slots of the recorded sizes *)
MapBijection(sizes) ==
    LET n == NBlocks(sizes)
        img == {Lookup(sizes, p * B) : p \in 0..(n - 1)}
        slots == UNION {{[s |-> s, o |-> k * B] : k \in 0..((sizes[s] \div B) - 1)} : s \in 1..Len(sizes)}
    IN Cardinality(img) = n /\ img = slots
LastUsed(sizes) == IF \E s \in 1..Len(sizes) : sizes[s] # 0 THEN CHOOSE s \in 1..Len(sizes) : sizes[s] # 0 /\ \A t \in (s + 1)..Len(sizes) : sizes[t] = 0
                   ELSE 1
(* shrinking cuts the map at the new total: leading splits keep their size, trailing ones are emptied *)
Clip(sizes, total) == [s \in 1..Len(sizes) |-> LET b == Before(sizes, s)
                                               IN IF total <= b THEN 0 ELSE IF total >= b + sizes[s] THEN sizes[s] ELSE total - b]
(* a successful resize from the recorded sizes `old` (sum = oldtotal) to `new` for `total` *)
ResizeOK(old, new, total) ==
    /\ Sum(new) = total
    /\ NoStraddle(new)
    /\ IF total <= Sum(old) THEN new = Clip(old, total)
       ELSE /\ \A s \in 1..(LastUsed(old) - 1) : new[s] = old[s]         \* only the last used split (and the unused ones after it) grow
            /\ \A s \in LastUsed(old)..Len(old) : new[s] >= old[s]
(* every position below both totals keeps its place *)
PlacesKept(old, new) ==
    \A p \in 0..(NBlocks(old) - 1) : p < NBlocks(new) => Lookup(new, p * B) = Lookup(old, p * B)
=============================================================================
