\* quick tier: mono mode (io_max = 1), 2 readers, 2 writers, up to 2 failing tasks, all reader outcomes
SPECIFICATION FairSpec
CONSTANTS
  N = 1
  RD = 2
  RP = 0
  W = 2
  BlockStart = 0
  BlockMax = 5
  Enabled = {0, 1, 3, 4}
  SignalOutside = FALSE
  Spurious = TRUE
  ROutcomes <- OutAll
  WOutcomes <- OutWSoft
  MaxFail = 2
  AllowSkip = TRUE
  AllowStop = TRUE
  AllowBail = TRUE
INVARIANTS TypeOK Asserts Ownership OnceInOrder Deterministic ErrorsAccountedR WaitSane
PROPERTY Termination
CHECK_DEADLOCK TRUE
