-------------------------- MODULE ContentSaveTrace --------------------------
\* Trace validation of ContentSave.tla: the system calls that the real snapraid performs on its content paths
\* (recorded by the LD_PRELOAD shim, mapped to events by harness/py/props/C09.py) must be a behaviour of the
\* specification, and what is found on disk after an injected kill must be the state the specification is in.
\*
\* One file (environment variable TRACE) holds many recorded runs of arrays with the same number of copies:
\*   {"e":"Header","copies":N,"chunks":K,"saves":S}
\*   {"e":"Reset","tmp":[bool per copy]}            start of a run; which stale temporaries exist
\*   {"e":"Begin"} {"e":"Remove","c":1} {"e":"Create","c":1} ... {"e":"Write","c":1} ... {"e":"Fsync","c":1} ...
\*   {"e":"Read","c":2,"eof":false} ... {"e":"Read","c":2,"eof":true} ... {"e":"Rename","c":1} ... {"e":"End"}
\*   {"e":"Kill"}                                   the injected SIGKILL
\*   {"e":"Observe","file":[generation per copy, -1 = not a complete image],"tmp":[bool per copy]}
\* A trace is accepted when TLC consumes every line (POSTCONDITION Accepted).
EXTENDS Integers, Sequences, FiniteSets, TLC, Json, IOUtils

TraceFile == IF "TRACE" \in DOMAIN IOEnv THEN IOEnv.TRACE ELSE "trace.ndjson"
Tr == ndJsonDeserialize(TraceFile)
Hdr == Tr[1]

VARIABLES file, tmp, gen, pc, done, old, okend, l

M == INSTANCE ContentSave WITH NCopies <- Hdr.copies, NChunks <- Hdr.chunks, NSaves <- Hdr.saves, Guarded <- TRUE, WriteFaults <- TRUE, VerifyAll <- TRUE

vars == <<file, tmp, gen, pc, done, old, okend, l>>
Copies == 1..Hdr.copies
Ev == Tr[l]
Is(e) == l <= Len(Tr) /\ Ev.e = e

Init == /\ l = 2
        /\ file = [c \in Copies |-> 0]
        /\ tmp = [c \in Copies |-> [ex |-> FALSE, n |-> 0, syn |-> FALSE, bad |-> FALSE]]
        /\ gen = 0 /\ pc = "idle" /\ done = M!NoneDone /\ old = file /\ okend = FALSE

Reset == /\ Is("Reset")
         /\ file' = [c \in Copies |-> 0]
         /\ tmp' = [c \in Copies |-> [ex |-> Ev.tmp[c], n |-> IF Ev.tmp[c] THEN 1 ELSE 0, syn |-> FALSE, bad |-> FALSE]]
         /\ gen' = 0 /\ pc' = "idle" /\ done' = M!NoneDone /\ old' = file' /\ okend' = FALSE

\* reads of the temporary before its end: the guard of Verify must hold (everything written and flushed,
\* nothing renamed yet); the copy counts as verified when its end was reached
ReadMore == /\ Is("Read") /\ ~Ev.eof
            /\ pc = "save" /\ done.cr = Copies /\ done.ren = {}
            /\ \A d \in Copies : (tmp[d].n = Hdr.chunks /\ tmp[d].syn)
            /\ UNCHANGED <<file, tmp, gen, pc, done, old, okend>>

Observe == /\ Is("Observe")
           /\ \A c \in Copies : (file[c] = Ev.file[c] /\ tmp[c].ex = Ev.tmp[c])
           /\ UNCHANGED <<file, tmp, gen, pc, done, old, okend>>

Next == /\ l' = l + 1
        /\ \/ Reset
           \/ (Is("Begin") /\ M!Begin)
           \/ (Is("Remove") /\ M!TmpRemove(Ev.c))
           \/ (Is("Create") /\ M!TmpCreate(Ev.c))
           \/ (Is("Write") /\ M!TmpWrite(Ev.c))
           \/ (Is("WriteBad") /\ M!TmpWriteBad(Ev.c))
           \/ (Is("Exit") /\ pc \in {"failed", "idle"} /\ pc' = "idle" /\ UNCHANGED <<file, tmp, gen, done, old, okend>>)
           \/ (Is("Fsync") /\ M!TmpFsync(Ev.c))
           \/ ReadMore
           \* the copies are re-read by one thread each: after one of them has failed the others are still read to their end
           \/ (Is("Read") /\ pc = "failed" /\ UNCHANGED <<file, tmp, gen, pc, done, old, okend>>)
           \/ (Is("Read") /\ Ev.eof /\ M!Verify(Ev.c))
           \/ (Is("Rename") /\ M!Rename(Ev.c))
           \/ (Is("End") /\ M!End)
           \/ (Is("Kill") /\ (IF pc = "save" THEN M!Kill ELSE UNCHANGED <<file, tmp, gen, pc, done, old, okend>>))
           \/ Observe

Spec == Init /\ [][Next]_vars

CopiesWhole == M!CopiesWhole
SomeCopyLoads == M!SomeCopyLoads
FirstIsNewest == M!FirstIsNewest
EqualAfterSuccess == M!EqualAfterSuccess
Accepted == TLCGet("stats").diameter = Len(Tr) - 1 + 1
=============================================================================
