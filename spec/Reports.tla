------------------------------ MODULE Reports ------------------------------
(***************************************************************************)
(* C20: the reports and derived views of SnapRAID as FUNCTIONS of the      *)
(* recorded content state, in the vocabulary of Array.tla.                 *)
(*                                                                         *)
(* Written from the manual (snapraid.txt 4.2, 5.1, 5.10, 5.11, 5.12, 7.11, *)
(* 7.12) and the statement of property C20, not from list.c / dup.c /      *)
(* status.c / pool.c.  Where the statement leaves a freedom (which file of *)
(* a duplicate class is the representative, which disk a pool link points  *)
(* to when two disks record the same path, the order of lines) the report  *)
(* is specified as a relation `...OK(state, output)` and, next to it, one  *)
(* function that satisfies the relation (checked by TLC in ReportsMC).     *)
(*                                                                         *)
(*   C.cf[d][name] = [sz, mt = <<sec, nsec>>, bl : Seq([pos, st, h])]      *)
(*   C.del[d][pos+1], C.info[pos+1] = [p, t, bad, js (, rh)]               *)
(*   L[d][name]    = [k : "symlink" | "hardlink", to : string]             *)
(*   pool tree     = [path -> [k : "l" | "f" | "d", to, h]]                *)
(*                                                                         *)
(* No RECURSIVE operators (TLC evaluates their arguments by name).         *)
(***************************************************************************)
EXTENDS Array, Integers

SumF(f) == FoldFunction(LAMBDA a, b : a + b, 0, f)
Card(S) == Cardinality(S)

RFiles(C) == UNION {{<<d, n>> : n \in DOMAIN C.cf[d]} : d \in D}
RLinks(L) == UNION {{<<d, n>> : n \in DOMAIN L[d]} : d \in D}
FileOf(C, x) == C.cf[x[1]][x[2]]

(***************************************************************************)
(* list : exactly the recorded files and links.                            *)
(***************************************************************************)
ListFiles(C) == {[d |-> x[1], n |-> x[2], sz |-> FileOf(C, x).sz, s |-> FileOf(C, x).mt[1], ns |-> FileOf(C, x).mt[2]] : x \in RFiles(C)}
ListLinks(L) == {[d |-> x[1], n |-> x[2], k |-> L[x[1]][x[2]].k, to |-> L[x[1]][x[2]].to] : x \in RLinks(L)}
ListOf(C, L) == [files |-> ListFiles(C), links |-> ListLinks(L),
                 file_count |-> Card(RFiles(C)),
                 file_size |-> SumF([x \in RFiles(C) |-> FileOf(C, x).sz]),
                 link_count |-> Card(RLinks(L))]

(***************************************************************************)
(* dup : two non-empty files all of whose blocks carry an up-to-date hash  *)
(* (BLK, REP) are duplicates iff their hash sequences are equal.  Files    *)
(* with a CHG block, and empty files, are never reported.                  *)
(***************************************************************************)
HashSeq(f) == [i \in 1..Len(f.bl) |-> f.bl[i].h]
DupEligible(f) == f.sz > 0 /\ Len(f.bl) > 0 /\ \A i \in 1..Len(f.bl) : f.bl[i].st \in {"BLK", "REP"}
DupCand(C) == {x \in RFiles(C) : DupEligible(FileOf(C, x))}
SameHashes(C, x, y) == HashSeq(FileOf(C, x)) = HashSeq(FileOf(C, y))
DupClasses(C) == {{y \in DupCand(C) : SameHashes(C, x, y)} : x \in DupCand(C)}      \* a partition of DupCand(C)
DupGroups(C) == {K \in DupClasses(C) : Card(K) >= 2}

(* a report is a set of pairs <<file, file>>; its meaning is the equivalence it generates *)
Connected(K, E) == \A S \in SUBSET K : (S # {} /\ S # K) =>
                      \E e \in E : e[1] \in K /\ e[2] \in K /\ ((e[1] \in S) # (e[2] \in S))
DupReportOKG(G, E) ==
    /\ \A e \in E : e[1] # e[2] /\ \E K \in G : e[1] \in K /\ e[2] \in K                   \* nothing extra
    /\ \A K \in G : Connected(K, E)                                                         \* nothing missing
DupReportOK(C, E) == DupReportOKG(DupGroups(C), E)
(* dup.c: every later file of a class against one representative: |K| - 1 lines per class *)
DupCount(C) == SumF([K \in DupGroups(C) |-> Card(K) - 1])
DupSize(C) == SumF([K \in DupGroups(C) |-> (Card(K) - 1) * FileOf(C, CHOOSE x \in K : TRUE).sz])
(* one report that satisfies the relation: rep chooses the representative *)
DupStar(C, rep(_)) == UNION {{<<y, rep(K)>> : y \in K \ {rep(K)}} : K \in DupGroups(C)}

(***************************************************************************)
(* status : per position and summary, exactly as recorded.                 *)
(* Left out (not functions of the abstract recorded state): total/free     *)
(* blocks of disks and parities, max_by_space/parity, wasted, parity_size_ *)
(* max (file-system figures sampled by the last sync), best_hash (CPU),    *)
(* prev_hash (no hash migration in the histories), memory figures, the     *)
(* graph (a rendering of info_time).                                       *)
(***************************************************************************)
StatusBlocks(C) ==
    LET M == IF "ix" \in DOMAIN C THEN C ELSE WithIndex(C)
        bm == AllocatedMax(C)
    IN Eager([q \in 1..bm |->
          LET inf == InfoAt(C, q - 1)
          IN [pos |-> q - 1, info |-> inf.p, t |-> inf.t,
              used |-> \E d \in D : HasFile(BlockAt(M, d, q - 1)),
              unsynced |-> \E d \in D : InvalidParity(BlockAt(M, d, q - 1)),
              bad |-> inf.p /\ inf.bad, rh |-> inf.p /\ IsRh(inf), js |-> inf.p /\ inf.js]])

ExtraFragments(f) == Card({j \in 2..Len(f.bl) : f.bl[j - 1].pos + 1 # f.bl[j].pos})
ZeroSub(f) == f.mt[2] = 0
DiskStatus(C, d) ==
    LET F == DOMAIN C.cf[d]
        last == {C.cf[d][n].bl[Len(C.cf[d][n].bl)].pos : n \in {m \in F : Len(C.cf[d][m].bl) > 0}}
    IN [file_count |-> Card(F),
        block_count |-> SumF([n \in F |-> Len(C.cf[d][n].bl)]),
        fragmented |-> Card({n \in F : ExtraFragments(C.cf[d][n]) > 0}),
        excess |-> SumF([n \in F |-> ExtraFragments(C.cf[d][n])]),
        zerosub |-> Card({n \in F : ZeroSub(C.cf[d][n])}),
        file_size |-> SumF([n \in F |-> C.cf[d][n].sz]),
        allocated |-> Max({0} \cup last) + 1]

(* sorted scrub times; a just-synced (not yet scrubbed) stripe sorts after a scrubbed one of the same time *)
InfoKeys(C) == LET B == StatusBlocks(C)
               IN SortSeq(SelectSeq([q \in 1..Len(B) |-> IF B[q].info THEN B[q].t + (IF B[q].js THEN 1 ELSE 0) ELSE 0 - 1],
                                    LAMBDA v : v >= 0), LAMBDA a, b : a < b)
DayAgo(ref, now) == IF now < ref THEN 0 ELSE (now - ref) \div 86400

StatusOf(C, now) ==
    LET B == StatusBlocks(C)
        bm == Len(B)
        P == 1..bm
        bad == {q \in P : B[q].bad}
        keys == InfoKeys(C)
        cnt == Len(keys)
        ds == Eager([d \in D |-> DiskStatus(C, d)])
        uns == Card({q \in P : B[q].used /\ B[q].unsynced})
        unscr == Card({q \in P : B[q].js})
    IN [blocks |-> B,
        block_count |-> bm,
        has_unsynced |-> uns,
        has_unscrubbed |-> unscr,
        has_rehash |-> Card({q \in P : B[q].rh}),
        has_bad |-> IF bad = {} THEN <<0, 0, 0>> ELSE <<Card(bad), Min(bad) - 1, Max(bad) - 1>>,
        bad_positions |-> {q - 1 : q \in bad},
        disks |-> ds,
        file_count |-> SumF([d \in D |-> ds[d].file_count]),
        file_block_count |-> SumF([d \in D |-> ds[d].block_count]),
        fragmented |-> SumF([d \in D |-> ds[d].fragmented]),
        excess |-> SumF([d \in D |-> ds[d].excess]),
        zerosub |-> SumF([d \in D |-> ds[d].zerosub]),
        file_size |-> SumF([d \in D |-> ds[d].file_size]),
        parity_size |-> bm * BS,
        zero_files |-> {x \in RFiles(C) : ZeroSub(FileOf(C, x))},
        info_count |-> cnt,
        info_times |-> {[t |-> B[q].t, js |-> B[q].js,
                         n |-> Card({r \in P : B[r].info /\ B[r].t = B[q].t /\ B[r].js = B[q].js})] : q \in {r \in P : B[r].info}},
        days |-> IF cnt = 0 THEN <<0, 0, 0>>
                 ELSE <<DayAgo(keys[1], now), DayAgo(keys[(cnt \div 2) + 1], now), DayAgo(keys[cnt], now)>>,
        pct_unscrubbed |-> IF bm = 0 THEN 0 ELSE (unscr * 100 + bm - 1) \div bm,
        pct_synced |-> IF bm = 0 THEN 0 ELSE ((bm - uns) * 100) \div bm]

(* the zero-sub-second lines of one disk: all of them up to 49, else 50 of them, the last flagged "more follow" *)
ZeroLinesOK(C, d, lines) ==
    LET Z == {n \in DOMAIN C.cf[d] : ZeroSub(C.cf[d][n])}
        names == {x.n : x \in lines}
        more == {x \in lines : x.more}
    IN /\ Card(names) = Card(lines)
       /\ names \subseteq Z
       /\ IF Card(Z) < 50 THEN names = Z /\ more = {} ELSE Card(names) = 50 /\ Card(more) = 1

(***************************************************************************)
(* pool : the pool directory after `pool` holds exactly one symbolic link  *)
(* per recorded path (file or link), at the same relative path, pointing   *)
(* to it on (one of) the disk(s) that record it, through the share prefix  *)
(* when one is configured; symbolic links that were there before are gone  *)
(* unless they are such links; directories exist exactly where something   *)
(* is below them; everything that is neither link nor directory is kept.   *)
(* A foreign file that sits on a recorded path is kept (no link there).    *)
(* prefix[d] = what a link to disk d starts with (disk directory, or       *)
(* share/<disk name>/).                                                    *)
(***************************************************************************)
Slashes(p) == {i \in 1..Len(p) : SubSeq(p, i, i) = "/"}
Ancestors(p) == {SubSeq(p, 1, i - 1) : i \in Slashes(p)}
PoolPaths(C, L) == {x[2] : x \in RFiles(C) \cup RLinks(L)}
Owners(C, L, n) == {d \in D : n \in DOMAIN C.cf[d] \/ n \in DOMAIN L[d]}
Target(prefix, d, n) == prefix[d] \o n
Foreign(P) == {p \in DOMAIN P : P[p].k = "f"}
LinksIn(P) == {p \in DOMAIN P : P[p].k = "l"}
DirsIn(P) == {p \in DOMAIN P : P[p].k = "d"}

PoolOK(C, L, prefix, P0, P1) ==
    LET want == PoolPaths(C, L) \ Foreign(P0)
    IN /\ Foreign(P1) = Foreign(P0)
       /\ \A p \in Foreign(P0) : P1[p] = P0[p]
       /\ LinksIn(P1) = want
       /\ \A p \in want : \E d \in Owners(C, L, p) : P1[p].to = Target(prefix, d, p)
       /\ DirsIn(P1) = UNION {Ancestors(p) : p \in want \cup Foreign(P0)}
       /\ DOMAIN P1 = Foreign(P1) \cup LinksIn(P1) \cup DirsIn(P1)

DiskRank(d) == CHOOSE i \in 0..63 : ToString(i) = d
FirstOwner(C, L, n) == CHOOSE d \in Owners(C, L, n) : \A e \in Owners(C, L, n) : DiskRank(d) <= DiskRank(e)
PoolOf(C, L, prefix, P0) ==
    LET want == PoolPaths(C, L) \ Foreign(P0)
        dirs == UNION {Ancestors(p) : p \in want \cup Foreign(P0)}
    IN Eager([p \in want \cup Foreign(P0) \cup dirs |->
                IF p \in Foreign(P0) THEN P0[p]
                ELSE IF p \in want THEN [k |-> "l", to |-> Target(prefix, FirstOwner(C, L, p), p), h |-> ""]
                ELSE [k |-> "d", to |-> "", h |-> ""]])
(* a pool tree the command can work on: no foreign file where a directory is needed, no recorded path below another *)
PoolFeasible(C, L, P0) ==
    LET want == PoolPaths(C, L) \ Foreign(P0)
    IN \A p \in want \cup Foreign(P0) : Ancestors(p) \cap (want \cup Foreign(P0)) = {}
=============================================================================
