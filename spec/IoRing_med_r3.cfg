\* thorough tier: 3 slots, 3 readers, 1 writer, 4 positions, no failing task; with liveness (0.32 M distinct states)
SPECIFICATION FairSpec
CONSTANTS
  N = 3
  RD = 3
  RP = 0
  W = 1
  BlockStart = 0
  BlockMax = 5
  Enabled = {0, 1, 3, 4}
  SignalOutside = FALSE
  Spurious = TRUE
  ROutcomes <- OutSoftHard
  WOutcomes <- OutWSoft
  MaxFail = 0
  AllowSkip = TRUE
  AllowStop = TRUE
  AllowBail = TRUE
INVARIANTS TypeOK Asserts Ownership OnceInOrder Deterministic ErrorsAccountedR WaitSane
PROPERTY Termination
CHECK_DEADLOCK TRUE
