\* verification result of the last copy only (must violate CopiesWhole): 2 content copies, 2 chunks, 2 saves per command (sync: before and after the parity update)
CONSTANTS NCopies = 2  NChunks = 2  NSaves = 2  WriteFaults = TRUE  VerifyAll = FALSE  Guarded = TRUE
SPECIFICATION Spec
INVARIANT TypeOK
INVARIANT CopiesWhole
INVARIANT SomeCopyLoads
INVARIANT FirstIsNewest
INVARIANT EqualAfterSuccess
CHECK_DEADLOCK FALSE
