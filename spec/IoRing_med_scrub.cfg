\* thorough tier: scrub/dry shape, 4 slots, 2 data + 1 parity reader, no writer, 5 positions; with liveness (0.59 M distinct states)
SPECIFICATION FairSpec
CONSTANTS
  N = 4
  RD = 2
  RP = 1
  W = 0
  BlockStart = 0
  BlockMax = 6
  Enabled = {0, 1, 3, 4, 5}
  SignalOutside = FALSE
  Spurious = TRUE
  ROutcomes <- OutSoftHard
  WOutcomes <- OutWSoft
  MaxFail = 1
  AllowSkip = TRUE
  AllowStop = TRUE
  AllowBail = TRUE
INVARIANTS TypeOK Asserts Ownership OnceInOrder Deterministic ErrorsAccountedR WaitSane
PROPERTY Termination
CHECK_DEADLOCK TRUE
