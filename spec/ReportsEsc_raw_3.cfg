SPECIFICATION Spec
CONSTANT MaxLen = 3
INVARIANT RawIsDecodable
CHECK_DEADLOCK FALSE
