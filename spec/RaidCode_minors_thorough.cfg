\* RaidCode, Part = "minors", tier thorough (witness_gf.json / witness_mat.json must be in the working directory;
\* props/C02.py and props/C03.py copy the spec next to freshly generated witnesses and run TLC there)
CONSTANTS
  Tier = "thorough"
  Part = "minors"
  LeadW = 24
  WinW = 16
  FullMaxK = 3
  PowMaxK = 3
  CaseNd = {1, 2, 3, 12}
  BoundaryCols = {0, 1, 31, 32, 33, 127, 128, 249, 250}
INIT RCInit
NEXT JobStep
INVARIANT RCJobInv
