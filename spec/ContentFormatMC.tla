-------------------------- MODULE ContentFormatMC --------------------------
\* Model-checking harness of ContentFormat.tla.
\*
\*  Part "gen"   : generates small ContentStates from choice vectors (Build), covering every record kind and
\*                 run shape, encodes them, checks the round trip through the decoder (CaseOK) and - when the
\*                 environment variable CF_DUMP names a file - writes the corpus (state, bytes) as ndjson for
\*                 the conformance harness (props/C10.py, props/C09.py).
\*  Part "check" : reads (state, now, bytes) lines produced by the harness from content files that the real
\*                 tool wrote (CF_LINES) and checks EncodeRaw(state, now) = bytes and the decoder (LineOK).
\*  Part "damage": for the corpus cases listed in CF_DAMAGE: every single-bit flip of every byte and every
\*                 truncation of Encode(s) is rejected by the decoder (DamageOK)  [C09 (a), model side].
\* One job = one TLC state (as in GF256.tla) so that the 16 workers share the work.
EXTENDS ContentFormat

CONSTANT Part
VARIABLES job, phase

Env(k, dflt) == IF k \in DOMAIN IOEnv THEN IOEnv[k] ELSE dflt

-----------------------------------------------------------------------------
\* generator

SB == 98
SG == 103
SP == 112
NowU == <<24429, 21056>>                     \* 1601000000, the frozen clock of the harness
TA == USub(NowU, UN(800))
TOld == USub(NowU, UN(1048576))
TFuture == UAdd(NowU, UN(80))

Run(p0, n, st) == [j \in 1..n |-> <<p0 + j - 1, st>>]
D(f, d, x) == [f |-> f, d |-> d, x |-> x]

\* layouts: per disk  f = files (each a sequence of <<small position, state>>), d = deleted small positions
\* (ascending), x = 1 adds links and directories
Lay == <<
  \* 1 single blocks
  << D(<<Run(0, 1, SB)>>, <<>>, 0), D(<<Run(0, 1, SB)>>, <<>>, 0) >>,
  \* 2 long run; a run cut by a state change
  << D(<<Run(0, 6, SB)>>, <<>>, 0), D(<<Run(0, 2, SB) \o Run(2, 1, SG)>>, <<>>, 0) >>,
  \* 3 alternating states on consecutive positions
  << D(<< <<<<0, SB>>, <<1, SG>>, <<2, SP>>, <<3, SB>>, <<4, SG>>, <<5, SP>>>> >>, <<>>, 0),
     D(<<Run(0, 2, SG) \o Run(2, 2, SP)>>, <<>>, 0) >>,
  \* 4 equal states on non-consecutive, descending and split positions; two files interleaved
  << D(<< <<<<0, SB>>, <<2, SB>>, <<4, SB>>>>, <<<<1, SB>>, <<3, SB>>, <<5, SB>>>> >>, <<>>, 0),
     D(<< <<<<5, SB>>, <<4, SB>>, <<3, SB>>>>, Run(0, 2, SB) \o Run(6, 2, SB) >>, <<>>, 0) >>,
  \* 5 empty files
  << D(<< <<>>, Run(0, 1, SB) >>, <<>>, 0), D(<< <<>> >>, <<>>, 0) >>,
  \* 6 deleted runs before, between and after files
  << D(<<Run(2, 2, SB), Run(7, 1, SB)>>, <<0, 1, 5, 6>>, 0), D(<<Run(0, 8, SB)>>, <<>>, 0) >>,
  \* 7 deleted blocks on positions no file uses (dropped by the normalisation)
  << D(<<Run(0, 1, SB)>>, <<1, 2>>, 0), D(<<Run(3, 1, SB)>>, <<1>>, 0) >>,
  \* 8 a disk that is empty after the normalisation loses its mapping (three disks)
  << D(<<Run(0, 1, SB)>>, <<>>, 0), D(<<>>, <<1>>, 0), D(<<Run(2, 1, SB)>>, <<>>, 0) >>,
  \* 9 links and directories, one disk with nothing else
  << D(<<Run(0, 1, SB)>>, <<>>, 1), D(<<>>, <<>>, 1) >>,
  \* 10 unsynced blocks only (no info needed)
  << D(<<Run(0, 2, SG)>>, <<>>, 0), D(<<Run(0, 1, SG) \o Run(2, 1, SP)>>, <<>>, 0) >>,
  \* 11 deleted runs covering the whole range and reaching the end (three disks)
  << D(<<Run(0, 4, SB)>>, <<>>, 0), D(<<>>, <<0, 1, 2, 3>>, 1), D(<<Run(0, 1, SP)>>, <<2, 3>>, 0) >>,
  \* 12 mixed, three disks
  << D(<<Run(0, 3, SB), <<<<3, SG>>, <<4, SG>>, <<6, SB>>>> >>, <<5>>, 1),
     D(<<Run(1, 2, SP) \o Run(3, 1, SB), Run(5, 2, SB)>>, <<0, 4>>, 0),
     D(<< <<>>, Run(7, 1, SG) >>, <<0, 1, 2>>, 0) >>
>>

HsSet == <<16, 2, 4, 8, 3, 15>>            \* 3 and 15 exist only in the model: the configuration parser wants powers of 2
ParSet == << <<1>>, <<1, 1>>, <<2, 1>>, <<1, 3>>, <<1, 1, 1, 1, 1, 1>> >>
KindSet == <<117, 107, 109>>
BsSet == <<1024, 262144>>
NameSet == << <<97>>, <<65, 58, 98>>, <<120, 92, 121>>, <<115, 112, 32, 97, 99, 101>>, <<110, 108, 10, 120>>,
              <<128>>, <<255, 254, 200>>, <<100, 105, 114, 47, 115, 117, 98, 47, 102>>,
              [i \in 1..130 |-> 97 + (i % 26)] >>
D63 == <<0, 0, 0, 0, 0, 0, 0, 0, 0, 1>>                           \* 2^63
D63m == <<127, 127, 127, 127, 127, 127, 127, 127, 127>>           \* 2^63 - 1
D64m == <<127, 127, 127, 127, 127, 127, 127, 127, 127, 1>>        \* 2^64 - 1
\* sec, nsec, inode base
TmSet == << [sec |-> NatDig(1600000011), nsec |-> 0, ino |-> NatDig(1000)],
            [sec |-> <<0>>, nsec |-> -1, ino |-> <<0>>],
            [sec |-> NatDig(127), nsec |-> 999999999, ino |-> NatDig(120)],
            [sec |-> NatDig(128), nsec |-> 1, ino |-> <<0, 0, 0, 0, 16>>],
            [sec |-> <<127, 127, 127, 127, 7>>, nsec |-> 500000000, ino |-> NatDig(16380)],
            [sec |-> <<0, 0, 0, 0, 16>>, nsec |-> 127, ino |-> NatDig(2097150)],
            [sec |-> D63m, nsec |-> 128, ino |-> D64m],
            [sec |-> D64m, nsec |-> 0, ino |-> D63],
            [sec |-> D63, nsec |-> 16383, ino |-> D63m] >>
NLay == Len(Lay)
Dims == [lay |-> NLay, inf |-> 6, base |-> 6, hs |-> Len(HsSet), par |-> Len(ParSet), kind |-> Len(KindSet),
         nm |-> Len(NameSet), tm |-> Len(TmSet), mp |-> 4, bs |-> Len(BsSet)]

C0 == [lay |-> 2, inf |-> 1, base |-> 1, hs |-> 1, par |-> 1, kind |-> 1, nm |-> 1, tm |-> 1, mp |-> 1, bs |-> 1]

Smalls(L) == UNION { UNION { { f[j][1] : j \in 1..Len(f) } : f \in ToSet(L[d].f) } \cup ToSet(L[d].d) : d \in 1..Len(L) }
ReqSmalls(L) == UNION { UNION { { f[j][1] : j \in 1..Len(f) } : f \in ToSet(L[d].f) } : d \in 1..Len(L) }
BlkSmalls(L) == UNION { UNION { { f[j][1] : j \in {j \in 1..Len(f) : f[j][2] = SB} } : f \in ToSet(L[d].f) } : d \in 1..Len(L) }
DelSmalls(L) == UNION { ToSet(L[d].d) : d \in 1..Len(L) }
MaxSmall(L) == LET S == ReqSmalls(L) IN CHOOSE m \in S : \A x \in S : x <= m

\* shift of all positions: puts the layout across the varint length boundaries
BaseOf(b, mx) == CASE b = 1 -> UZ
                   [] b = 2 -> UN(125)
                   [] b = 3 -> UN(16381)
                   [] b = 4 -> UN(2097149)
                   [] b = 5 -> UN(268435453)
                   [] b = 6 -> USub(<<65535, 65534>>, UN(mx))          \* highest position 2^32 - 2

HashOf(id, hs) == IF id % 11 = 3 THEN [i \in 1..hs |-> 0]
                  ELSE IF id % 11 = 7 THEN [i \in 1..hs |-> 255]
                  ELSE [i \in 1..hs |-> (id * 37 + i * 11 + 5) % 256]
SeedOf(x) == [i \in 1..16 |-> (x * 29 + i * 7) % 256]
BumpD(d, k) == [d EXCEPT ![1] = (d[1] + k) % 128]                 \* distinct inodes per file
Ascii(n) == <<48 + n>>

Build(c) ==
    LET L == Lay[c.lay]
        nd == Len(L)
        hs == HsSet[c.hs]
        bs == BsSet[c.bs]
        base == BaseOf(c.base, MaxSmall(L))
        P(p) == UAdd(base, UN(p))
        par == ParSet[c.par]
        v3 == hs # 16 \/ \E l \in 1..Len(par) : par[l] > 1
        tm == TmSet[c.tm]
        MapOf(d) == IF c.mp = 2 THEN nd + 1 - d ELSE d
        DiskOfMap(m) == IF c.mp = 2 THEN nd + 1 - m ELSE m
        MapPos(d) == IF c.mp = 3 THEN <<0, 2, 5>>[d] ELSE d - 1
        Map(m) == LET d == DiskOfMap(m)
                  IN [name |-> <<100, 48 + d>>, pos |-> MapPos(d),
                      total |-> IF c.mp = 4 THEN <<65535, 65535>> ELSE UN(4194304),
                      free |-> IF c.mp = 4 THEN UN(<<0, 127, 128>>[d]) ELSE UN(2097152),
                      uuid |-> IF c.mp = 4 THEN <<102, 48, 48, 100, 45, 48 + d>> ELSE <<>>]
        SizeOf(n, k) == IF n = 0 THEN 0 ELSE (n - 1) * bs + (IF k % 2 = 1 THEN bs ELSE k + 1)
        File(d, k) ==
            LET spec == L[d].f[k]
            IN [name |-> NameSet[c.nm] \o Ascii(d) \o Ascii(k), size |-> NatDig(SizeOf(Len(spec), k)),
                sec |-> tm.sec, nsec |-> tm.nsec, ino |-> BumpD(tm.ino, d * 8 + k),
                blocks |-> [j \in 1..Len(spec) |-> [pos |-> P(spec[j][1]), st |-> spec[j][2],
                                                    h |-> HashOf(d * 50 + k * 10 + spec[j][1], hs)]]]
        Disk(d) ==
            [map |-> MapOf(d),
             files |-> [k \in 1..Len(L[d].f) |-> File(d, k)],
             links |-> IF L[d].x = 1
                       THEN << [kind |-> 115, name |-> <<76>> \o NameSet[c.nm], to |-> NameSet[1 + (c.nm % Len(NameSet))]],
                               [kind |-> 97, name |-> <<72>> \o NameSet[c.nm], to |-> <<116, 103, 116>>],
                               [kind |-> 115, name |-> <<69>>, to |-> <<46>>] >>
                       ELSE <<>>,
             dirs |-> IF L[d].x = 1 THEN << <<82>> \o NameSet[c.nm], <<101, 109, 112, 116, 121>> >> ELSE <<>>,
             del |-> [j \in 1..Len(L[d].d) |-> [pos |-> P(L[d].d[j]), h |-> HashOf(d * 50 + 25 + j, hs)]]]
        R == ReqSmalls(L)
        S == CASE c.inf \in {1, 2, 3, 4} -> R
               [] c.inf = 5 -> BlkSmalls(L)
               [] c.inf = 6 -> R \cup DelSmalls(L)
        seq == SetToSortSeq(S, <)
        Entry(i) ==
            LET p == seq[i]
            IN [pos |-> P(p),
                t |-> CASE c.inf = 2 -> (IF i % 2 = 1 THEN TA ELSE UAdd(TA, UN(8)))
                        [] c.inf = 4 -> (IF i = 1 THEN TOld ELSE IF i = 2 THEN TFuture ELSE TA)
                        [] c.inf = 6 -> (IF p \in R THEN TA ELSE UAdd(TA, UN(16)))
                        [] OTHER -> TA,
                bad |-> c.inf = 3 /\ i % 2 = 1,
                rehash |-> c.inf = 3 /\ (i \div 2) % 2 = 1,
                js |-> c.inf = 3 /\ (i \div 4) % 2 = 1]
        Split(l, k) == IF v3 THEN [path |-> <<112, 47 + l, 47, 112, 97, 114, 105, 116, 121, 46, 47 + k>>,
                                   uuid |-> IF c.mp = 4 THEN <<117, 48 + l, 48 + k>> ELSE <<>>,
                                   size |-> IF c.tm \in {7, 8, 9} THEN <<D63, D64m, D63m>>[c.tm - 6]
                                            ELSE NatDig((l + k) * 1024 * 1000)]
                       ELSE [path |-> <<>>, uuid |-> IF c.mp = 4 THEN <<117, 48 + l, 48 + k>> ELSE <<>>, size |-> <<0>>]
    IN [bs |-> bs, hs |-> hs, hash |-> [kind |-> KindSet[c.kind], seed |-> SeedOf(c.kind + c.lay)],
        prev |-> IF c.inf \in {2, 3} THEN <<[kind |-> KindSet[1 + (c.kind % 3)], seed |-> SeedOf(77)]>> ELSE <<>>,
        maps |-> [m \in 1..nd |-> Map(m)],
        parity |-> [l \in 1..Len(par) |-> [total |-> UN(4194304 + l), free |-> IF c.mp = 4 THEN <<65535, 65535>> ELSE UN(2097152),
                                           splits |-> [k \in 1..par[l] |-> Split(l, k)]]],
        disks |-> [d \in 1..nd |-> Disk(d)],
        info |-> [i \in 1..Len(seq) |-> Entry(i)]]

\* choice vectors: every value of every dimension with the others at their default, the pairs that interact,
\* and the seeded extra vectors supplied by the harness (CF_EXTRA, ndjson of choice records)
With1(k, v) == [C0 EXCEPT ![k] = v]
Sweeps ==
    UNION { { With1(k, v) : v \in 1..Dims[k] } : k \in DOMAIN Dims }
    \cup { [C0 EXCEPT !.lay = l, !.inf = i] : l \in 1..NLay, i \in 1..6 }
    \cup { [C0 EXCEPT !.lay = l, !.base = b] : l \in 1..NLay, b \in 2..6 }
    \cup { [C0 EXCEPT !.lay = l, !.hs = h, !.par = p] : l \in {3, 6, 12}, h \in 1..Len(HsSet), p \in 1..Len(ParSet) }
    \cup { [C0 EXCEPT !.lay = l, !.mp = m, !.inf = 6] : l \in 1..NLay, m \in 1..4 }
    \cup { [C0 EXCEPT !.lay = 12, !.nm = n, !.tm = t, !.bs = 1 + (n % 2)] : n \in 1..Len(NameSet), t \in 1..Len(TmSet) }
QuickSweeps ==
    UNION { { With1(k, v) : v \in 1..Dims[k] } : k \in DOMAIN Dims }
    \cup { [C0 EXCEPT !.lay = l, !.inf = 1 + ((l + b) % 6), !.base = b, !.hs = 1 + ((l + b) % Len(HsSet)),
                      !.par = 1 + ((l * b) % Len(ParSet)), !.mp = 1 + ((l + 2 * b) % 4)] : l \in 1..NLay, b \in 1..6 }
    \cup { [C0 EXCEPT !.lay = 12, !.nm = n, !.tm = 1 + ((n * 2) % Len(TmSet)), !.bs = 1 + (n % 2)] : n \in 1..Len(NameSet) }
ExtraFile == Env("CF_EXTRA", "")
Extra == IF ExtraFile = "" THEN <<>> ELSE ndJsonDeserialize(ExtraFile)
Cases == SetToSeq((IF Env("CF_TIER", "quick") = "thorough" THEN Sweeps ELSE QuickSweeps) \cup ToSet(Extra))
NCases == Len(Cases)

CorpusF == [k \in 1..NCases |->
              LET s == Build(Cases[k])
              IN [k |-> k, c |-> Cases[k], s |-> s, now |-> NowU, raw |-> EncodeRaw(s, NowU), norm |-> Encode(s, NowU)]]
\* a table for the parts that visit every case; the damage part touches a few cases only
Corpus == IF Part = "gen" THEN Eager(CorpusF) ELSE CorpusF

DumpFile == Env("CF_DUMP", "")
DumpOK == IF Part = "gen" /\ DumpFile # "" THEN ndJsonSerialize(DumpFile, Corpus) ELSE TRUE
ASSUME DumpOK

\* well-formedness of a generated state (the generator must not produce states the format cannot hold)
IsBytes(b) == \A i \in 1..Len(b) : b[i] \in Byte
Ascending(seq) == \A i \in 1..(Len(seq) - 1) : ULt(seq[i].pos, seq[i + 1].pos)
WF(s) ==
    /\ s.bs \in 1..1073741824 /\ s.hs \in 2..16 /\ s.hash.kind \in HashKinds /\ Len(s.hash.seed) = 16
    /\ Len(s.prev) \in {0, 1} /\ Len(s.maps) = Len(s.disks) /\ Len(s.parity) \in 1..6
    /\ \A i \in 1..Len(s.maps) : (IsBytes(s.maps[i].name) /\ Len(s.maps[i].name) > 0 /\ IsU32(s.maps[i].total)
                                   /\ IsU32(s.maps[i].free) /\ \E j \in 1..Len(s.disks) : s.disks[j].map = i)
    /\ \A l \in 1..Len(s.parity) : (Len(s.parity[l].splits) \in 1..8
                                     /\ \A k \in 1..Len(s.parity[l].splits) : IsD64(s.parity[l].splits[k].size))
    /\ \A d \in 1..Len(s.disks) :
         LET Dk == s.disks[d]
         IN /\ Dk.map \in 1..Len(s.maps) /\ Ascending(Dk.del)
            /\ \A k \in 1..Len(Dk.files) :
                 LET f == Dk.files[k]
                 IN /\ IsD64(f.size) /\ IsD64(f.sec) /\ IsD64(f.ino) /\ f.nsec \in -1..999999999 /\ Len(f.name) > 0
                    /\ DFitsNat(f.size) /\ Len(f.blocks) = (DNat(f.size) + s.bs - 1) \div s.bs
                    /\ \A j \in 1..Len(f.blocks) : (f.blocks[j].st \in {98, 103, 112} /\ Len(f.blocks[j].h) = s.hs
                                                     /\ IsU32(f.blocks[j].pos))
            /\ \A j \in 1..Len(Dk.del) : (Len(Dk.del[j].h) = s.hs /\ ULt(Dk.del[j].pos, Bmax(s)))
    /\ Ascending(s.info)
    /\ \A i \in 1..Len(s.info) : (ULt(s.info[i].pos, Bmax(s)) /\ s.info[i].t[2] % 8 = 0 /\ s.info[i].t # UZ
                                   /\ (s.info[i].rehash => Len(s.prev) = 1))

TailCrc(b) == LET n == Len(b) IN <<b[n] * 256 + b[n - 1], b[n - 2] * 256 + b[n - 3]>>

\* round trip of one generated case
CaseOK(k) ==
    LET e == Corpus[k]
        s == e.s
        r1 == DRun(e.raw)
        r2 == DRun(e.norm)
    IN /\ WF(s)
       /\ r1.ph = "ok" /\ DState(r1) = LoadView(s, e.now)                       \* Decode inverts EncodeRaw
       /\ r2.ph = "ok" /\ DState(r2) = Reloaded(s, e.now)                       \* save + load = normalisation
       /\ Norm(DState(r1)) = Reloaded(s, e.now)                                 \* Normalize(Decode(Encode s)) = Normalize(s)
       /\ EncodeRaw(DState(r2), e.now) = e.norm                                 \* rewriting reproduces the bytes
       /\ Encode(DState(r1), e.now) = e.norm                                    \* ... also from the raw file
       /\ Norm(Norm(s)) = Norm(s)
       /\ (Len(e.norm) <= 400 => Crc32cDef(SubSeq(e.norm, 1, Len(e.norm) - 4)) = TailCrc(e.norm))

-----------------------------------------------------------------------------
\* Part "check": lines written by the harness from real content files

LinesFile == Env("CF_LINES", "")
Lines == IF Part = "check" /\ LinesFile # "" THEN ndJsonDeserialize(LinesFile) ELSE <<>>
LineOK(k) ==
    LET e == Lines[k]
        r == DRun(e.bytes)
    IN /\ WF(e.s)
       /\ EncodeRaw(e.s, e.now) = e.bytes
       /\ r.ph = "ok" /\ DState(r) = LoadView(e.s, e.now)

-----------------------------------------------------------------------------
\* Part "damage": every single-bit flip and every truncation of a generated file is rejected

DamageSel == IF Part = "damage" THEN ndJsonDeserialize(Env("CF_DAMAGE", "")) ELSE <<>>    \* lines [k |-> case]
Flip(b, i, bit) == [b EXCEPT ![i] = b[i] ^^ (2 ^ bit)]
DamageOK(k, i) ==
    LET b == Corpus[k].norm
    IN /\ Loadable(b)
       /\ \A bit \in 0..7 : ~Loadable(Flip(b, i, bit))
       /\ ~Loadable(SubSeq(b, 1, i - 1))                       \* truncated to i - 1 bytes (0 .. Len - 1)

-----------------------------------------------------------------------------
Jobs == CASE Part = "gen" -> { <<k, 0>> : k \in 1..NCases }
          [] Part = "check" -> { <<k, 0>> : k \in 1..Len(Lines) }
          [] Part = "damage" -> UNION { { <<DamageSel[j].k, i>> : i \in 1..Len(Corpus[DamageSel[j].k].norm) }
                                        : j \in 1..Len(DamageSel) }
JobOK(j) == CASE Part = "gen" -> CaseOK(j[1])
              [] Part = "check" -> LineOK(j[1])
              [] Part = "damage" -> DamageOK(j[1], j[2])

Init == phase = 0 /\ job \in Jobs
Next == \/ (phase = 0 /\ phase' = 1 /\ job' = job)
        \/ (phase = 1 /\ UNCHANGED <<job, phase>>)
JobInv == (phase = 1) => JobOK(job)
NonVacuous == Jobs # {}
ASSUME NonVacuous

=============================================================================
