SPECIFICATION Spec
CONSTANT MaxLen = 2
INVARIANT RoundTrip
INVARIANT Clean
INVARIANT TwoFields
CHECK_DEADLOCK FALSE
