------------------------------ MODULE RaidCode ------------------------------
\* The two generator matrices of raid/ (extended Cauchy 6 x 251, power 3 x 251) defined from the documented
\* construction (raid/mktables.c:61-175, raid/raid.c header), the erasure contract of
\* raid_gen / raid_rec / raid_data / raid_check / raid_scan over index sets, and the checks TLC makes:
\*
\*   Part = "witness" (C02, C03): every GF256 job + every entry of the witness matrices equals the closed form
\*   Part = "minors"  (C03)     : premises of the extended-Cauchy theorem on the whole matrix, and Det # 0 for
\*                                all minors of the leading 6 x LeadW block, all minors whose columns span
\*                                at most WinW consecutive columns (sliding windows up to column 251),
\*                                all minors up to FullMaxK x FullMaxK of the full 6 x 251 matrix,
\*                                all minors up to PowMaxK x PowMaxK of the 3 x 251 power matrix
\*   Part = "cases"   (C03)     : enumerates the admissible index-set cases of the contract for the geometries
\*                                CaseNd x 1..6 (all index sets) and 251 x 1..6 (failed data restricted to
\*                                BoundaryCols), checks each is solvable (its sub-matrix is non-singular) and
\*                                writes them to cases_<nd>_<np>.json - the case table of harness/c/raid_conf.c
\*
\* Indices: the C code and the contract operators count disks, parities and blocks from 0; the witness matrices
\* are JSON arrays = 1-based sequences, so entry (row r, disk i) is CauchyT[r+1][i+1].
\* Determinants: characteristic 2, so no signs; cofactor expansion along the first row, unrolled up to 6 x 6
\* (no recursion, see GF256.tla for why).
EXTENDS GF256, SequencesExt

CONSTANTS Part,          \* "witness" | "minors" | "cases"
          LeadW,         \* width of the leading block whose minors are all evaluated (16)
          WinW,          \* width of the sliding windows (8)
          FullMaxK,      \* minors up to this size over all 251 columns of the Cauchy matrix (2; thorough 3)
          PowMaxK,       \* minors up to this size over all 251 columns of the power matrix (3)
          CaseNd,        \* geometries enumerated completely, e.g. {1, 2, 3, 12}
          BoundaryCols   \* 0-based data indices used as failed data disks in the nd = 251 geometry

NDisk == 251
NPar == 6

WMAT == JsonDeserialize("witness_mat.json")
CauchyT == WMAT.cauchy
PowerT == WMAT.power

-----------------------------------------------------------------------------
\* Definition of the matrices (closed forms of the construction)

\* x_i = 2^-i for disk i ; y_r for row r >= 1 : y_1 = 0, y_r = 2^(r-1) ; row 0 is the added row of ones
X(i) == Inv(Exp(i))
Y(r) == IF r = 1 THEN 0 ELSE Exp(r - 1)
Raw(r, i) == Inv(X(i) ^^ Y(r))             \* Cauchy entry 1 / (x_i + y_r)
Scale(r) == Inv(Raw(r, 0))                 \* row factor making the first column 1
CauchyDef(r, i) == IF r = 0 THEN 1 ELSE Mul(Raw(r, i), Scale(r))

\* z mode ("vandermonde"): rows 1, 2^i, 2^-i
PowerDef(r, i) == CASE r = 0 -> 1 [] r = 1 -> Exp(i) [] r = 2 -> Inv(Exp(i))

CauchyRowOK(r) ==
    /\ Len(CauchyT) = NPar /\ Len(CauchyT[r + 1]) = NDisk
    /\ \A i \in 0..(NDisk - 1) : CauchyT[r + 1][i + 1] = CauchyDef(r, i)
    /\ CauchyT[r + 1][1] = 1                                         \* first column all 1
    /\ (r = 0 => \A i \in 0..(NDisk - 1) : CauchyT[1][i + 1] = 1)    \* row 0 all 1 (RAID5)
    /\ (r = 1 => \A i \in 0..(NDisk - 1) : CauchyT[2][i + 1] = Exp(i)) \* row 1 = 2^i (RAID6)

PowerRowOK(r) ==
    /\ Len(PowerT) = 3 /\ Len(PowerT[r + 1]) = NDisk
    /\ \A i \in 0..(NDisk - 1) : PowerT[r + 1][i + 1] = PowerDef(r, i)
    /\ (r < 2 => \A i \in 0..(NDisk - 1) : PowerT[r + 1][i + 1] = CauchyT[r + 1][i + 1])  \* modes agree on P, Q

\* what a parity block is: byte r of the parity column of a data column D (one byte position of a stripe);
\* D is a 1-based sequence of nd bytes, M one of the two matrices, r a 0-based row
ParityOf(M, r, D) == FoldLeftDomain(LAMBDA acc, n : acc ^^ Mul(M[r + 1][n], D[n]), 0, D)

\* sample columns (nd = 251) whose parities TLC computes with ParityOf; the C harness must reproduce them
\* with its table-driven oracle before it is allowed to judge the implementation
SampleColumn(s) == [n \in 1..NDisk |-> (Exp((7 * n + 31 * s) % 255) ^^ ((n * s) % 256))]
VectorsOK ==
    JsonSerialize("vectors.json",
        [s \in 1..4 |-> [d |-> SampleColumn(s),
                         cauchy |-> [r \in 1..NPar |-> ParityOf(CauchyT, r - 1, SampleColumn(s))],
                         power |-> [r \in 1..3 |-> ParityOf(PowerT, r - 1, SampleColumn(s))]]])

-----------------------------------------------------------------------------
\* Premises of the extended-Cauchy theorem (Roth, Introduction to Coding Theory; Blomer et al. 1995):
\* if the x_i are pairwise distinct, the y_r are pairwise distinct and x_i + y_r # 0, every square
\* sub-matrix of (1/(x_i + y_r)) is non-singular; adding a row of ones and scaling rows by non-zero
\* factors preserves that.  TLC checks the premises on the whole matrix; the theorem is the one trusted fact.
PremisesOK ==
    /\ \A i \in 0..(NDisk - 1) : X(i) # 0
    /\ \A i \in 0..(NDisk - 1) : \A k \in 0..(NDisk - 1) : (i # k => X(i) # X(k))
    /\ \A r \in 1..(NPar - 1) : \A s \in 1..(NPar - 1) : (r # s => Y(r) # Y(s))
    /\ \A i \in 0..(NDisk - 1) : \A r \in 1..(NPar - 1) : (X(i) ^^ Y(r)) # 0
    /\ \A r \in 1..(NPar - 1) : (Raw(r, 0) # 0 /\ Scale(r) # 0 /\ Mul(Raw(r, 0), Scale(r)) = 1)

-----------------------------------------------------------------------------
\* Determinants (rows r1 < r2 < ..., columns c1 < c2 < ..., both 1-based indices into M)

D1(M, r1, c1) == M[r1][c1]
D2(M, r1, r2, c1, c2) ==
    (Mul(M[r1][c1], D1(M, r2, c2)) ^^ Mul(M[r1][c2], D1(M, r2, c1)))
D3(M, r1, r2, r3, c1, c2, c3) ==
    ((Mul(M[r1][c1], D2(M, r2, r3, c2, c3)) ^^ Mul(M[r1][c2], D2(M, r2, r3, c1, c3))) ^^ Mul(M[r1][c3], D2(M, r2, r3, c1, c2)))
D4(M, r1, r2, r3, r4, c1, c2, c3, c4) ==
    (((Mul(M[r1][c1], D3(M, r2, r3, r4, c2, c3, c4)) ^^ Mul(M[r1][c2], D3(M, r2, r3, r4, c1, c3, c4))) ^^ Mul(M[r1][c3], D3(M, r2, r3, r4, c1, c2, c4))) ^^ Mul(M[r1][c4], D3(M, r2, r3, r4, c1, c2, c3)))
D5(M, r1, r2, r3, r4, r5, c1, c2, c3, c4, c5) ==
    ((((Mul(M[r1][c1], D4(M, r2, r3, r4, r5, c2, c3, c4, c5)) ^^ Mul(M[r1][c2], D4(M, r2, r3, r4, r5, c1, c3, c4, c5))) ^^ Mul(M[r1][c3], D4(M, r2, r3, r4, r5, c1, c2, c4, c5))) ^^ Mul(M[r1][c4], D4(M, r2, r3, r4, r5, c1, c2, c3, c5))) ^^ Mul(M[r1][c5], D4(M, r2, r3, r4, r5, c1, c2, c3, c4)))
D6(M, r1, r2, r3, r4, r5, r6, c1, c2, c3, c4, c5, c6) ==
    (((((Mul(M[r1][c1], D5(M, r2, r3, r4, r5, r6, c2, c3, c4, c5, c6)) ^^ Mul(M[r1][c2], D5(M, r2, r3, r4, r5, r6, c1, c3, c4, c5, c6))) ^^ Mul(M[r1][c3], D5(M, r2, r3, r4, r5, r6, c1, c2, c4, c5, c6))) ^^ Mul(M[r1][c4], D5(M, r2, r3, r4, r5, r6, c1, c2, c3, c5, c6))) ^^ Mul(M[r1][c5], D5(M, r2, r3, r4, r5, r6, c1, c2, c3, c4, c6))) ^^ Mul(M[r1][c6], D5(M, r2, r3, r4, r5, r6, c1, c2, c3, c4, c5)))

Minors1(M, nr, c1, hi) ==
    \A r1 \in 1..nr :
        D1(M, r1, c1) # 0
Minors2(M, nr, c1, hi) ==
    \A r1 \in 1..nr : \A r2 \in (r1 + 1)..nr : \A c2 \in (c1 + 1)..hi :
        D2(M, r1, r2, c1, c2) # 0
Minors3(M, nr, c1, hi) ==
    \A r1 \in 1..nr : \A r2 \in (r1 + 1)..nr : \A r3 \in (r2 + 1)..nr : \A c2 \in (c1 + 1)..hi : \A c3 \in (c2 + 1)..hi :
        D3(M, r1, r2, r3, c1, c2, c3) # 0
Minors4(M, nr, c1, hi) ==
    \A r1 \in 1..nr : \A r2 \in (r1 + 1)..nr : \A r3 \in (r2 + 1)..nr : \A r4 \in (r3 + 1)..nr : \A c2 \in (c1 + 1)..hi : \A c3 \in (c2 + 1)..hi : \A c4 \in (c3 + 1)..hi :
        D4(M, r1, r2, r3, r4, c1, c2, c3, c4) # 0
Minors5(M, nr, c1, hi) ==
    \A r1 \in 1..nr : \A r2 \in (r1 + 1)..nr : \A r3 \in (r2 + 1)..nr : \A r4 \in (r3 + 1)..nr : \A r5 \in (r4 + 1)..nr : \A c2 \in (c1 + 1)..hi : \A c3 \in (c2 + 1)..hi : \A c4 \in (c3 + 1)..hi : \A c5 \in (c4 + 1)..hi :
        D5(M, r1, r2, r3, r4, r5, c1, c2, c3, c4, c5) # 0
Minors6(M, nr, c1, hi) ==
    \A r1 \in 1..nr : \A r2 \in (r1 + 1)..nr : \A r3 \in (r2 + 1)..nr : \A r4 \in (r3 + 1)..nr : \A r5 \in (r4 + 1)..nr : \A r6 \in (r5 + 1)..nr : \A c2 \in (c1 + 1)..hi : \A c3 \in (c2 + 1)..hi : \A c4 \in (c3 + 1)..hi : \A c5 \in (c4 + 1)..hi : \A c6 \in (c5 + 1)..hi :
        D6(M, r1, r2, r3, r4, r5, r6, c1, c2, c3, c4, c5, c6) # 0

MinorsK(M, nr, k, c1, hi) ==
    CASE k = 1 -> Minors1(M, nr, c1, hi)
      [] k = 2 -> Minors2(M, nr, c1, hi)
      [] k = 3 -> Minors3(M, nr, c1, hi)
      [] k = 4 -> Minors4(M, nr, c1, hi)
      [] k = 5 -> Minors5(M, nr, c1, hi)
      [] k = 6 -> Minors6(M, nr, c1, hi)

\* determinant of the sub-matrix given by two equally long 1-based index sequences
DetSeq(M, rs, cs) ==
    CASE Len(rs) = 0 -> 1
      [] Len(rs) = 1 -> D1(M, rs[1], cs[1])
      [] Len(rs) = 2 -> D2(M, rs[1], rs[2], cs[1], cs[2])
      [] Len(rs) = 3 -> D3(M, rs[1], rs[2], rs[3], cs[1], cs[2], cs[3])
      [] Len(rs) = 4 -> D4(M, rs[1], rs[2], rs[3], rs[4], cs[1], cs[2], cs[3], cs[4])
      [] Len(rs) = 5 -> D5(M, rs[1], rs[2], rs[3], rs[4], rs[5], cs[1], cs[2], cs[3], cs[4], cs[5])
      [] Len(rs) = 6 -> D6(M, rs[1], rs[2], rs[3], rs[4], rs[5], rs[6], cs[1], cs[2], cs[3], cs[4], cs[5], cs[6])

MinN(a, b) == IF a < b THEN a ELSE b

\* all k x k minors of the Cauchy matrix whose smallest column is c1 and whose columns lie in c1..hi
LeadOK(k, c1) == MinorsK(CauchyT, NPar, k, c1, LeadW)
SlideOK(k, c1) == MinorsK(CauchyT, NPar, k, c1, MinN(c1 + WinW - 1, NDisk))
FullOK(k, c1) == MinorsK(CauchyT, NPar, k, c1, NDisk)
PowOK(k, c1) == MinorsK(PowerT, 3, k, c1, NDisk)

-----------------------------------------------------------------------------
\* Contract of the library over index sets (blocks 0..nd-1 are data, nd..nd+np-1 parity, as in the v vector)

SortedSeq(S) == [i \in 1..Cardinality(S) |-> CHOOSE x \in S : Cardinality({y \in S : y < x}) = i - 1]

FailedData(ir, nd) == {b \in ir : b < nd}
FailedPar(ir, nd) == {b - nd : b \in {c \in ir : c >= nd}}          \* 0-based parity numbers
GoodPar(ir, nd, np) == (0..(np - 1)) \ FailedPar(ir, nd)

\* raid_gen(nd, np): writes parities 0..np-1 = M * data, reads data, touches nothing else
GenWrites(np) == 0..(np - 1)

\* raid_rec(nr, ir, nd, np): admissible iff at most np distinct blocks failed
RecAdmissible(ir, nd, np) == ir \subseteq 0..(nd + np - 1) /\ Cardinality(ir) <= np
\* "the parities at lower indexes are used": the |failed data| smallest good parities
RecUsed(ir, nd, np) ==
    LET g == GoodPar(ir, nd, np)
    IN  {p \in g : Cardinality({q \in g : q < p}) < Cardinality(FailedData(ir, nd))}
\* parities recomputed from the (repaired) data: all up to the last failed one; a good parity among them is
\* rewritten with the value it must already have
RecRegen(ir, nd) ==
    LET f == FailedPar(ir, nd) IN IF f = {} THEN {} ELSE 0..(CHOOSE m \in f : \A q \in f : q <= m)
\* "the others are ignored": good parities neither used nor recomputed - their content must not matter
RecIgnored(ir, nd, np) == (GoodPar(ir, nd, np) \ RecUsed(ir, nd, np)) \ RecRegen(ir, nd)
\* post-condition: blocks in ir hold the original content, every other block is byte-identical to before
RecRestores(ir) == ir

\* raid_data(nr, id, ip, nd): data only, caller chooses the parities; v has nd + max(ip) + 1 entries,
\* parities not in ip are neither read nor written
DataAdmissible(id, ip, nd, np) ==
    /\ id \subseteq 0..(nd - 1) /\ ip \subseteq 0..(np - 1)
    /\ Cardinality(id) = Cardinality(ip) /\ Cardinality(id) >= 1

\* raid_check(nr, ir, nd, np): needs one spare parity
CheckAdmissible(ir, nd, np) == RecAdmissible(ir, nd, np) /\ Cardinality(ir) < np
\* with C the set of blocks that really differ from a consistent stripe and S the candidate:
\* must accept if C \subseteq S; must reject if some block of C is unlisted and |C \cup S| <= np
\* (minimum distance np + 1, i.e. all minors non-singular); otherwise either answer is allowed by the code
\* but the exact answer is "is there a code word that differs from the stripe only inside S"
CheckMustAccept(C, S) == C \subseteq S
CheckMustReject(C, S, np) == ~(C \subseteq S) /\ Cardinality(C \cup S) <= np
\* raid_scan: returns a consistent set of minimal cardinality (< np); it is exactly C when 2|C| <= np
ScanExact(C, np) == 2 * Cardinality(C) <= np

\* the equations a case asks the decoder to solve: rows = parities used, columns = failed data disks
Solvable(M, ps, ds) == DetSeq(M, [i \in 1..Len(ps) |-> ps[i] + 1], [i \in 1..Len(ds) |-> ds[i] + 1]) # 0

-----------------------------------------------------------------------------
\* Case tables

Universe(nd, np) == IF nd = NDisk THEN BoundaryCols \cup (nd..(nd + np - 1)) ELSE 0..(nd + np - 1)
DataUniverse(nd) == IF nd = NDisk THEN BoundaryCols ELSE 0..(nd - 1)

RecCases(nd, np) == {ir \in SUBSET Universe(nd, np) : RecAdmissible(ir, nd, np)}
DataCases(nd, np) ==
    {c \in (SUBSET DataUniverse(nd)) \X (SUBSET (0..(np - 1))) : DataAdmissible(c[1], c[2], nd, np)}

Mats(np) == IF np <= 3 THEN {CauchyT, PowerT} ELSE {CauchyT}

RecCaseOK(ir, nd, np) ==
    /\ Cardinality(RecUsed(ir, nd, np)) = Cardinality(FailedData(ir, nd))
    /\ RecUsed(ir, nd, np) \cap FailedPar(ir, nd) = {}
    /\ \A M \in Mats(np) : Solvable(M, SortedSeq(RecUsed(ir, nd, np)), SortedSeq(FailedData(ir, nd)))
DataCaseOK(c, nd, np) ==
    \A M \in Mats(np) : Solvable(M, SortedSeq(c[2]), SortedSeq(c[1]))

RecRecord(ir, nd, np) ==
    [ir |-> SortedSeq(ir), used |-> SortedSeq(RecUsed(ir, nd, np)), regen |-> SortedSeq(RecRegen(ir, nd)),
     ign |-> SortedSeq(RecIgnored(ir, nd, np)), chk |-> IF CheckAdmissible(ir, nd, np) THEN 1 ELSE 0]
DataRecord(c) == [id |-> SortedSeq(c[1]), ip |-> SortedSeq(c[2])]

CasesOK(nd, np) ==
    LET rc == RecCases(nd, np)
        dc == DataCases(nd, np)
        rs == SetToSeq({RecRecord(ir, nd, np) : ir \in rc})
        ds == SetToSeq({DataRecord(c) : c \in dc})
    IN  /\ \A ir \in rc : RecCaseOK(ir, nd, np)
        /\ \A c \in dc : DataCaseOK(c, nd, np)
        /\ JsonSerialize("cases_" \o ToString(nd) \o "_" \o ToString(np) \o ".json",
                         [nd |-> nd, np |-> np, nrec |-> Cardinality(rc), ndata |-> Cardinality(dc),
                          rec |-> rs, data |-> ds])

-----------------------------------------------------------------------------
\* Jobs

MatrixJobs == {<<"cauchyrow", r, 0>> : r \in 0..(NPar - 1)} \cup {<<"powerrow", r, 0>> : r \in 0..2}

MinorJobs ==
    {<<"premises", 0, 0>>}
      \cup {<<"lead", k, c1>> : k \in 1..NPar, c1 \in 1..LeadW}
      \cup {<<"slide", k, c1>> : k \in 1..NPar, c1 \in 1..NDisk}
      \cup {<<"full", k, c1>> : k \in 1..FullMaxK, c1 \in 1..NDisk}
      \cup {<<"pow", k, c1>> : k \in 1..PowMaxK, c1 \in 1..NDisk}

CaseJobs == {<<"cases", nd, np>> : nd \in CaseNd \cup {NDisk}, np \in 1..NPar} \cup {<<"vectors", 0, 0>>}

RCJobs == CASE Part = "witness" -> GFJobs \cup MatrixJobs
            [] Part = "minors" -> MinorJobs
            [] Part = "cases" -> CaseJobs

RCJobOK(j) ==
    CASE j[1] \in {"mulrow", "sanity", "axioms"} -> GFJobOK(j)
      [] j[1] = "cauchyrow" -> CauchyRowOK(j[2])
      [] j[1] = "powerrow" -> PowerRowOK(j[2])
      [] j[1] = "premises" -> PremisesOK
      [] j[1] = "lead" -> LeadOK(j[2], j[3])
      [] j[1] = "slide" -> SlideOK(j[2], j[3])
      [] j[1] = "full" -> FullOK(j[2], j[3])
      [] j[1] = "pow" -> PowOK(j[2], j[3])
      [] j[1] = "cases" -> CasesOK(j[2], j[3])
      [] j[1] = "vectors" -> VectorsOK
      [] OTHER -> FALSE

RCInit == phase = 0 /\ job \in RCJobs
RCJobInv == (phase = 1) => RCJobOK(job)

=============================================================================
