SPECIFICATION Spec
INVARIANT Conforms
INVARIANT C06_ParityValid
INVARIANT C06_MapSane
POSTCONDITION Accepted
CHECK_DEADLOCK FALSE
