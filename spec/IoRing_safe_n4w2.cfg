\* thorough tier, safety only (no liveness): 4 slots, 2 readers, 2 writers, 5 positions, no failing task (1.7 M distinct states)
SPECIFICATION Spec
CONSTANTS
  N = 4
  RD = 2
  RP = 0
  W = 2
  BlockStart = 0
  BlockMax = 6
  Enabled = {0, 1, 3, 4, 5}
  SignalOutside = FALSE
  Spurious = TRUE
  ROutcomes <- OutSoftHard
  WOutcomes <- OutWSoft
  MaxFail = 0
  AllowSkip = TRUE
  AllowStop = TRUE
  AllowBail = FALSE
INVARIANTS TypeOK Asserts Ownership OnceInOrder Deterministic ErrorsAccountedR WaitSane
CHECK_DEADLOCK TRUE
