----------------------------- MODULE IoRingTrace -----------------------------
(***************************************************************************
 Trace validation of the H1 hook events of cmdline/io.c against IoRing.

 The file named by the environment variable TRACE holds one or more
 executions (all with the same parameters), each starting with a "Start"
 record (the header written by io_start) and sorted by the sequence number q
 that the hook takes while holding io_mutex.  Every record is exactly one
 step of IoRing:

     IsEvent(kind) /\ <IoRing action> /\ <logged fields = model values>

 so the state graph is a single chain and validation is linear.  The
 constants of IoRing come from the header record (see IoRingTrace.cfg).

 What the trace cannot show and how it is treated (no false alarms):
  * wake-ups: a thread that logs a step after a *Wait record has been woken
    by a signal, a broadcast or spuriously; POSIX allows all three, so the
    step itself is the evidence and the *B action bodies (which remove the
    thread from its wait-set) are used.  Because of this the signalling
    discipline (--test-cond-signal-outside) does not matter here.
  * TaskBegin / TaskEnd are logged outside the mutex; their q only orders
    them within their own thread, and the model actions are local to the
    thread (always enabled at the right pc), so every real interleaving is
    a behaviour.  The shared indices are not logged for them (ri = wi = -1).

 All invariants of IoRing are checked in every state of the trace.
 Acceptance: every line consumed (POSTCONDITION TraceAccepted).
 ***************************************************************************)
EXTENDS IoRing, Json, IOUtils

VARIABLE i          \* next line of the log to match

\* the file is parsed once, when the assumptions are checked, and kept in a TLC register
\* (a plain definition is re-evaluated in every state: validation becomes quadratic)
ASSUME TLCSet(1, ndJsonDeserialize(IOEnv.TRACE))
Log == TLCGet(1)
\* The header is needed before the assumptions are checked (substitution of the constants in the cfg) and
\* TLC re-evaluates it for every use of a constant while it starts: it is read from a one-line copy of the
\* first record, "<TRACE>.hdr", written by the harness; ASSUME below ties it to the log.
Hdr == ndJsonDeserialize(IOEnv.TRACE \o ".hdr")[1]
SeqToSet(s) == {s[j] : j \in DOMAIN s}

\* constants of IoRing, from the header (substituted in IoRingTrace.cfg)
TraceN == Hdr.n
TraceRD == Hdr.dc
TraceRP == Hdr.pc
TraceW == Hdr.wmax
TraceBlockStart == Hdr.bs
TraceBlockMax == Hdr.bm
TraceEnabled == SeqToSet(Hdr.en)
TraceMaxFail == 1000000

ASSUME /\ Hdr = Log[1]
       /\ Hdr.k = "Start"
       /\ Hdr.rmax = Hdr.dc + Hdr.pc

tvars == <<vars, i>>

ev == Log[i]
IsEvent(k) == i <= Len(Log) /\ ev.k = k
T == ev.t                                   \* 1-based number of the worker thread
IsR == ev.a # "main" /\ T \in Readers /\ ev.a = "r" \o ToString(T)
IsW == ev.a # "main" /\ T \in Writers /\ ev.a = "w" \o ToString(T)
IsM == ev.a = "main"
TaskOf(e) == [st |-> e.st, pos |-> e.pos]
ErrOf(e) == [s \in ErrStates |-> e.err[s + 5]]     \* error_index = state - IO_WRITER_ERROR_BASE

TraceInit == Init /\ i = 2

\* a new execution in the same file: the previous one must be complete
Reset ==
  /\ IsEvent("Start")
  /\ Done
  /\ ev.n = Hdr.n /\ ev.dc = Hdr.dc /\ ev.pc = Hdr.pc /\ ev.wmax = Hdr.wmax
  /\ ev.bs = Hdr.bs /\ ev.bm = Hdr.bm /\ ev.en = Hdr.en
  /\ ri' = InitState.ri /\ wi' = InitState.wi /\ done' = InitState.done /\ bnext' = InitState.bnext
  /\ rtask' = InitState.rtask /\ wtask' = InitState.wtask
  /\ ridx' = InitState.ridx /\ widx' = InitState.widx /\ werr' = InitState.werr
  /\ rpending' = InitState.rpending /\ wpending' = InitState.wpending
  /\ rsW' = {} /\ wsW' = {} /\ rdW' = FALSE /\ wdW' = FALSE
  /\ mpc' = InitState.mpc /\ rpc' = InitState.rpc /\ wpc' = InitState.wpc
  /\ latest' = InitState.latest /\ bail' = FALSE
  /\ mlog' = <<>> /\ mwritten' = <<>>
  /\ glog' = InitState.glog /\ rlog' = InitState.rlog /\ wlog' = InitState.wlog
  /\ collected' = ZeroErr /\ abort' = -1 /\ nfail' = 0

-----------------------------------------------------------------------------
(* reader threads *)
EvReaderTake ==
  /\ IsEvent("ReaderTake") /\ IsR
  /\ ri = ev.ri /\ wi = ev.wi
  /\ (ev.sig = 1) <=> (ridx[T] = ri)
  /\ RTakeB(T)
  /\ ridx'[T] = ev.x /\ ev.slot = ev.x
  /\ rtask[T][ev.slot] = TaskOf(ev)

EvReaderWait ==
  /\ IsEvent("ReaderWait") /\ IsR
  /\ ri = ev.ri /\ wi = ev.wi /\ ridx[T] = ev.x
  /\ RWaitB(T)

EvReaderExit ==
  /\ IsEvent("ReaderExit") /\ IsR
  /\ ri = ev.ri /\ wi = ev.wi /\ ridx[T] = ev.x
  /\ RExitB(T)

EvRTaskBegin ==
  /\ IsEvent("TaskBegin") /\ IsR
  /\ ridx[T] = ev.slot /\ rtask[T][ev.slot] = TaskOf(ev)
  /\ RTaskBegin(T)

EvRTaskEnd ==
  /\ IsEvent("TaskEnd") /\ IsR
  /\ ridx[T] = ev.slot /\ rtask[T][ev.slot].pos = ev.pos
  /\ RTaskEnd(T, ev.st)

(* writer threads *)
EvWriterTake ==
  /\ IsEvent("WriterTake") /\ IsW
  /\ ri = ev.ri /\ wi = ev.wi
  /\ latest[T] = ev.ls
  /\ (ev.sig = 1) <=> (widx[T] = (wi + 1) % N)
  /\ WTakeB(T)
  /\ widx'[T] = ev.x /\ ev.slot = ev.x
  /\ wtask[T][ev.slot] = TaskOf(ev)

EvWriterWait ==
  /\ IsEvent("WriterWait") /\ IsW
  /\ ri = ev.ri /\ wi = ev.wi /\ widx[T] = ev.x
  /\ latest[T] = ev.ls
  /\ WWaitB(T)

EvWriterExit ==
  /\ IsEvent("WriterExit") /\ IsW
  /\ ri = ev.ri /\ wi = ev.wi /\ widx[T] = ev.x
  /\ latest[T] = ev.ls
  /\ WExitB(T)

EvWTaskBegin ==
  /\ IsEvent("TaskBegin") /\ IsW
  /\ widx[T] = ev.slot /\ wtask[T][ev.slot] = TaskOf(ev)
  /\ WTaskBegin(T)

EvWTaskEnd ==
  /\ IsEvent("TaskEnd") /\ IsW
  /\ widx[T] = ev.slot /\ wtask[T][ev.slot].pos = ev.pos
  /\ WTaskEnd(T, ev.st)

(* the caller *)
EvReadNext ==
  /\ IsEvent("ReadNext") /\ IsM
  /\ IF Threaded
       THEN /\ ev.slot = ri
            /\ ReadNext
            /\ ri' = ev.ri /\ wi = ev.wi
            /\ rtask'[1][ri'].pos = ev.cp
       ELSE /\ ev.slot = 0
            /\ MonoReadNext
            /\ ri' = ev.ri
  /\ \A r \in Readers : rtask'[r][ev.slot] = TaskOf(ev)

EvCallerGot ==
  /\ IsEvent("CallerGot") /\ IsM
  /\ IF Threaded
       THEN /\ ri = ev.ri /\ wi = ev.wi /\ ev.slot = ri
            /\ ev.x \in rpending
            /\ rtask[ev.x][ri] = TaskOf(ev)
            /\ CallerGotB
            /\ rpending' = rpending \ {ev.x}
       ELSE /\ ev.x = ri + 1
            /\ rtask[ev.x][0].pos = ev.pos
            /\ MonoRead(ev.st)

EvCallerWaitRead ==
  /\ IsEvent("CallerWaitRead") /\ IsM
  /\ ri = ev.ri /\ wi = ev.wi
  /\ CallerWaitReadB

EvCallerWriteOk ==
  /\ IsEvent("CallerWriteOk") /\ IsM
  /\ IF Threaded
       THEN /\ ri = ev.ri /\ wi = ev.wi /\ ev.slot = wi
            /\ ev.x \in wpending
            /\ CallerWriteOkB
            /\ wpending' = wpending \ {ev.x}
       ELSE /\ ev.x = wi + 1
            /\ wtask[ev.x][0].pos = ev.pos
            /\ MonoWrite(IF ev.st = EMPTY THEN DONE ELSE ev.st)

EvCallerWaitWrite ==
  /\ IsEvent("CallerWaitWrite") /\ IsM
  /\ ri = ev.ri /\ wi = ev.wi
  /\ CallerWaitWriteB

EvWritePreset ==                            \* mono mode only
  /\ IsEvent("WritePreset") /\ IsM
  /\ ~Threaded
  /\ CurPos = ev.pos
  /\ MonoPreset(ev.skip = 1)

EvWriteNext ==
  /\ IsEvent("WriteNext") /\ IsM
  /\ CurPos = ev.pos
  /\ werr = ErrOf(ev)                          \* what the caller is handed = the counters
  /\ IF Threaded
       THEN /\ ev.slot = wi /\ ri = ev.ri
            /\ WriteNext(ev.skip = 1)
            /\ wi' = ev.wi
            /\ \A w \in Writers : wtask'[w][ev.slot] = TaskOf(ev)
       ELSE MonoWriteNext

EvStop ==
  /\ IsEvent("Stop") /\ IsM
  /\ IF Threaded THEN ri = ev.ri /\ wi = ev.wi /\ Stop ELSE MonoStop

EvJoin ==
  /\ IsEvent("Join") /\ IsM
  /\ Join

TraceNext ==
  /\ i' = i + 1
  /\ \/ Reset
     \/ EvReaderTake \/ EvReaderWait \/ EvReaderExit \/ EvRTaskBegin \/ EvRTaskEnd
     \/ EvWriterTake \/ EvWriterWait \/ EvWriterExit \/ EvWTaskBegin \/ EvWTaskEnd
     \/ EvReadNext \/ EvCallerGot \/ EvCallerWaitRead \/ EvCallerWriteOk \/ EvCallerWaitWrite
     \/ EvWritePreset \/ EvWriteNext \/ EvStop \/ EvJoin

TraceSpec == TraceInit /\ [][TraceNext]_tvars

\* every line consumed and the last execution complete.  Each step consumes one line, so the
\* deepest level reached is the number of lines matched.
TraceAccepted ==
  LET d == TLCGet("stats").diameter
  IN IF d = Len(Log) THEN TRUE
     ELSE Print(<<"TRACE-REJECTED", "line", d + 1, Log[d + 1]>>, FALSE)

\* the last record of an execution is Join (threads) or Stop (mono), which leads to Done;
\* checked as an invariant on the last state
LastIsDone == i = Len(Log) + 1 => Done

=============================================================================
