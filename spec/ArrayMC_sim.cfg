SPECIFICATION Spec
CONSTANTS
  D = {"0", "1"}
  NP = 2
  Names = {"A", "B"}
  MaxSteps = 8
  MaxDamage = 2
  MaxStamp = 5
  ScriptId = "none"
  GoalId = "none"
INVARIANT NoPropertyViolation
CHECK_DEADLOCK FALSE
