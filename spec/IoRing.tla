------------------------------- MODULE IoRing -------------------------------
(***************************************************************************
 The hand-over protocol of cmdline/io.c (SnapRAID), one action per critical
 section of the C code, written so that every action can be bound to one
 event of the H1 trace hook (see IoRingTrace.tla).

 Plain TLA+ with explicit program counters (one pc value per code location
 between two critical sections).  What is mirrored from io.h / io.c:

   ri, wi          io->reader_index, io->writer_index
   ridx, widx      worker->index of every reader / writer thread
   rtask, wtask    worker->task_map[slot].{state,position}
   done            io->done
   bnext           io->block_next (io_position_next)
   werr            io->writer_error[]  (position-less counters, see F3/F4)
   rpending        the not yet returned workers of io->reader_list
   wpending        the not yet returned workers of io->writer_list
                   (the lists are scanned in index order, so a set + "take
                   the smallest ready one" is the same thing)
   rsW, wsW        threads blocked in cond_wait on read_sched / write_sched
   rdW, wdW        the caller blocked in cond_wait on read_done / write_done

 The mutex: every action below that touches the shared indices is exactly
 the code executed between thread_mutex_lock and the next unlock / cond_wait
 of io.c, so io_mutex is represented by the atomicity of these actions.
 (The only accesses outside the mutex are to the task structure and buffers
 of a slot; that these never conflict is the invariant Ownership.)
 cond_wait = the action ends by entering the wait-set, and the thread cannot
 take another step until a signal/broadcast (or a spurious wake-up, if
 Spurious) removes it.  signal wakes the (only possible) waiter, broadcast
 empties the wait-set.  With SignalOutside (--test-cond-signal-outside) the
 signal / broadcast is a separate later step of the signalling thread.

 Task execution (worker->func) is the non-atomic pair TaskBegin / TaskEnd
 outside the mutex, the outcome is chosen at TaskEnd.

 The caller (state_sync_process / state_scrub_process / dry) is the process
 "main":  loop { io_read_next; RD x io_data_read; RP x io_parity_read;
 [compute]; W x io_parity_write; io_write_next } ; io_stop.
 It leaves the loop at end of positions, on a hard task error (goto bail),
 or on an early stop request (state_progress), if AllowStop.

 Mono mode (io_max = 1, no threads) is the separate body Mono*.

 Known defects of the code that are modelled as they are (DESIGN.md F3/F4):
 writer errors are counted in io_writer_step and collected only by the next
 io_write_next, so errors of the last queued stripes are never collected,
 and io_parity_write_mono never counts errors.  ErrorsAccountedW states the
 opposite and is expected to fail (IoRing_errors.cfg).
 ***************************************************************************)
EXTENDS Integers, Sequences, FiniteSets, TLC

CONSTANTS
  N,              \* io_max: 1 = mono mode, otherwise IO_MIN(3)..IO_MAX(128)
  RD, RP,         \* data readers, parity readers (scrub); reader_max = RD+RP
  W,              \* parity writers (sync), 0 for scrub/dry
  BlockStart, BlockMax,
  Enabled,        \* enabled positions, subset of BlockStart..BlockMax-1
  SignalOutside,  \* BOOLEAN: unlock then signal
  Spurious,       \* BOOLEAN: spurious wake-ups possible
  ROutcomes,      \* possible outcomes of a reader task
  WOutcomes,      \* possible outcomes of a writer task
  MaxFail,        \* bound on the number of tasks with an outcome # DONE
  AllowSkip,      \* BOOLEAN: caller may pass skip=1 to io_write_next
  AllowStop,      \* BOOLEAN: caller may stop early between two stripes (state_progress)
  AllowBail       \* BOOLEAN: caller may bail out after the read phase of a stripe, before io_parity_write
                  \* (sync.c: parity read error while fixing a silent error on the fly: goto bail)

\* task states, numeric values of io.h
EMPTY == 0
READY == 1
DONE == 2
ERROR == -1
IOERROR == -2
ERROR_CONTINUE == -3
IOERROR_CONTINUE == -4
ErrStates == {-4, -3, -2, -1}
HardStates == {ERROR, IOERROR}
TaskStates == ErrStates \cup {EMPTY, READY, DONE}
\* named outcome sets for the .cfg files (a cfg cannot write negative numbers)
OutDone == {DONE}
OutSoft == {DONE, ERROR_CONTINUE}
OutSoftHard == {DONE, ERROR_CONTINUE, IOERROR}
OutWSoft == {DONE, IOERROR_CONTINUE}
OutWSoftHard == {DONE, IOERROR_CONTINUE, ERROR}
OutAll == {DONE} \cup ErrStates

R == RD + RP
Readers == 1..R
Writers == 1..W
Slots == 0..(N - 1)
Threaded == N > 1

ASSUME /\ N = 1 \/ N >= 3
       /\ RD >= 1 /\ RP >= 0 /\ W >= 0
       /\ Enabled \subseteq BlockStart..(BlockMax - 1)

VARIABLES
  ri, wi, done, bnext, rtask, wtask, ridx, widx, werr,
  rpending, wpending, rsW, wsW, rdW, wdW,
  mpc, rpc, wpc, latest, bail,
  \* history variables (never read by the protocol actions)
  mlog,      \* positions returned to the caller by io_read_next, in order
  mwritten,  \* <<position, skip>> of every io_write_next, in order
  glog,      \* per reader: <<position, state>> of the tasks the caller got
  rlog,      \* per reader: <<position, outcome>> of the tasks it executed
  wlog,      \* per writer: <<position, outcome>> of the tasks it executed
  collected, \* writer errors handed to the caller: ErrState -> count
  abort,     \* position at which the caller bailed out on a hard reader error, or -1
  nfail      \* number of non-DONE outcomes so far (bounds the model only)

pvars == <<ri, wi, done, bnext, rtask, wtask, ridx, widx, werr,
           rpending, wpending, rsW, wsW, rdW, wdW, mpc, rpc, wpc, latest, bail>>
hvars == <<mlog, mwritten, glog, rlog, wlog, collected, abort, nfail>>
vars == <<pvars, hvars>>

-----------------------------------------------------------------------------
Min(S) == CHOOSE x \in S : \A y \in S : x <= y

\* io_position_next
PosNext(bn) ==
  LET later == {p \in Enabled : p >= bn}
  IN IF later # {} THEN Min(later) ELSE IF bn > BlockMax THEN bn ELSE BlockMax

NoTask == [st |-> EMPTY, pos |-> -1]          \* a slot never scheduled (uninitialised memory in C)
RSched(cur) == [st |-> IF cur < BlockMax THEN READY ELSE EMPTY, pos |-> cur]   \* io_reader_sched
ZeroErr == [e \in ErrStates |-> 0]

\* the k-th (k = 0, 1, ...) position returned by io_position_next, in closed form (no recursion):
\* the enabled positions in increasing order, then BlockMax, BlockMax+1, ... (the end markers)
NEnabled == Cardinality(Enabled)
KthEnabled(k) == CHOOSE p \in Enabled : Cardinality({q \in Enabled : q < p}) = k
SchedPos(k) == IF k < NEnabled THEN KthEnabled(k) ELSE BlockMax + (k - NEnabled)
StartPos(s) == SchedPos(s)      \* io_start_thread schedules slots 0..N-2

Last(s) == s[Len(s)]
CurPos == Last(mlog)                            \* blockcur of the caller

\* the state right after io_start (io_start_thread / io_start_mono), as a record so that
\* IoRingTrace can restart from it
InitState == [
  ri |-> IF Threaded THEN N - 1 ELSE 0,
  wi |-> 0,
  done |-> FALSE,
  bnext |-> IF Threaded THEN StartPos(N - 2) + 1 ELSE BlockStart,
  rtask |-> [r \in Readers |-> [s \in Slots |->
                 IF Threaded /\ s < N - 1 THEN RSched(StartPos(s)) ELSE NoTask]],
  wtask |-> [w \in Writers |-> [s \in Slots |-> NoTask]],
  ridx |-> [r \in Readers |-> 0],
  widx |-> [w \in Writers |-> N - 1],
  werr |-> ZeroErr,
  rpending |-> {},
  wpending |-> IF Threaded THEN Writers ELSE {},       \* writer_list is filled by io_start_thread
  mpc |-> "next",
     \* io_reader_thread: "force completion of the first task" without a step
  rpc |-> [r \in Readers |-> IF ~Threaded THEN "exit"
                               ELSE IF RSched(StartPos(0)).st = READY THEN "begin" ELSE "step"],
  wpc |-> [w \in Writers |-> IF Threaded THEN "step" ELSE "exit"],
  latest |-> [w \in Writers |-> DONE],                  \* int latest_state = TASK_STATE_DONE
  glog |-> [r \in Readers |-> <<>>],
  rlog |-> [r \in Readers |-> <<>>],
  wlog |-> [w \in Writers |-> <<>>]]

Init ==
  /\ ri = InitState.ri /\ wi = InitState.wi /\ done = InitState.done /\ bnext = InitState.bnext
  /\ rtask = InitState.rtask /\ wtask = InitState.wtask
  /\ ridx = InitState.ridx /\ widx = InitState.widx /\ werr = InitState.werr
  /\ rpending = InitState.rpending /\ wpending = InitState.wpending
  /\ rsW = {} /\ wsW = {} /\ rdW = FALSE /\ wdW = FALSE
  /\ mpc = InitState.mpc /\ rpc = InitState.rpc /\ wpc = InitState.wpc
  /\ latest = InitState.latest /\ bail = FALSE
  /\ mlog = <<>> /\ mwritten = <<>>
  /\ glog = InitState.glog /\ rlog = InitState.rlog /\ wlog = InitState.wlog
  /\ collected = ZeroErr /\ abort = -1 /\ nfail = 0

-----------------------------------------------------------------------------
(* reader thread: io_reader_thread / io_reader_step / io_reader_worker *)

RTaskBegin(r) ==
  /\ rpc[r] = "begin"
  /\ rpc' = [rpc EXCEPT ![r] = "end"]
  /\ UNCHANGED <<ri, wi, done, bnext, rtask, wtask, ridx, widx, werr, rpending, wpending,
                 rsW, wsW, rdW, wdW, mpc, wpc, latest, bail, hvars>>

RTaskEnd(r, o) ==
  /\ rpc[r] = "end"
  /\ o \in ROutcomes
  /\ o # DONE => nfail < MaxFail
  /\ rtask' = [rtask EXCEPT ![r][ridx[r]].st = o]
  /\ rlog' = [rlog EXCEPT ![r] = Append(@, <<rtask[r][ridx[r]].pos, o>>)]
  /\ nfail' = IF o # DONE THEN nfail + 1 ELSE nfail
  /\ rpc' = [rpc EXCEPT ![r] = "step"]
  /\ UNCHANGED <<ri, wi, done, bnext, wtask, ridx, widx, werr, rpending, wpending,
                 rsW, wsW, rdW, wdW, mpc, wpc, latest, bail,
                 mlog, mwritten, glog, wlog, collected, abort>>

\* after a taken slot: execute it if READY, otherwise step again (task->state == EMPTY: continue)
RAfterTake(r, idx) == IF rtask[r][idx].st = READY THEN "begin" ELSE "step"

\* one critical section of io_reader_step: exit, take the next slot, or wait on read_sched
\* (the *B actions are the bodies: the code that runs once the thread holds the mutex, which includes
\*  "I am no longer in the wait-set"; the guard "not in the wait-set" is added separately so that
\*  IoRingTrace can accept a wake-up it cannot observe)
RExitB(r) ==
  /\ rpc[r] = "step"
  /\ done
  /\ rpc' = [rpc EXCEPT ![r] = "exit"]
  /\ rsW' = rsW \ {r}
  /\ UNCHANGED <<ri, wi, done, bnext, rtask, wtask, ridx, widx, werr, rpending, wpending,
                 wsW, rdW, wdW, mpc, wpc, latest, bail, hvars>>
RExit(r) == r \notin rsW /\ RExitB(r)

RTakeB(r) ==
  /\ rpc[r] = "step"
  /\ ~done
  /\ LET next == (ridx[r] + 1) % N
         sig == ridx[r] = ri               \* done_index == waiting_index
     IN /\ next # ri
        /\ ridx' = [ridx EXCEPT ![r] = next]
        /\ IF sig /\ SignalOutside
             THEN /\ rpc' = [rpc EXCEPT ![r] = "sig"]
                  /\ rdW' = rdW
             ELSE /\ rpc' = [rpc EXCEPT ![r] = RAfterTake(r, next)]
                  /\ rdW' = IF sig THEN FALSE ELSE rdW
  /\ rsW' = rsW \ {r}
  /\ UNCHANGED <<ri, wi, done, bnext, rtask, wtask, widx, werr, rpending, wpending,
                 wsW, wdW, mpc, wpc, latest, bail, hvars>>
RTake(r) == r \notin rsW /\ RTakeB(r)

RSignal(r) ==                              \* thread_cond_signal(read_done) after the unlock
  /\ rpc[r] = "sig"
  /\ rdW' = FALSE
  /\ rpc' = [rpc EXCEPT ![r] = RAfterTake(r, ridx[r])]
  /\ UNCHANGED <<ri, wi, done, bnext, rtask, wtask, ridx, widx, werr, rpending, wpending,
                 rsW, wsW, wdW, mpc, wpc, latest, bail, hvars>>

RWaitB(r) ==
  /\ rpc[r] = "step"
  /\ ~done
  /\ (ridx[r] + 1) % N = ri
  /\ rsW' = rsW \cup {r}
  /\ UNCHANGED <<ri, wi, done, bnext, rtask, wtask, ridx, widx, werr, rpending, wpending,
                 wsW, rdW, wdW, mpc, rpc, wpc, latest, bail, hvars>>
RWait(r) == r \notin rsW /\ RWaitB(r)

ReaderNext(r) ==
  \/ RTaskBegin(r) \/ (\E o \in ROutcomes : RTaskEnd(r, o))
  \/ RExit(r) \/ RTake(r) \/ RSignal(r) \/ RWait(r)

-----------------------------------------------------------------------------
(* writer thread: io_writer_thread / io_writer_step *)

WTaskBegin(w) ==
  /\ wpc[w] = "begin"
  /\ wpc' = [wpc EXCEPT ![w] = "end"]
  /\ UNCHANGED <<ri, wi, done, bnext, rtask, wtask, ridx, widx, werr, rpending, wpending,
                 rsW, wsW, rdW, wdW, mpc, rpc, latest, bail, hvars>>

WTaskEnd(w, o) ==
  /\ wpc[w] = "end"
  /\ o \in WOutcomes
  /\ o # DONE => nfail < MaxFail
  /\ wtask' = [wtask EXCEPT ![w][widx[w]].st = o]
  /\ latest' = [latest EXCEPT ![w] = o]        \* latest_state = task->state
  /\ wlog' = [wlog EXCEPT ![w] = Append(@, <<wtask[w][widx[w]].pos, o>>)]
  /\ nfail' = IF o # DONE THEN nfail + 1 ELSE nfail
  /\ wpc' = [wpc EXCEPT ![w] = "step"]
  /\ UNCHANGED <<ri, wi, done, bnext, rtask, ridx, widx, werr, rpending, wpending,
                 rsW, wsW, rdW, wdW, mpc, rpc, bail,
                 mlog, mwritten, glog, rlog, collected, abort>>

\* "counts the number of errors in the global state": once per call of io_writer_step,
\* in its first critical section.  latest = 0 (EMPTY) marks "already counted in this call".
WCount(w) == IF latest[w] \in ErrStates THEN [werr EXCEPT ![latest[w]] = @ + 1] ELSE werr

WTakeB(w) ==
  /\ wpc[w] = "step"
  /\ LET next == (widx[w] + 1) % N
         sig == widx[w] = (wi + 1) % N      \* done_index == waiting_index
         empty == wtask[w][next].st = EMPTY
     IN /\ next # wi
        /\ werr' = WCount(w)
        /\ widx' = [widx EXCEPT ![w] = next]
           \* an EMPTY task: latest_state = DONE; continue  (a new call of io_writer_step)
        /\ latest' = [latest EXCEPT ![w] = IF empty THEN DONE ELSE EMPTY]
        /\ IF sig /\ SignalOutside
             THEN /\ wpc' = [wpc EXCEPT ![w] = "sig"]
                  /\ wdW' = wdW
             ELSE /\ wpc' = [wpc EXCEPT ![w] = IF empty THEN "step" ELSE "begin"]
                  /\ wdW' = IF sig THEN FALSE ELSE wdW
  /\ wsW' = wsW \ {w}
  /\ UNCHANGED <<ri, wi, done, bnext, rtask, wtask, ridx, rpending, wpending,
                 rsW, rdW, mpc, rpc, bail, hvars>>
WTake(w) == w \notin wsW /\ WTakeB(w)

WSignal(w) ==
  /\ wpc[w] = "sig"
  /\ wdW' = FALSE
  /\ wpc' = [wpc EXCEPT ![w] = IF wtask[w][widx[w]].st = EMPTY THEN "step" ELSE "begin"]
  /\ UNCHANGED <<ri, wi, done, bnext, rtask, wtask, ridx, widx, werr, rpending, wpending,
                 rsW, wsW, rdW, mpc, rpc, latest, bail, hvars>>

WExitB(w) ==                               \* "but only if there is no work to do"
  /\ wpc[w] = "step"
  /\ (widx[w] + 1) % N = wi
  /\ done
  /\ werr' = WCount(w)
  /\ latest' = [latest EXCEPT ![w] = EMPTY]
  /\ wpc' = [wpc EXCEPT ![w] = "exit"]
  /\ wsW' = wsW \ {w}
  /\ UNCHANGED <<ri, wi, done, bnext, rtask, wtask, ridx, widx, rpending, wpending,
                 rsW, rdW, wdW, mpc, rpc, bail, hvars>>
WExit(w) == w \notin wsW /\ WExitB(w)

WWaitB(w) ==
  /\ wpc[w] = "step"
  /\ (widx[w] + 1) % N = wi
  /\ ~done
  /\ werr' = WCount(w)
  /\ latest' = [latest EXCEPT ![w] = EMPTY]
  /\ wsW' = wsW \cup {w}
  /\ UNCHANGED <<ri, wi, done, bnext, rtask, wtask, ridx, widx, rpending, wpending,
                 rsW, rdW, wdW, mpc, rpc, wpc, bail, hvars>>
WWait(w) == w \notin wsW /\ WWaitB(w)

WriterNext(w) ==
  \/ WTaskBegin(w) \/ (\E o \in WOutcomes : WTaskEnd(w, o))
  \/ WTake(w) \/ WSignal(w) \/ WExit(w) \/ WWait(w)

-----------------------------------------------------------------------------
(* the caller, threaded mode *)

\* after io_read_next returned: end of positions -> break (io_stop), else read phase
MAfterReadNext(task, idx) == IF task[1][idx].pos >= BlockMax THEN "stop" ELSE "read"

ReadNext ==                                 \* io_read_next_thread
  /\ Threaded /\ mpc = "next"
  /\ LET cur == PosNext(bnext)
         nri == (ri + 1) % N
         ntask == [r \in Readers |-> [rtask[r] EXCEPT ![ri] = RSched(cur)]]
         cpos == ntask[1][nri].pos
     IN /\ bnext' = cur + 1
        /\ rtask' = ntask
        /\ ri' = nri
        /\ rpending' = Readers
        /\ mlog' = IF cpos < BlockMax THEN Append(mlog, cpos) ELSE mlog
        /\ IF SignalOutside
             THEN mpc' = "bR" /\ rsW' = rsW
             ELSE mpc' = MAfterReadNext(ntask, nri) /\ rsW' = {}
  /\ UNCHANGED <<wi, done, wtask, ridx, widx, werr, wpending, wsW, rdW, wdW, rpc, wpc, latest, bail,
                 mwritten, glog, rlog, wlog, collected, abort, nfail>>

MBroadcastR ==
  /\ mpc = "bR"
  /\ rsW' = {}
  /\ mpc' = MAfterReadNext(rtask, ri)
  /\ UNCHANGED <<ri, wi, done, bnext, rtask, wtask, ridx, widx, werr, rpending, wpending,
                 wsW, rdW, wdW, rpc, wpc, latest, bail, hvars>>

\* io_data_read is called RD times, then io_parity_read RP times: the range [base, base+count)
GotCand == IF rpending \cap (1..RD) # {} THEN rpending \cap (1..RD) ELSE rpending
GotReady == {r \in GotCand : ridx[r] # ri}     \* busy_index != worker->index

CallerGotB ==                               \* io_task_read_thread, a finished worker found
  /\ Threaded /\ mpc = "read"
  /\ GotReady # {}
  /\ LET r == Min(GotReady)
         st == rtask[r][ri].st
         rest == rpending \ {r}
     IN /\ rpending' = rest
        /\ glog' = [glog EXCEPT ![r] = Append(@, <<rtask[r][ri].pos, st>>)]
        /\ IF st \in HardStates
             THEN mpc' = "stop" /\ abort' = CurPos           \* goto bail
             ELSE /\ mpc' = IF rest # {} THEN "read" ELSE IF W > 0 THEN "wok" ELSE "next"
                  /\ abort' = abort
  /\ rdW' = FALSE
  /\ UNCHANGED <<ri, wi, done, bnext, rtask, wtask, ridx, widx, werr, wpending,
                 rsW, wsW, wdW, rpc, wpc, latest, bail,
                 mlog, mwritten, rlog, wlog, collected, nfail>>
CallerGot == ~rdW /\ CallerGotB

CallerWaitReadB ==                          \* io_task_read_thread, cond_wait(read_done)
  /\ Threaded /\ mpc = "read"
  /\ GotReady = {}
  /\ rdW' = TRUE
  /\ UNCHANGED <<ri, wi, done, bnext, rtask, wtask, ridx, widx, werr, rpending, wpending,
                 rsW, wsW, wdW, mpc, rpc, wpc, latest, bail, hvars>>
CallerWaitRead == ~rdW /\ CallerWaitReadB

WokReady == {w \in wpending : widx[w] # (wi + 1) % N}

CallerWriteOkB ==                           \* io_parity_write_thread, a finished writer found
  /\ Threaded /\ mpc = "wok"
  /\ WokReady # {}
  /\ LET w == Min(WokReady)
         rest == wpending \ {w}
     IN /\ wpending' = rest
        /\ mpc' = IF rest # {} THEN "wok" ELSE "wnext"
  /\ wdW' = FALSE
  /\ UNCHANGED <<ri, wi, done, bnext, rtask, wtask, ridx, widx, werr, rpending,
                 rsW, wsW, rdW, rpc, wpc, latest, bail, hvars>>
CallerWriteOk == ~wdW /\ CallerWriteOkB

CallerWaitWriteB ==
  /\ Threaded /\ mpc = "wok"
  /\ WokReady = {}
  /\ wdW' = TRUE
  /\ UNCHANGED <<ri, wi, done, bnext, rtask, wtask, ridx, widx, werr, rpending, wpending,
                 rsW, wsW, rdW, mpc, rpc, wpc, latest, bail, hvars>>
CallerWaitWrite == ~wdW /\ CallerWaitWriteB

AddErr(a, b) == [e \in ErrStates |-> a[e] + b[e]]
HasHard(c) == \E e \in HardStates : c[e] > 0

WriteNext(skip) ==                          \* io_write_next_thread
  /\ Threaded /\ mpc = "wnext"
  /\ skip \in BOOLEAN
  /\ skip => AllowSkip
  /\ collected' = AddErr(collected, werr)      \* "report errors"
  /\ werr' = ZeroErr
  /\ wtask' = [w \in Writers |-> [wtask[w] EXCEPT ![wi] =
                    [st |-> IF skip THEN EMPTY ELSE READY, pos |-> CurPos]]]
  /\ wi' = (wi + 1) % N
  /\ wpending' = Writers
  /\ mwritten' = Append(mwritten, <<CurPos, skip>>)
  /\ bail' = HasHard(werr)                     \* the caller's switch on writer_error[]: goto bail
  /\ IF SignalOutside
       THEN mpc' = "bW" /\ wsW' = wsW
       ELSE mpc' = (IF HasHard(werr) THEN "stop" ELSE "next") /\ wsW' = {}
  /\ UNCHANGED <<ri, done, bnext, rtask, ridx, widx, rpending, rsW, rdW, wdW, rpc, wpc, latest,
                 mlog, glog, rlog, wlog, abort, nfail>>

MBroadcastW ==
  /\ mpc = "bW"
  /\ wsW' = {}
  /\ mpc' = IF bail THEN "stop" ELSE "next"
  /\ UNCHANGED <<ri, wi, done, bnext, rtask, wtask, ridx, widx, werr, rpending, wpending,
                 rsW, rdW, wdW, rpc, wpc, latest, bail, hvars>>

\* the caller leaves its loop: end of positions / hard error (mpc = "stop"), early stop between two
\* stripes, or bail-out between the read phase and the first io_parity_write of a stripe
CallerLeaves ==
  \/ mpc = "stop"
  \/ mpc = "next" /\ AllowStop
  \/ mpc = (IF Threaded THEN "wok" ELSE "preset") /\ AllowBail /\ (Threaded => wpending = Writers /\ ~wdW)
Stop ==                                     \* io_stop_thread (broadcasts are inside the mutex)
  /\ Threaded
  /\ CallerLeaves
  /\ done' = TRUE
  /\ rsW' = {} /\ wsW' = {}
  /\ mpc' = "join"
  /\ bail' = (bail \/ mpc = "wok")
  /\ UNCHANGED <<ri, wi, bnext, rtask, wtask, ridx, widx, werr, rpending, wpending,
                 rdW, wdW, rpc, wpc, latest, hvars>>

Join ==                                     \* all thread_join returned
  /\ mpc = "join"
  /\ \A r \in Readers : rpc[r] = "exit"
  /\ \A w \in Writers : wpc[w] = "exit"
  /\ mpc' = "done"
  /\ UNCHANGED <<ri, wi, done, bnext, rtask, wtask, ridx, widx, werr, rpending, wpending,
                 rsW, wsW, rdW, wdW, rpc, wpc, latest, bail, hvars>>

-----------------------------------------------------------------------------
(* the caller, mono mode (io_max = 1): everything is executed by the caller itself;
   ri / wi are worker indices here ("In monothread mode it isn't the task index") *)

MonoReadNext ==                             \* io_read_next_mono
  /\ ~Threaded /\ mpc = "next"
  /\ LET cur == PosNext(bnext)
     IN /\ bnext' = cur + 1
        /\ ri' = 0
        /\ rtask' = [r \in Readers |-> [rtask[r] EXCEPT ![0] = RSched(cur)]]
        /\ mlog' = IF cur < BlockMax THEN Append(mlog, cur) ELSE mlog
        /\ mpc' = IF cur >= BlockMax THEN "stop" ELSE "read"
  /\ UNCHANGED <<wi, done, wtask, ridx, widx, werr, rpending, wpending, rsW, wsW, rdW, wdW,
                 rpc, wpc, latest, bail, mwritten, glog, rlog, wlog, collected, abort, nfail>>

MonoRead(o) ==                              \* io_task_read_mono: i = reader_index++; func()
  /\ ~Threaded /\ mpc = "read"
  /\ o \in ROutcomes
  /\ o # DONE => nfail < MaxFail
  /\ LET r == ri + 1
         pos == rtask[r][0].pos
     IN /\ ri' = ri + 1
        /\ rtask' = [rtask EXCEPT ![r][0].st = o]
        /\ rlog' = [rlog EXCEPT ![r] = Append(@, <<pos, o>>)]
        /\ glog' = [glog EXCEPT ![r] = Append(@, <<pos, o>>)]
        /\ nfail' = IF o # DONE THEN nfail + 1 ELSE nfail
        /\ IF o \in HardStates
             THEN mpc' = "stop" /\ abort' = CurPos
             ELSE /\ mpc' = IF r < R THEN "read" ELSE IF W > 0 THEN "preset" ELSE "next"
                  /\ abort' = abort
  /\ UNCHANGED <<wi, done, bnext, wtask, ridx, widx, werr, rpending, wpending, rsW, wsW, rdW, wdW,
                 rpc, wpc, latest, bail, mlog, mwritten, wlog, collected>>

MonoPreset(skip) ==                         \* io_write_preset_mono
  /\ ~Threaded /\ mpc = "preset"
  /\ skip \in BOOLEAN
  /\ skip => AllowSkip
  /\ wi' = 0
  /\ werr' = ZeroErr                           \* "clear errors"
  /\ wtask' = [w \in Writers |-> [wtask[w] EXCEPT ![0] =
                    [st |-> IF skip THEN EMPTY ELSE READY, pos |-> CurPos]]]
  /\ mwritten' = Append(mwritten, <<CurPos, skip>>)
  /\ mpc' = "wok"
  /\ UNCHANGED <<ri, done, bnext, rtask, ridx, widx, rpending, wpending, rsW, wsW, rdW, wdW,
                 rpc, wpc, latest, bail, mlog, glog, rlog, wlog, collected, abort, nfail>>

MonoWrite(o) ==                             \* io_parity_write_mono: i = writer_index++; func()
  /\ ~Threaded /\ mpc = "wok"                  \* the outcome is never counted (F4)
  /\ LET w == wi + 1
         empty == wtask[w][0].st = EMPTY
     IN /\ wi' = wi + 1
        /\ IF empty
             THEN /\ o = DONE
                  /\ UNCHANGED <<wtask, wlog, nfail>>
             ELSE /\ o \in WOutcomes
                  /\ o # DONE => nfail < MaxFail
                  /\ wtask' = [wtask EXCEPT ![w][0].st = o]
                  /\ wlog' = [wlog EXCEPT ![w] = Append(@, <<wtask[w][0].pos, o>>)]
                  /\ nfail' = IF o # DONE THEN nfail + 1 ELSE nfail
        /\ mpc' = IF w < W THEN "wok" ELSE "wnext"
  /\ UNCHANGED <<ri, done, bnext, rtask, ridx, widx, werr, rpending, wpending, rsW, wsW, rdW, wdW,
                 rpc, wpc, latest, bail, mlog, mwritten, glog, rlog, collected, abort>>

MonoWriteNext ==                            \* io_write_next_mono: reports io->writer_error (all zero)
  /\ ~Threaded /\ mpc = "wnext"
  /\ collected' = AddErr(collected, werr)
  /\ bail' = HasHard(werr)
  /\ mpc' = IF HasHard(werr) THEN "stop" ELSE "next"
  /\ UNCHANGED <<ri, wi, done, bnext, rtask, wtask, ridx, widx, werr, rpending, wpending,
                 rsW, wsW, rdW, wdW, rpc, wpc, latest,
                 mlog, mwritten, glog, rlog, wlog, abort, nfail>>

MonoStop ==                                 \* io_stop_mono
  /\ ~Threaded
  /\ CallerLeaves
  /\ mpc' = "done"
  /\ bail' = (bail \/ mpc = "preset")
  /\ UNCHANGED <<ri, wi, done, bnext, rtask, wtask, ridx, widx, werr, rpending, wpending,
                 rsW, wsW, rdW, wdW, rpc, wpc, latest, hvars>>

MainNext ==
  \/ ReadNext \/ MBroadcastR \/ CallerGot \/ CallerWaitRead
  \/ CallerWriteOk \/ CallerWaitWrite \/ (\E s \in BOOLEAN : WriteNext(s)) \/ MBroadcastW
  \/ Stop \/ Join
  \/ MonoReadNext \/ (\E o \in ROutcomes : MonoRead(o)) \/ (\E s \in BOOLEAN : MonoPreset(s))
  \/ (\E o \in WOutcomes \cup {DONE} : MonoWrite(o)) \/ MonoWriteNext \/ MonoStop

-----------------------------------------------------------------------------
(* spurious wake-ups: any waiter may leave its wait-set at any time *)
SpuriousWake ==
  /\ Spurious
  /\ \/ \E r \in rsW : rsW' = rsW \ {r} /\ UNCHANGED <<wsW, rdW, wdW>>
     \/ \E w \in wsW : wsW' = wsW \ {w} /\ UNCHANGED <<rsW, rdW, wdW>>
     \/ rdW /\ rdW' = FALSE /\ UNCHANGED <<rsW, wsW, wdW>>
     \/ wdW /\ wdW' = FALSE /\ UNCHANGED <<rsW, wsW, rdW>>
  /\ UNCHANGED <<ri, wi, done, bnext, rtask, wtask, ridx, widx, werr, rpending, wpending,
                 mpc, rpc, wpc, latest, bail, hvars>>

Done == mpc = "done"
Terminating == Done /\ UNCHANGED vars

Next ==
  \/ MainNext
  \/ \E r \in Readers : ReaderNext(r)
  \/ \E w \in Writers : WriterNext(w)
  \/ SpuriousWake
  \/ Terminating

Spec == Init /\ [][Next]_vars

\* weak fairness of every thread; spurious wake-ups are never fair (they must not be needed)
FairSpec ==
  /\ Spec
  /\ WF_vars(MainNext)
  /\ \A r \in Readers : WF_vars(ReaderNext(r))
  /\ \A w \in Writers : WF_vars(WriterNext(w))

-----------------------------------------------------------------------------
(* properties *)

Task == [st : TaskStates, pos : Int]

TypeOK ==
  /\ ri \in 0..(IF Threaded THEN N - 1 ELSE R) /\ wi \in 0..(IF Threaded THEN N - 1 ELSE W)
  /\ done \in BOOLEAN /\ bnext \in Int
  /\ \A r \in Readers : \A s \in Slots : rtask[r][s].st \in TaskStates
  /\ \A w \in Writers : \A s \in Slots : wtask[w][s].st \in TaskStates
  /\ ridx \in [Readers -> Slots] /\ widx \in [Writers -> Slots]
  /\ rpending \subseteq Readers /\ wpending \subseteq Writers
  /\ rsW \subseteq Readers /\ wsW \subseteq Writers /\ rdW \in BOOLEAN /\ wdW \in BOOLEAN
  /\ mpc \in {"next", "bR", "read", "wok", "wnext", "bW", "stop", "join", "done", "preset"}
  /\ \A r \in Readers : rpc[r] \in {"begin", "end", "step", "sig", "exit"}
  /\ \A w \in Writers : wpc[w] \in {"begin", "end", "step", "sig", "exit"}

\* the asserts of io.c
Asserts ==
  /\ Threaded => \A w \in Writers : widx[w] # wi          \* io.c:663
  /\ Threaded /\ mpc \in {"wok", "wnext"} => wi = ri        \* io.c:477
  /\ mpc = "next" => rpending = {}                          \* io.c:414
  /\ mpc = "wnext" => wpending = {}                         \* io.c:453
     \* io.c:727/757: a taken task is READY (or EMPTY and skipped)
  /\ \A r \in Readers : rpc[r] = "begin" => rtask[r][ridx[r]].st = READY
  /\ \A w \in Writers : wpc[w] = "begin" => wtask[w][widx[w]].st = READY

\* Ownership: a worker that holds a slot (from its take to the end of the task) excludes the caller.
\*  - the caller uses reader r's part of slot ri from CallerGot(r) until the next io_read_next,
\*    and rewrites the task structures of slot ri in io_read_next;
\*  - the caller uses the parity part of slot wi (= ri) from io_read_next to io_write_next and
\*    rewrites the writer task structures of slot wi in io_write_next.
Ownership ==
  /\ \A r \in Readers : (rpc[r] \in {"begin", "end", "sig"} /\ ridx[r] = ri) => r \in rpending
  /\ \A w \in Writers : wpc[w] \in {"begin", "end", "sig"} => widx[w] # wi
     \* and two different tasks of one worker never share a slot: the slot a worker holds
     \* still carries the position it was scheduled with (not yet rescheduled by the caller)
  /\ \A r \in Readers : rpc[r] = "end" => rtask[r][ridx[r]].st = READY
  /\ \A w \in Writers : wpc[w] = "end" => wtask[w][widx[w]].st = READY

\* the sorted enumeration of Enabled, without recursion (a constant: TLC evaluates it once)
EnabledSeq == [k \in 1..NEnabled |-> KthEnabled(k - 1)]
IsPrefix(s, t) == Len(s) <= Len(t) /\ \A i \in 1..Len(s) : s[i] = t[i]
IsEnabledPrefix(s) == IsPrefix(s, EnabledSeq)
Firsts(s) == [i \in 1..Len(s) |-> s[i][1]]
NotSkipped == Firsts(SelectSeq(mwritten, LAMBDA e : ~e[2]))

RBusyPos(r) == IF rpc[r] = "end" THEN <<rtask[r][ridx[r]].pos>> ELSE <<>>
WBusyPos(w) == IF wpc[w] = "end" THEN <<wtask[w][widx[w]].pos>> ELSE <<>>

\* every thread processes the enabled positions exactly once and in order;
\* what the caller gets is what the workers produced; what the writers write is what the caller queued
OnceInOrder ==
  /\ IsEnabledPrefix(mlog)
  /\ IsPrefix(Firsts(mwritten), mlog)
  /\ IF W > 0 THEN Len(mwritten) >= Len(mlog) - 1 ELSE mwritten = <<>>
  /\ \A r \in Readers :
       /\ IsEnabledPrefix(Firsts(rlog[r]) \o RBusyPos(r))
       /\ IsPrefix(glog[r], rlog[r])            \* same positions, same results, same order
       /\ IsPrefix(Firsts(glog[r]), mlog) /\ Len(glog[r]) >= Len(mlog) - 1
       /\ (mpc = "read" /\ r \in rpending) => Len(glog[r]) = Len(mlog) - 1
       /\ mpc \in {"wok", "wnext", "bW", "preset"} => Len(glog[r]) = Len(mlog)
  /\ \A w \in Writers : IsPrefix(Firsts(wlog[w]) \o WBusyPos(w), NotSkipped)
  /\ Done =>
       /\ \A w \in Writers : Firsts(wlog[w]) = NotSkipped      \* nothing queued is lost
       /\ \A r \in Readers : abort = -1 => Firsts(glog[r]) = mlog
       /\ abort = -1 /\ ~bail /\ W > 0 => Firsts(mwritten) = mlog

\* Deterministic: at Done the observable result is a function of the inputs only, where the inputs are
\* the outcome of every executed task (rlog, wlog), the caller's skip decisions (mwritten) and the
\* point where the caller stopped (mlog).  Expected values computed as the sequential semantics:
Outcome(log, p) == IF \E i \in 1..Len(log) : log[i][1] = p
                     THEN log[CHOOSE i \in 1..Len(log) : log[i][1] = p][2] ELSE EMPTY
Range(s) == {s[i] : i \in 1..Len(s)}
HardAt(p) == \E r \in Readers : Outcome(rlog[r], p) \in HardStates
\* reader errors the caller has seen, as a set of <<reader, position, state>>
ReportedErr == {e \in UNION {{<<r, glog[r][i][1], glog[r][i][2]>> : i \in 1..Len(glog[r])} : r \in Readers}
                  : e[3] \in ErrStates}
ExpectedErr == {e \in UNION {{<<r, rlog[r][i][1], rlog[r][i][2]>> : i \in 1..Len(rlog[r])} : r \in Readers}
                  : e[3] \in ErrStates /\ e[2] \in Range(mlog)}
Deterministic ==
  Done =>
    \* the written-parity map: every writer wrote exactly the queued non-skipped positions
    /\ \A w \in Writers : Firsts(wlog[w]) = NotSkipped
    \* the caller bails out exactly at the first position with a hard reader error
    /\ \A p \in Range(mlog) : HardAt(p) <=> abort = p
    \* reported reader errors = failed reader tasks of the processed positions
    \* (within the position of a bail-out only a subset is seen: the caller leaves at the first hard one)
    /\ {e \in ReportedErr : e[2] # abort} = {e \in ExpectedErr : e[2] # abort}
    /\ ReportedErr \subseteq ExpectedErr

\* ErrorsAccounted (C08): every failed task is handed to the caller.
ErrorsAccountedR ==
  Done => {e \in ExpectedErr : e[2] # abort} \subseteq ReportedErr
WFailed == [e \in ErrStates |->
              Cardinality({<<w, i>> \in Writers \X (1..BlockMax + 1) : i <= Len(wlog[w]) /\ wlog[w][i][2] = e})]
ErrorsAccountedW ==                         \* expected to FAIL: F4
  Done => collected = WFailed

Termination == <>Done

\* no waiter is left behind while its condition holds forever is covered by Termination;
\* useful state constraint-free sanity: a thread in a wait-set is at a waiting pc
WaitSane ==
  /\ \A r \in rsW : rpc[r] = "step"
  /\ \A w \in wsW : wpc[w] = "step"
  /\ rdW => mpc = "read"
  /\ wdW => mpc = "wok"

=============================================================================
