\* generated ContentStates: round trip through the decoder, corpus dump (CF_DUMP), tier from CF_TIER
\* module ContentFormatMC; needs witness_crc32c.json in the working directory (harness/py/cfmt.py write_crc_witness);
\* run through harness/py/cfspec.py, which copies the spec into a private directory under out/
CONSTANT Part = "gen"
INIT Init
NEXT Next
INVARIANT JobInv
CHECK_DEADLOCK FALSE
