\* generated ContentStates: round trip through the decoder, corpus dump (CF_DUMP), tier from CF_TIER
CONSTANT Part = "gen"
INIT Init
NEXT Next
INVARIANT JobInv
CHECK_DEADLOCK FALSE
