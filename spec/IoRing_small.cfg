\* quick tier: threaded ring, 3 slots, 2 data readers, 1 writer, 4 enabled positions out of 5
\* (one disabled position in the middle), at most one failing task (soft or hard for readers,
\* soft for writers: a hard writer error makes the bail-out point schedule dependent, see IoRing_errors.cfg),
\* skip and early stop allowed, spurious wake-ups on, signal inside the mutex.
SPECIFICATION FairSpec
CONSTANTS
  N = 3
  RD = 2
  RP = 0
  W = 1
  BlockStart = 0
  BlockMax = 5
  Enabled = {0, 1, 3, 4}
  SignalOutside = FALSE
  Spurious = TRUE
  ROutcomes <- OutSoftHard
  WOutcomes <- OutWSoft
  MaxFail = 1
  AllowSkip = TRUE
  AllowStop = TRUE
  AllowBail = FALSE
INVARIANTS TypeOK Asserts Ownership OnceInOrder Deterministic ErrorsAccountedR WaitSane
PROPERTY Termination
CHECK_DEADLOCK TRUE
