--------------------------- MODULE ContentFormat ---------------------------
\* The content file of SnapRAID (SNAPCNT2 / SNAPCNT3) as a total function of the array state.
\*
\*   EncodeRaw(s, now)  the byte sequence that holds ContentState s (no normalisation), records
\*                      z x y c C M P/Q f(b g p) a s r h(o O) i N + CRC-32C, with the run-length rules of the
\*                      writer (cmdline/state.c:2897-3367) and the varint codec of cmdline/stream.c
\*   Norm(s)            the normalisation the writer applies before saving (state.c:3400-3453): info and
\*                      deleted blocks of positions no file uses are dropped, disks left empty lose their
\*                      mapping, the previous hash is kept only while a rehash mark exists
\*   Encode(s, now)     == EncodeRaw(Norm(s), now)      what a save of s at time now must write
\*   DRun(b)            the strict decoder (inverse of EncodeRaw), written as a fold of the one-record step
\*                      DStep; it ends in phase "ok" (loaded) or "bad" (rejected, with the reason)
\*   Reloaded(s, now)   the state a reload must give back:  Decoded(Encode(s, now)) = Reloaded(s, now)
\*
\* Numbers.  TLC integers are 32-bit signed, so
\*   * unsigned 32-bit quantities (positions, counts, block totals, times, the CRC) are pairs <<hi16, lo16>>
\*     with explicit modulo-2^32 arithmetic (UAdd, USub, ULt);
\*   * unsigned 64-bit quantities (sizes, seconds, inodes) are carried as their canonical little-endian
\*     sequence of 7-bit digits, which is exactly what the varint codec writes (last byte has bit 0x80 set);
\*   * small quantities (block size, hash size, name lengths, mapping indexes, nsec) are plain naturals.
\* Byte strings (names, uuids, hashes, seeds) are sequences over 0..255.
\*
\* ContentState ==
\*  [ bs : Nat, hs : 2..16, hash : [kind : {117,107,109}, seed : Bytes(16)], prev : Seq(hash) of length 0 or 1,
\*    maps   : Seq([name, pos : Nat, total : U32, free : U32, uuid]),          \* order of the 'M' records
\*    parity : Seq([total : U32, free : U32, splits : Seq([path, uuid, size : D64])]),   \* index = level + 1
\*    disks  : Seq([map : index into maps,                                     \* order of the configuration
\*                  files : Seq([name, size : D64, sec : D64, nsec : -1..(2^31-2), ino : D64,
\*                               blocks : Seq([pos : U32, st : {98,103,112}, h : Bytes(hs)])]),
\*                  links : Seq([kind : {97,115}, name, to]), dirs : Seq(name),
\*                  del : Seq([pos : U32, h : Bytes(hs)])  ascending by pos ]),
\*    info   : Seq([pos : U32, t : U32, bad, rehash, js : BOOLEAN]) ascending by pos ]
\*
\* The CRC-32C table is a JSON witness (witness_crc32c.json); every entry is checked below against the bitwise
\* definition of the reflected polynomial 0x82F63B78 (eight unrolled shift steps, no recursion).
EXTENDS Integers, Sequences, FiniteSets, Bitwise, Json, TLC, IOUtils, SequencesExt, Functions

Eager(f) == f @@ <<>>            \* forces a lazily evaluated function into a table
Cat(ss) == FoldLeft(LAMBDA a, x : a \o x, <<>>, ss)
Idx(n) == [i \in 1..n |-> i]
MinOf(S) == CHOOSE x \in S : \A y \in S : x <= y
Byte == 0..255

-----------------------------------------------------------------------------
\* unsigned 32-bit arithmetic on <<hi, lo>>

UZ == <<0, 0>>
U1 == <<0, 1>>
UN(n) == <<n \div 65536, n % 65536>>                         \* n in 0 .. 2^31-1
ULt(a, b) == a[1] < b[1] \/ (a[1] = b[1] /\ a[2] < b[2])
ULe(a, b) == ~ULt(b, a)
UAdd(a, b) == LET l == a[2] + b[2] IN <<(a[1] + b[1] + (l \div 65536)) % 65536, l % 65536>>
USub(a, b) == LET l == a[2] - b[2]
              IN IF l >= 0 THEN <<(a[1] - b[1] + 65536) % 65536, l>>
                 ELSE <<(a[1] - b[1] + 65535) % 65536, l + 65536>>
UMin(a, b) == IF ULt(b, a) THEN b ELSE a
UFloor8(a) == <<a[1], a[2] - (a[2] % 8)>>
UXor(a, b) == <<a[1] ^^ b[1], a[2] ^^ b[2]>>
UMaxOf(S) == CHOOSE m \in S : \A x \in S : ~ULt(m, x)
UMinOf(S) == CHOOSE m \in S : \A x \in S : ~ULt(x, m)
USmall(a) == a[1] < 32768
UNat(a) == a[1] * 65536 + a[2]                               \* only where USmall(a)
IsU32(a) == a \in (0..65535) \X (0..65535)

\* the five 7-bit digits of a 32-bit value, least significant first
UDig(a) == <<a[2] % 128, (a[2] \div 128) % 128, (a[2] \div 16384) + 4 * (a[1] % 32),
             (a[1] \div 32) % 128, a[1] \div 4096>>
DLen5(d) == IF d[5] # 0 THEN 5 ELSE IF d[4] # 0 THEN 4 ELSE IF d[3] # 0 THEN 3 ELSE IF d[2] # 0 THEN 2 ELSE 1
\* and back (value modulo 2^32: the upper three bits of a fifth digit are dropped, as sgetb32 does)
DigU(d) == LET g(i) == IF i <= Len(d) THEN d[i] ELSE 0
           IN <<(g(3) \div 4) + 32 * g(4) + 4096 * (g(5) % 16), g(1) + 128 * g(2) + 16384 * (g(3) % 4)>>

\* canonical digit sequence of a natural below 2^31 (for 64-bit fields whose value is small)
NatDig(n) == LET d == UDig(UN(n)) IN SubSeq(d, 1, DLen5(d))
IsD64(d) == /\ Len(d) \in 1..10 /\ \A i \in 1..Len(d) : d[i] \in 0..127
            /\ (Len(d) > 1 => d[Len(d)] # 0) /\ (Len(d) = 10 => d[10] = 1)
\* strip an overlong encoding to the canonical form (value modulo 2^64)
DCanon(d) == LET e == [i \in 1..Len(d) |-> IF i = 10 THEN d[i] % 2 ELSE d[i]]
                 nz == {i \in 1..Len(e) : e[i] # 0}
             IN IF nz = {} THEN <<0>> ELSE SubSeq(e, 1, CHOOSE i \in nz : \A j \in nz : j <= i)
\* value of a digit sequence when it fits a TLC integer (used for file sizes in the decoder)
DFitsNat(d) == Len(d) <= 4 \/ (Len(d) = 5 /\ d[5] <= 7)
DNat(d) == LET g(i) == IF i <= Len(d) THEN d[i] ELSE 0
           IN g(1) + 128 * g(2) + 16384 * g(3) + 2097152 * g(4) + 268435456 * g(5)

-----------------------------------------------------------------------------
\* varints (stream.c sputb32 / sputb64): 7-bit groups, least significant first, LAST byte has bit 0x80 set

VarU(a) == LET d == UDig(a) n == DLen5(d) IN [i \in 1..n |-> IF i = n THEN d[i] + 128 ELSE d[i]]
VarN(n) == VarU(UN(n))
VarD(d) == [i \in 1..Len(d) |-> IF i = Len(d) THEN d[i] + 128 ELSE d[i]]
Str(b) == VarN(Len(b)) \o b                                  \* sputbs: length, then the bytes

-----------------------------------------------------------------------------
\* CRC-32C (Castagnoli, reflected 0x82F63B78), util.c crc32c(); value as <<hi, lo>>

CrcW == JsonDeserialize("witness_crc32c.json")
CrcT == CrcW.t                                               \* CrcT[i + 1] = table entry of byte i
Shr1(c) == <<c[1] \div 2, (c[1] % 2) * 32768 + (c[2] \div 2)>>
Shr8(c) == <<c[1] \div 256, (c[1] % 256) * 256 + (c[2] \div 256)>>
CrcPoly == <<33526, 15224>>                                  \* 0x82F6 3B78
CStep(c) == IF c[2] % 2 = 1 THEN UXor(Shr1(c), CrcPoly) ELSE Shr1(c)
CrcDef(i) == LET c0 == <<0, i>>
                 c1 == CStep(c0)
                 c2 == CStep(c1)
                 c3 == CStep(c2)
                 c4 == CStep(c3)
                 c5 == CStep(c4)
                 c6 == CStep(c5)
                 c7 == CStep(c6)
             IN CStep(c7)
CrcTableOK == Len(CrcT) = 256 /\ \A i \in 0..255 : CrcT[i + 1] = CrcDef(i)
ASSUME CrcTableOK

UFF == <<65535, 65535>>
CrcUpd(c, b) == UXor(CrcT[((c[2] % 256) ^^ b) + 1], Shr8(c))
Crc32c(bytes) == UXor(FoldLeft(CrcUpd, UFF, bytes), UFF)
\* the definition without the table, bit by bit (used to cross-check Crc32c on short inputs)
CrcBitUpd(c, b) == LET x0 == <<c[1], c[2] ^^ b>>
                       x1 == CStep(x0)
                       x2 == CStep(x1)
                       x3 == CStep(x2)
                       x4 == CStep(x3)
                       x5 == CStep(x4)
                       x6 == CStep(x5)
                       x7 == CStep(x6)
                   IN CStep(x7)
Crc32cDef(bytes) == UXor(FoldLeft(CrcBitUpd, UFF, bytes), UFF)
CrcLE(c) == <<c[2] % 256, c[2] \div 256, c[1] % 256, c[1] \div 256>>
\* the standard check value: CRC-32C("123456789") = 0xE3069283
ASSUME Crc32c(<<49, 50, 51, 52, 53, 54, 55, 56, 57>>) = <<58118, 37507>>
ASSUME Crc32cDef(<<49, 50, 51, 52, 53, 54, 55, 56, 57>>) = <<58118, 37507>>

-----------------------------------------------------------------------------
\* derived quantities of a state

Ver(s) == IF s.hs # 16 \/ (\E l \in 1..Len(s.parity) : Len(s.parity[l].splits) > 1) THEN 3 ELSE 2

\* positions used by a file on some disk: the "required" positions of state.c:1628
AllPos(s) == UNION { UNION { { f.blocks[j].pos : j \in 1..Len(f.blocks) } : f \in ToSet(D.files) }
                     : D \in ToSet(s.disks) }
\* parity_allocated_size(): one past the highest position used by a file
Bmax(s) == LET P == AllPos(s) IN IF P = {} THEN UZ ELSE UAdd(UMaxOf(P), U1)
HasRehash(s) == \E i \in 1..Len(s.info) : s.info[i].rehash
\* oldest recorded time (0 when there is no info)
Oldest(s) == IF Len(s.info) = 0 THEN UZ ELSE UMinOf({s.info[i].t : i \in 1..Len(s.info)})

-----------------------------------------------------------------------------
\* the encoder

\* maximal runs of a sequence: indexes where a new run starts, then [a |-> first, n |-> length]
RunsOf(n, IsStart(_)) ==
    LET st == SelectSeq(Idx(n), IsStart)
    IN [k \in 1..Len(st) |-> [a |-> st[k], n |-> (IF k < Len(st) THEN st[k + 1] ELSE n + 1) - st[k]]]

\* block runs of a file: a run continues while the state is equal and the positions are consecutive
EncBlocks(bl) ==
    LET IsStart(i) == i = 1 \/ bl[i].st # bl[i - 1].st \/ bl[i].pos # UAdd(bl[i - 1].pos, U1)
        runs == RunsOf(Len(bl), IsStart)
    IN Cat([k \in 1..Len(runs) |->
              <<bl[runs[k].a].st>> \o VarU(bl[runs[k].a].pos) \o VarN(runs[k].n)
              \o Cat([j \in 1..runs[k].n |-> bl[runs[k].a + j - 1].h])])

EncFile(m0, f) ==
    <<102>> \o VarN(m0) \o VarD(f.size) \o VarD(f.sec) \o VarN(f.nsec + 1) \o VarD(f.ino) \o Str(f.name)
    \o EncBlocks(f.blocks)

EncLink(m0, l) == <<l.kind>> \o VarN(m0) \o Str(l.name) \o Str(l.to)
EncDir(m0, d) == <<114>> \o VarN(m0) \o Str(d)

\* the 'h' record: runs covering [0, bmax), alternately not-deleted ('O', no hashes) and deleted ('o')
EncHoles(del, bmax) ==
    LET n == Len(del)
        IsStart(i) == i = 1 \/ del[i].pos # UAdd(del[i - 1].pos, U1)
        runs == RunsOf(n, IsStart)
        R == Len(runs)
        EndPos(k) == UAdd(del[runs[k].a + runs[k].n - 1].pos, U1)
        Gap(k) == USub(del[runs[k].a].pos, IF k = 1 THEN UZ ELSE EndPos(k - 1))
        Rest == USub(bmax, IF R = 0 THEN UZ ELSE EndPos(R))
    IN Cat([k \in 1..R |->
              (IF Gap(k) # UZ THEN VarU(Gap(k)) \o <<79>> ELSE <<>>)
              \o VarN(runs[k].n) \o <<111>> \o Cat([j \in 1..runs[k].n |-> del[runs[k].a + j - 1].h])])
       \o (IF Rest # UZ THEN VarU(Rest) \o <<79>> ELSE <<>>)

EncDisk(D, bmax) ==
    LET m0 == D.map - 1
    IN Cat([i \in 1..Len(D.files) |-> EncFile(m0, D.files[i])])
       \o Cat([i \in 1..Len(D.links) |-> EncLink(m0, D.links[i])])
       \o Cat([i \in 1..Len(D.dirs) |-> EncDir(m0, D.dirs[i])])
       \o <<104>> \o VarN(m0) \o EncHoles(D.del, bmax)

InfoFlag(e) == 1 + (IF e.bad THEN 2 ELSE 0) + (IF e.rehash THEN 4 ELSE 0) + (IF e.js THEN 8 ELSE 0)
\* time as written: truncated to now when in the future, then relative to the oldest
InfoTime(t, oldest, now) == LET c == UMin(t, now) IN IF ULt(c, oldest) THEN UZ ELSE USub(c, oldest)

\* the 'i' record: runs of equal info covering [0, bmax); flag 0 = no info
EncInfo(inf, bmax, oldest, now) ==
    LET n == Len(inf)
        Same(a, b) == a.t = b.t /\ a.bad = b.bad /\ a.rehash = b.rehash /\ a.js = b.js
        IsStart(i) == i = 1 \/ inf[i].pos # UAdd(inf[i - 1].pos, U1) \/ ~Same(inf[i], inf[i - 1])
        runs == RunsOf(n, IsStart)
        R == Len(runs)
        EndPos(k) == UAdd(inf[runs[k].a + runs[k].n - 1].pos, U1)
        Gap(k) == USub(inf[runs[k].a].pos, IF k = 1 THEN UZ ELSE EndPos(k - 1))
        Rest == USub(bmax, IF R = 0 THEN UZ ELSE EndPos(R))
    IN <<105>> \o VarU(oldest)
       \o Cat([k \in 1..R |->
              (IF Gap(k) # UZ THEN VarU(Gap(k)) \o VarN(0) ELSE <<>>)
              \o VarN(runs[k].n) \o VarN(InfoFlag(inf[runs[k].a]))
              \o VarU(InfoTime(inf[runs[k].a].t, oldest, now))])
       \o (IF Rest # UZ THEN VarU(Rest) \o VarN(0) ELSE <<>>)

EncHash(tag, h) == <<tag, h.kind>> \o h.seed
EncMap(m) == <<77>> \o Str(m.name) \o VarN(m.pos) \o VarU(m.total) \o VarU(m.free) \o Str(m.uuid)
EncParity(v, l, P) ==
    IF v = 3
    THEN <<81>> \o VarN(l - 1) \o VarU(P.total) \o VarU(P.free) \o VarN(Len(P.splits))
         \o Cat([k \in 1..Len(P.splits) |->
                   Str(P.splits[k].path) \o Str(P.splits[k].uuid) \o VarD(P.splits[k].size)])
    ELSE <<80>> \o VarN(l - 1) \o VarU(P.total) \o VarU(P.free) \o Str(P.splits[1].uuid)

EncBody(s, now) ==
    LET v == Ver(s)
        bmax == Bmax(s)
    IN <<83, 78, 65, 80, 67, 78, 84, 48 + v, 10, 3, 0, 0>>
       \o <<122>> \o VarN(s.bs) \o <<120>> \o VarU(bmax)
       \o (IF v = 3 THEN <<121>> \o VarN(s.hs) ELSE <<>>)
       \o EncHash(99, s.hash)
       \o (IF Len(s.prev) = 1 /\ HasRehash(s) THEN EncHash(67, s.prev[1]) ELSE <<>>)
       \o Cat([i \in 1..Len(s.maps) |-> EncMap(s.maps[i])])
       \o Cat([l \in 1..Len(s.parity) |-> EncParity(v, l, s.parity[l])])
       \o Cat([i \in 1..Len(s.disks) |-> EncDisk(s.disks[i], bmax)])
       \o EncInfo(s.info, bmax, Oldest(s), now)
       \o <<78>>

EncodeRaw(s, now) == LET body == EncBody(s, now) IN body \o CrcLE(Crc32c(body))

-----------------------------------------------------------------------------
\* normalisation before a save (state.c:3400-3453) and the state a reload gives back

Norm(s) ==
    LET req == AllPos(s)
        dk == [i \in 1..Len(s.disks) |->
                 [s.disks[i] EXCEPT !.del = SelectSeq(s.disks[i].del, LAMBDA e : e.pos \in req)]]
        NonEmpty(D) == Len(D.files) > 0 \/ Len(D.links) > 0 \/ Len(D.dirs) > 0 \/ Len(D.del) > 0
        kept == SelectSeq(dk, NonEmpty)
        keptMaps == SelectSeq(Idx(Len(s.maps)), LAMBDA m : \E i \in 1..Len(kept) : kept[i].map = m)
        NewIdx(m) == CHOOSE k \in 1..Len(keptMaps) : keptMaps[k] = m
        inf == SelectSeq(s.info, LAMBDA e : e.pos \in req)
        rh == \E i \in 1..Len(inf) : inf[i].rehash
    IN [s EXCEPT !.maps = [k \in 1..Len(keptMaps) |-> s.maps[keptMaps[k]]],
                 !.disks = [i \in 1..Len(kept) |-> [kept[i] EXCEPT !.map = NewIdx(kept[i].map)]],
                 !.info = inf,
                 !.prev = IF rh THEN s.prev ELSE <<>>]

Encode(s, now) == EncodeRaw(Norm(s), now)

\* what is in memory after loading a file that holds s written at time now: times truncated to now and
\* to multiples of 8 (elem.h info_make keeps the three low bits for the flags); a previous hash that was
\* not written is gone; version 2 files do not carry the parity paths and sizes
LoadView(s, now) ==
    [s EXCEPT !.info = [i \in 1..Len(s.info) |-> [s.info[i] EXCEPT !.t = UFloor8(UMin(s.info[i].t, now))]],
              !.prev = IF HasRehash(s) THEN s.prev ELSE <<>>]
Reloaded(s, now) == LoadView(Norm(s), now)

-----------------------------------------------------------------------------
\* the decoder: one record (or one run of a record) per step

MaxName == 4095                                               \* PATH_MAX - 1

\* varint of at most maxd bytes at position p: [ok, d (digits), nx]
RdVar(b, p, maxd) ==
    LET n == Len(b)
        hi == IF p + maxd - 1 < n THEN p + maxd - 1 ELSE n
        cand == {j \in p..hi : b[j] >= 128}
    IN IF cand = {} THEN [ok |-> FALSE, d |-> <<0>>, nx |-> p]
       ELSE LET j == MinOf(cand)
            IN [ok |-> TRUE, d |-> [i \in 1..(j - p + 1) |-> b[p + i - 1] % 128], nx |-> j + 1]
Rd32(b, p) == LET r == RdVar(b, p, 5) IN [ok |-> r.ok, v |-> DigU(r.d), nx |-> r.nx]
Rd64(b, p) == LET r == RdVar(b, p, 10) IN [ok |-> r.ok, v |-> DCanon(r.d), nx |-> r.nx]
RdRaw(b, p, n) == IF p + n - 1 <= Len(b) THEN [ok |-> TRUE, v |-> SubSeq(b, p, p + n - 1), nx |-> p + n]
                  ELSE [ok |-> FALSE, v |-> <<>>, nx |-> p]
RdStr(b, p) == LET l == Rd32(b, p)
                   n == IF l.ok /\ l.v[1] = 0 /\ l.v[2] <= MaxName THEN l.v[2] ELSE 0
                   r == RdRaw(b, l.nx, n)
               IN [ok |-> l.ok /\ l.v[1] = 0 /\ l.v[2] <= MaxName /\ r.ok, v |-> r.v, nx |-> r.nx]

NoSec(m) == [map |-> m, files |-> <<>>, links |-> <<>>, dirs |-> <<>>, del |-> <<>>]
WithSec(secs, m) == IF \E i \in 1..Len(secs) : secs[i].map = m THEN secs ELSE Append(secs, NoSec(m))
SecOf(secs, m) == CHOOSE i \in 1..Len(secs) : secs[i].map = m

DInit == [ph |-> "top", p |-> 13, why |-> "", ver |-> 0, bs |-> 0, bmax |-> UZ, hs |-> 16, hash |-> <<>>,
          prev |-> <<>>, maps |-> <<>>, parity |-> <<>>, secs |-> <<>>, info |-> <<>>, oldest |-> UZ,
          crc |-> FALSE, k |-> 0, pos |-> UZ, cur |-> 0, idx |-> 0]

Bad(a, why) == [a EXCEPT !.ph = "bad", !.why = why]

DHeader(b) ==
    IF Len(b) < 12 THEN Bad(DInit, "short header")
    ELSE LET h == SubSeq(b, 1, 12)
         IN IF h = <<83, 78, 65, 80, 67, 78, 84, 50, 10, 3, 0, 0>> THEN [DInit EXCEPT !.ver = 2]
            ELSE IF h = <<83, 78, 65, 80, 67, 78, 84, 51, 10, 3, 0, 0>> THEN [DInit EXCEPT !.ver = 3]
            ELSE Bad(DInit, "bad header")

HashKinds == {117, 107, 109}                                  \* 'u' murmur3, 'k' spooky2, 'm' metro

DTop(b, a) ==
    LET p == a.p
        c == b[p]
        q == p + 1
    IN
    IF p > Len(b) THEN (IF a.crc THEN [a EXCEPT !.ph = "end"] ELSE Bad(a, "missing crc"))
    ELSE IF a.crc THEN Bad(a, "data after crc")
    ELSE CASE c = 122 ->                                       \* z
             LET r == Rd32(b, q)
             IN IF ~r.ok \/ r.v = UZ \/ ~USmall(r.v) THEN Bad(a, "z") ELSE [a EXCEPT !.bs = UNat(r.v), !.p = r.nx]
          [] c = 120 ->                                        \* x
             LET r == Rd32(b, q) IN IF ~r.ok THEN Bad(a, "x") ELSE [a EXCEPT !.bmax = r.v, !.p = r.nx]
          [] c = 121 ->                                        \* y
             LET r == Rd32(b, q)
             IN IF ~r.ok \/ r.v[1] # 0 \/ r.v[2] < 2 \/ r.v[2] > 16 THEN Bad(a, "y")
                ELSE [a EXCEPT !.hs = r.v[2], !.p = r.nx]
          [] c \in {99, 67} ->                                 \* c C
             LET r == RdRaw(b, q + 1, 16)
             IN IF q > Len(b) \/ b[q] \notin HashKinds \/ ~r.ok THEN Bad(a, "hash")
                ELSE IF c = 99 THEN [a EXCEPT !.hash = <<[kind |-> b[q], seed |-> r.v]>>, !.p = r.nx]
                ELSE [a EXCEPT !.prev = <<[kind |-> b[q], seed |-> r.v]>>, !.p = r.nx]
          [] c = 77 ->                                         \* M
             LET nm == RdStr(b, q)
                 ps == Rd32(b, nm.nx)
                 tt == Rd32(b, ps.nx)
                 fr == Rd32(b, tt.nx)
                 uu == RdStr(b, fr.nx)
             IN IF ~(nm.ok /\ ps.ok /\ tt.ok /\ fr.ok /\ uu.ok) \/ ~USmall(ps.v) THEN Bad(a, "M")
                ELSE [a EXCEPT !.maps = Append(@, [name |-> nm.v, pos |-> UNat(ps.v), total |-> tt.v,
                                                   free |-> fr.v, uuid |-> uu.v]), !.p = uu.nx]
          [] c = 80 ->                                         \* P
             LET lv == Rd32(b, q)
                 tt == Rd32(b, lv.nx)
                 fr == Rd32(b, tt.nx)
                 uu == RdStr(b, fr.nx)
             IN IF ~(lv.ok /\ tt.ok /\ fr.ok /\ uu.ok) \/ lv.v # UN(Len(a.parity)) \/ Len(a.parity) >= 6
                THEN Bad(a, "P")
                ELSE [a EXCEPT !.parity = Append(@, [total |-> tt.v, free |-> fr.v,
                                 splits |-> <<[path |-> <<>>, uuid |-> uu.v, size |-> <<0>>]>>]), !.p = uu.nx]
          [] c = 81 ->                                         \* Q: header, the splits follow one per step
             LET lv == Rd32(b, q)
                 tt == Rd32(b, lv.nx)
                 fr == Rd32(b, tt.nx)
                 ns == Rd32(b, fr.nx)
             IN IF ~(lv.ok /\ tt.ok /\ fr.ok /\ ns.ok) \/ lv.v # UN(Len(a.parity)) \/ Len(a.parity) >= 6
                   \/ ns.v[1] # 0 \/ ns.v[2] > 8 \/ ns.v[2] = 0
                THEN Bad(a, "Q")
                ELSE [a EXCEPT !.parity = Append(@, [total |-> tt.v, free |-> fr.v, splits |-> <<>>]),
                               !.k = ns.v[2], !.ph = "split", !.p = ns.nx]
          [] c = 102 ->                                        \* f: header, the block runs follow
             LET mp == Rd32(b, q)
                 sz == Rd64(b, mp.nx)
                 sc == Rd64(b, sz.nx)
                 nsf == Rd32(b, sc.nx)
                 ino == Rd64(b, nsf.nx)
                 nm == RdStr(b, ino.nx)
                 m == mp.v[2] + 1
                 nblk == (DNat(sz.v) + a.bs - 1) \div a.bs
             IN IF ~(mp.ok /\ sz.ok /\ sc.ok /\ nsf.ok /\ ino.ok /\ nm.ok) THEN Bad(a, "f")
                ELSE IF mp.v[1] # 0 \/ m > Len(a.maps) THEN Bad(a, "f mapping")
                ELSE IF a.bs = 0 THEN Bad(a, "f blocksize")
                ELSE IF ~DFitsNat(sz.v) \/ ~USmall(nsf.v) THEN Bad(a, "f size")
                ELSE IF ULt(a.bmax, UN(nblk)) THEN Bad(a, "f too big")
                ELSE IF Len(nm.v) = 0 THEN Bad(a, "f null name")
                ELSE LET secs == WithSec(a.secs, m)
                         i == SecOf(secs, m)
                         f == [name |-> nm.v, size |-> sz.v, sec |-> sc.v, nsec |-> UNat(nsf.v) - 1,
                               ino |-> ino.v, blocks |-> <<>>]
                     IN [a EXCEPT !.secs = [secs EXCEPT ![i].files = Append(@, f)], !.cur = i, !.k = nblk,
                                  !.ph = IF nblk = 0 THEN "top" ELSE "blocks", !.p = nm.nx]
          [] c \in {97, 115} ->                                \* a s
             LET mp == Rd32(b, q)
                 nm == RdStr(b, mp.nx)
                 to == RdStr(b, nm.nx)
                 m == mp.v[2] + 1
             IN IF ~(mp.ok /\ nm.ok /\ to.ok) THEN Bad(a, "link")
                ELSE IF mp.v[1] # 0 \/ m > Len(a.maps) THEN Bad(a, "link mapping")
                ELSE IF Len(nm.v) = 0 \/ (c = 97 /\ Len(to.v) = 0) THEN Bad(a, "link null")
                ELSE LET secs == WithSec(a.secs, m)
                         i == SecOf(secs, m)
                     IN [a EXCEPT !.secs = [secs EXCEPT ![i].links =
                                               Append(@, [kind |-> c, name |-> nm.v, to |-> to.v])], !.p = to.nx]
          [] c = 114 ->                                        \* r
             LET mp == Rd32(b, q)
                 nm == RdStr(b, mp.nx)
                 m == mp.v[2] + 1
             IN IF ~(mp.ok /\ nm.ok) THEN Bad(a, "dir")
                ELSE IF mp.v[1] # 0 \/ m > Len(a.maps) THEN Bad(a, "dir mapping")
                ELSE IF Len(nm.v) = 0 THEN Bad(a, "dir null")
                ELSE LET secs == WithSec(a.secs, m)
                         i == SecOf(secs, m)
                     IN [a EXCEPT !.secs = [secs EXCEPT ![i].dirs = Append(@, nm.v)], !.p = nm.nx]
          [] c = 104 ->                                        \* h: header, the runs follow
             LET mp == Rd32(b, q)
                 m == mp.v[2] + 1
             IN IF ~mp.ok THEN Bad(a, "h")
                ELSE IF mp.v[1] # 0 \/ m > Len(a.maps) THEN Bad(a, "h mapping")
                ELSE LET secs == WithSec(a.secs, m)
                     IN [a EXCEPT !.secs = secs, !.cur = SecOf(secs, m), !.pos = UZ,
                                  !.ph = IF a.bmax = UZ THEN "top" ELSE "holes", !.p = mp.nx]
          [] c = 105 ->                                        \* i: header, the runs follow
             LET od == Rd32(b, q)
             IN IF ~od.ok THEN Bad(a, "i")
                ELSE [a EXCEPT !.oldest = od.v, !.pos = UZ, !.ph = IF a.bmax = UZ THEN "top" ELSE "info",
                               !.p = od.nx]
          [] c = 78 ->                                         \* N: CRC of everything up to and including 'N'
             LET r == RdRaw(b, q, 4)
             IN IF ~r.ok THEN Bad(a, "crc truncated")
                ELSE IF r.v # CrcLE(Crc32c(SubSeq(b, 1, p))) THEN Bad(a, "crc mismatch")
                ELSE [a EXCEPT !.crc = TRUE, !.p = r.nx]
          [] OTHER -> Bad(a, "unknown record")

DSplit(b, a) ==
    LET pa == RdStr(b, a.p)
        uu == RdStr(b, pa.nx)
        sz == Rd64(b, uu.nx)
        l == Len(a.parity)
    IN IF ~(pa.ok /\ uu.ok /\ sz.ok) THEN Bad(a, "Q split")
       ELSE [a EXCEPT !.parity = [@ EXCEPT ![l].splits = Append(@, [path |-> pa.v, uuid |-> uu.v, size |-> sz.v])],
                      !.k = a.k - 1, !.ph = IF a.k = 1 THEN "top" ELSE "split", !.p = sz.nx]

\* one run of blocks of the file being read (state.c:1920-2042)
DBlocks(b, a) ==
    LET p == a.p
        ps == Rd32(b, p + 1)
        ct == Rd32(b, ps.nx)
        n == ct.v[2]
        hh == RdRaw(b, ct.nx, n * a.hs)
        i == a.cur
        fi == Len(a.secs[i].files)
    IN IF p > Len(b) \/ ~(ps.ok /\ ct.ok) THEN Bad(a, "blocks")
       ELSE IF b[p] \notin {98, 103, 112} THEN Bad(a, "block type")
       ELSE IF ct.v[1] # 0 \/ n = 0 \/ n > a.k THEN Bad(a, "block count")
       ELSE IF ULt(a.bmax, UAdd(ps.v, ct.v)) \/ ULt(UAdd(ps.v, ct.v), ps.v) THEN Bad(a, "block position")
       ELSE IF ~hh.ok THEN Bad(a, "block hash")
       ELSE LET nb == [j \in 1..n |-> [pos |-> UAdd(ps.v, UN(j - 1)), st |-> b[p],
                                       h |-> SubSeq(hh.v, (j - 1) * a.hs + 1, j * a.hs)]]
            IN [a EXCEPT !.secs = [@ EXCEPT ![i].files = [@ EXCEPT ![fi].blocks = @ \o nb]],
                         !.k = a.k - n, !.ph = IF a.k = n THEN "top" ELSE "blocks", !.p = hh.nx]

\* one run of the 'h' record (state.c:2145-2242)
DHoles(b, a) ==
    LET ct == Rd32(b, a.p)
        q == ct.nx
        end == UAdd(a.pos, ct.v)
        isdel == q <= Len(b) /\ b[q] = 111
        n == ct.v[2]
        hh == RdRaw(b, q + 1, n * a.hs)
        i == a.cur
    IN IF ~ct.ok \/ q > Len(b) THEN Bad(a, "holes")
       ELSE IF ct.v = UZ THEN Bad(a, "hole empty run")
       ELSE IF ULt(a.bmax, end) \/ ULt(end, a.pos) THEN Bad(a, "hole size")
       ELSE IF b[q] = 79 THEN [a EXCEPT !.pos = end, !.ph = IF end = a.bmax THEN "top" ELSE "holes", !.p = q + 1]
       ELSE IF ~isdel THEN Bad(a, "hole type")
       ELSE IF ct.v[1] # 0 \/ ~hh.ok THEN Bad(a, "hole hash")
       ELSE LET nd == [j \in 1..n |-> [pos |-> UAdd(a.pos, UN(j - 1)),
                                       h |-> SubSeq(hh.v, (j - 1) * a.hs + 1, j * a.hs)]]
            IN [a EXCEPT !.secs = [@ EXCEPT ![i].del = @ \o nd], !.pos = end,
                         !.ph = IF end = a.bmax THEN "top" ELSE "holes", !.p = hh.nx]

\* one run of the 'i' record (state.c:2046-2144)
DInfo(b, a) ==
    LET ct == Rd32(b, a.p)
        fl == Rd32(b, ct.nx)
        has == fl.v[2] % 2 = 1
        tm == Rd32(b, fl.nx)
        end == UAdd(a.pos, ct.v)
        n == ct.v[2]
        f == fl.v[2]
        nx == IF has THEN tm.nx ELSE fl.nx
    IN IF ~(ct.ok /\ fl.ok) \/ (has /\ ~tm.ok) THEN Bad(a, "info")
       ELSE IF ct.v = UZ THEN Bad(a, "info empty run")
       ELSE IF ULt(a.bmax, end) \/ ULt(end, a.pos) THEN Bad(a, "info size")
       ELSE IF fl.v[1] # 0 \/ f >= 16 THEN Bad(a, "info flag")
       ELSE IF ~has THEN (IF f # 0 THEN Bad(a, "info flag")
                          ELSE [a EXCEPT !.pos = end, !.ph = IF end = a.bmax THEN "top" ELSE "info", !.p = nx])
       ELSE IF ct.v[1] # 0 THEN Bad(a, "info run too long for the model")
       ELSE IF (f \div 4) % 2 = 1 /\ Len(a.prev) = 0 THEN Bad(a, "rehash without previous hash")
       ELSE LET ne == [j \in 1..n |-> [pos |-> UAdd(a.pos, UN(j - 1)), t |-> UFloor8(UAdd(tm.v, a.oldest)),
                                       bad |-> (f \div 2) % 2 = 1, rehash |-> (f \div 4) % 2 = 1,
                                       js |-> (f \div 8) % 2 = 1]]
            IN [a EXCEPT !.info = @ \o ne, !.pos = end, !.ph = IF end = a.bmax THEN "top" ELSE "info", !.p = nx]

\* the decoded state, in ContentState form
DState(a) == [bs |-> a.bs, hs |-> a.hs, hash |-> IF Len(a.hash) = 1 THEN a.hash[1] ELSE [kind |-> 0, seed |-> <<>>],
              prev |-> a.prev, maps |-> a.maps, parity |-> a.parity, disks |-> a.secs, info |-> a.info]

\* checks after the last record (state.c:2839-2870 and state_fscheck)
DEnd(a) ==
    LET s == DState(a)
        blk == UNION { UNION { { f.blocks[j].pos : j \in {j \in 1..Len(f.blocks) : f.blocks[j].st = 98} }
                               : f \in ToSet(D.files) } : D \in ToSet(s.disks) }
        ipos == {s.info[i].pos : i \in 1..Len(s.info)}
        Unique(D) == LET ps == Cat([i \in 1..Len(D.files) |-> [j \in 1..Len(D.files[i].blocks) |-> D.files[i].blocks[j].pos]])
                              \o [j \in 1..Len(D.del) |-> D.del[j].pos]
                     IN Cardinality(ToSet(ps)) = Len(ps)
    IN IF Len(a.hash) # 1 THEN Bad(a, "no hash")
       ELSE IF a.ver = 2 /\ a.hs # 16 THEN Bad(a, "hash size in version 2")
       ELSE IF Bmax(s) # a.bmax THEN Bad(a, "parity size")
       ELSE IF ~(blk \subseteq ipos) THEN Bad(a, "missing info")
       ELSE IF \E i \in 1..Len(s.disks) : ~Unique(s.disks[i]) THEN Bad(a, "position used twice")
       ELSE IF \E i \in 1..Len(s.maps) : ~\E j \in 1..Len(s.disks) : s.disks[j].map = i THEN Bad(a, "disk without records")
       ELSE [a EXCEPT !.ph = "ok"]

DStep(b, a) ==
    CASE a.ph = "top" -> DTop(b, a)
      [] a.ph = "split" -> DSplit(b, a)
      [] a.ph = "blocks" -> DBlocks(b, a)
      [] a.ph = "holes" -> DHoles(b, a)
      [] a.ph = "info" -> DInfo(b, a)
      [] a.ph = "end" -> DEnd(a)
      [] OTHER -> a

\* every step consumes at least one byte, so Len(b) + 2 steps are enough
DRun(b) == FoldLeft(LAMBDA a, i : IF a.ph \in {"ok", "bad"} THEN a ELSE DStep(b, a), DHeader(b), Idx(Len(b) + 2))
Loadable(b) == DRun(b).ph = "ok"
Decoded(b) == DState(DRun(b))

=============================================================================
