---------------------------- MODULE ContentSave ----------------------------
\* Replacement of the content copies by state_write() (cmdline/state.c:3369-4074), one action per system call
\* on a content path, in the order the code performs them:
\*
\*   state_write_content : for every copy c (in order): remove(c.tmp), open(c.tmp, O_CREAT|O_EXCL);
\*                         then the stream is flushed chunk by chunk, each chunk written to every copy in order
\*                         (stream.c sflush);  then fsync of every copy in order, close
\*   state_verify_content: every c.tmp is re-read completely and its CRC compared (one thread per copy, so in
\*                         any order), only after ALL copies were written and flushed
\*   state_rename_content: rename(c.tmp, c) for every copy in order, only after ALL copies verified
\*
\* file[c] is what the configured copy c holds: g >= 0 = the complete image of save number g (0 = the image that
\* existed before), Partial = an incomplete image, Unsynced = a complete image whose data was never flushed.
\* A command performs up to NSaves saves (sync: one before and one after the parity update).  Kill stops the
\* process at any point (what the harness injects with SIGKILL); PowerLoss additionally loses everything that was
\* not flushed.  A later command starts a new save and finds the stale temporaries.
EXTENDS Integers, FiniteSets

CONSTANTS NCopies, NChunks, NSaves,
          WriteFaults, \* TRUE = a write may silently alter the data (at most one per save)
          VerifyAll,   \* TRUE = the re-read result of every copy counts (the code); FALSE = only the last one
          Guarded      \* TRUE = the order of the code; FALSE = rename allowed as soon as the temporary exists
                       \* (used once per run to show that the invariants can fail)

Copies == 1..NCopies
Partial == -1
Unsynced == -2

VARIABLES file,      \* [Copies -> Int]
          tmp,       \* [Copies -> [ex : BOOLEAN, n : 0..NChunks, syn : BOOLEAN]]   the temporary beside copy c
          gen,       \* number of the save in progress (or of the last one)
          pc,        \* "idle" | "save" | "failed"
          done,      \* per-save progress: [rm, cr, ver, ren : SUBSET Copies]
          old,       \* file at the beginning of the save in progress
          okend      \* TRUE when the last save ran to its end

vars == <<file, tmp, gen, pc, done, old, okend>>

NoneDone == [rm |-> {}, cr |-> {}, ver |-> {}, ren |-> {}]
Below(c) == 1..(c - 1)

Init == /\ file = [c \in Copies |-> 0]
        /\ tmp \in [Copies -> {[ex |-> FALSE, n |-> 0, syn |-> FALSE, bad |-> FALSE], [ex |-> TRUE, n |-> 1, syn |-> FALSE, bad |-> FALSE]}]  \* stale leftovers allowed
        /\ gen = 0 /\ pc = "idle" /\ done = NoneDone /\ old = file /\ okend = FALSE

Begin == /\ pc = "idle" /\ gen < NSaves
         /\ gen' = gen + 1 /\ pc' = "save" /\ done' = NoneDone /\ old' = file /\ okend' = FALSE
         /\ UNCHANGED <<file, tmp>>

\* remove a stale temporary (ENOENT is fine)
TmpRemove(c) == /\ pc = "save" /\ c \notin done.rm /\ Below(c) \subseteq done.cr
                /\ tmp' = [tmp EXCEPT ![c] = [ex |-> FALSE, n |-> 0, syn |-> FALSE, bad |-> FALSE]]
                /\ done' = [done EXCEPT !.rm = @ \cup {c}]
                /\ UNCHANGED <<file, gen, pc, old, okend>>

\* O_EXCL: fails (and the command stops) when the name exists
TmpCreate(c) == /\ pc = "save" /\ c \in done.rm /\ c \notin done.cr
                /\ IF tmp[c].ex THEN pc' = "failed" /\ UNCHANGED <<tmp, done>>
                   ELSE /\ tmp' = [tmp EXCEPT ![c] = [ex |-> TRUE, n |-> 0, syn |-> FALSE, bad |-> FALSE]]
                        /\ done' = [done EXCEPT !.cr = @ \cup {c}]
                        /\ pc' = pc
                /\ UNCHANGED <<file, gen, old, okend>>

\* one chunk to one copy; chunks go to the copies in order, all copies get chunk k before any gets chunk k+1
TmpWrite(c) == /\ pc = "save" /\ done.cr = Copies /\ tmp[c].n < NChunks
               /\ \A d \in Below(c) : tmp[d].n = tmp[c].n + 1
               /\ \A d \in Copies \ Below(c) : tmp[d].n = tmp[c].n
               /\ \A d \in Copies : ~tmp[d].syn
               /\ tmp' = [tmp EXCEPT ![c].n = @ + 1]
               /\ UNCHANGED <<file, gen, pc, done, old, okend>>

\* the same call, but the data does not reach the file as it was sent (a fault of the write path that reports success):
\* this is what the re-read and CRC check before the renames exists for.  At most MaxBad such writes per behaviour.
TmpWriteBad(c) == /\ pc = "save" /\ done.cr = Copies /\ tmp[c].n < NChunks
                  /\ \A d \in Below(c) : tmp[d].n = tmp[c].n + 1
                  /\ \A d \in Copies \ Below(c) : tmp[d].n = tmp[c].n
                  /\ \A d \in Copies : ~tmp[d].syn
                  /\ ~\E d \in Copies : tmp[d].bad
                  /\ WriteFaults
                  /\ tmp' = [tmp EXCEPT ![c].n = @ + 1, ![c].bad = TRUE]
                  /\ UNCHANGED <<file, gen, pc, done, old, okend>>

TmpFsync(c) == /\ pc = "save" /\ done.cr = Copies /\ \A d \in Copies : tmp[d].n = NChunks
               /\ ~tmp[c].syn /\ \A d \in Below(c) : tmp[d].syn
               /\ tmp' = [tmp EXCEPT ![c].syn = TRUE]
               /\ UNCHANGED <<file, gen, pc, done, old, okend>>

\* re-read and CRC check of the temporary: only after all copies are flushed; any order
Verify(c) == /\ pc = "save" /\ done.cr = Copies /\ \A d \in Copies : (tmp[d].n = NChunks /\ tmp[d].syn)
             /\ c \notin done.ver /\ done.ren = {}
             \* a temporary that does not read back with the right CRC stops the command before any rename
             \* (VerifyAll = FALSE: only the result of the last copy counts - used once to show that the invariant can fail)
             /\ IF tmp[c].bad /\ (VerifyAll \/ c = NCopies)
                THEN pc' = "failed" /\ UNCHANGED done
                ELSE done' = [done EXCEPT !.ver = @ \cup {c}] /\ pc' = pc
             /\ UNCHANGED <<file, tmp, gen, old, okend>>

\* the image that a rename of the temporary installs
Installed(c) == IF tmp[c].n < NChunks \/ tmp[c].bad THEN Partial ELSE IF tmp[c].syn THEN gen ELSE Unsynced

Rename(c) == /\ pc = "save" /\ (IF Guarded THEN done.ver = Copies ELSE c \in done.cr)
             /\ c \notin done.ren /\ Below(c) \subseteq done.ren
             /\ file' = [file EXCEPT ![c] = Installed(c)]
             /\ tmp' = [tmp EXCEPT ![c] = [ex |-> FALSE, n |-> 0, syn |-> FALSE, bad |-> FALSE]]
             /\ done' = [done EXCEPT !.ren = @ \cup {c}]
             /\ UNCHANGED <<gen, pc, old, okend>>

End == /\ pc = "save" /\ done.ren = Copies
       /\ pc' = "idle" /\ okend' = TRUE
       /\ UNCHANGED <<file, tmp, gen, done, old>>

\* the process is killed; whatever the kernel has stays (SIGKILL); a later command may save again
Kill == /\ pc = "save"
        /\ pc' = "idle" /\ okend' = FALSE
        /\ UNCHANGED <<file, tmp, gen, done, old>>

\* power loss: unflushed temporaries lose data, an installed but never flushed image is damaged
PowerLoss == /\ pc = "save"
             /\ pc' = "idle" /\ okend' = FALSE
             /\ \E keep \in [Copies -> 0..NChunks] :
                   tmp' = [c \in Copies |-> [tmp[c] EXCEPT !.n = IF tmp[c].syn \/ keep[c] > @ THEN @ ELSE keep[c]]]
             /\ file' = [c \in Copies |-> IF file[c] = Unsynced THEN Partial ELSE file[c]]
             /\ UNCHANGED <<gen, done, old>>

Step(c) == TmpRemove(c) \/ TmpCreate(c) \/ TmpWrite(c) \/ TmpWriteBad(c) \/ TmpFsync(c) \/ Verify(c) \/ Rename(c)
Next == Begin \/ End \/ Kill \/ PowerLoss \/ \E c \in Copies : Step(c)
Spec == Init /\ [][Next]_vars

-----------------------------------------------------------------------------
Whole(x) == x >= 0
\* each configured copy is at all times a complete image: the one it had when the save began, or the new one
CopiesWhole == \A c \in Copies : (Whole(file[c]) /\ (file[c] = old[c] \/ file[c] = gen))
\* a command that loads the first copy always finds a loadable, and the newest, image
SomeCopyLoads == \E c \in Copies : Whole(file[c])
FirstIsNewest == \A c \in Copies : file[1] >= file[c]
\* after a save that ran to its end all copies hold the new image and no temporary is left
EqualAfterSuccess == okend => (\A c \in Copies : (file[c] = gen /\ ~tmp[c].ex))
TypeOK == /\ file \in [Copies -> -2..NSaves] /\ gen \in 0..NSaves /\ pc \in {"idle", "save", "failed"}
          /\ tmp \in [Copies -> [ex : BOOLEAN, n : 0..NChunks, syn : BOOLEAN, bad : BOOLEAN]]
=============================================================================
