\* trace validation: constants come from the header record of the file named by $TRACE
SPECIFICATION TraceSpec
CONSTANTS
  N <- TraceN
  RD <- TraceRD
  RP <- TraceRP
  W <- TraceW
  BlockStart <- TraceBlockStart
  BlockMax <- TraceBlockMax
  Enabled <- TraceEnabled
  SignalOutside = FALSE
  Spurious = TRUE
  ROutcomes <- OutAll
  WOutcomes <- OutAll
  MaxFail <- TraceMaxFail
  AllowSkip = TRUE
  AllowStop = TRUE
  AllowBail = TRUE
INVARIANTS TypeOK Asserts Ownership OnceInOrder Deterministic ErrorsAccountedR WaitSane LastIsDone
POSTCONDITION TraceAccepted
CHECK_DEADLOCK FALSE
