\* quick tier: 4 slots, 1 reader, 2 writers, no failing task
SPECIFICATION FairSpec
CONSTANTS
  N = 4
  RD = 1
  RP = 0
  W = 2
  BlockStart = 0
  BlockMax = 5
  Enabled = {0, 1, 3, 4}
  SignalOutside = FALSE
  Spurious = TRUE
  ROutcomes <- OutSoftHard
  WOutcomes <- OutWSoft
  MaxFail = 0
  AllowSkip = TRUE
  AllowStop = TRUE
  AllowBail = TRUE
INVARIANTS TypeOK Asserts Ownership OnceInOrder Deterministic ErrorsAccountedR WaitSane
PROPERTY Termination
CHECK_DEADLOCK TRUE
