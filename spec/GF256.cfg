\* stand-alone check of the field and its witness tables (needs witness_gf.json in the working directory:
\* python3 ../harness/py/gfwitness.py .)
CONSTANT Tier = "quick"
INIT GFInit
NEXT JobStep
INVARIANT GFJobInv
