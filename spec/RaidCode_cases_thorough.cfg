\* RaidCode, Part = "cases", tier thorough (witness_gf.json / witness_mat.json must be in the working directory;
\* props/C02.py and props/C03.py copy the spec next to freshly generated witnesses and run TLC there)
CONSTANTS
  Tier = "thorough"
  Part = "cases"
  LeadW = 16
  WinW = 8
  FullMaxK = 2
  PowMaxK = 3
  CaseNd = {1, 2, 3, 4, 12, 13}
  BoundaryCols = {0, 1, 2, 31, 32, 33, 127, 128, 129, 248, 249, 250}
INIT RCInit
NEXT JobStep
INVARIANT RCJobInv
