\* thorough tier: 4 slots, 2 data readers, 1 writer, 5 enabled positions of 6, <= 1 failing task, skip and early stop, spurious wake-ups, signal inside; with liveness (measured 2.27 M distinct states)
SPECIFICATION FairSpec
CONSTANTS
  N = 4
  RD = 2
  RP = 0
  W = 1
  BlockStart = 0
  BlockMax = 6
  Enabled = {0, 1, 3, 4, 5}
  SignalOutside = FALSE
  Spurious = TRUE
  ROutcomes <- OutSoftHard
  WOutcomes <- OutWSoft
  MaxFail = 1
  AllowSkip = TRUE
  AllowStop = TRUE
  AllowBail = FALSE
INVARIANTS TypeOK Asserts Ownership OnceInOrder Deterministic ErrorsAccountedR WaitSane
PROPERTY Termination
CHECK_DEADLOCK TRUE
