\* every bit flip / truncation of the generated files selected by CF_DAMAGE is rejected by the decoder
\* module ContentFormatMC; needs witness_crc32c.json in the working directory (harness/py/cfmt.py write_crc_witness);
\* run through harness/py/cfspec.py, which copies the spec into a private directory under out/
CONSTANT Part = "damage"
INIT Init
NEXT Next
INVARIANT JobInv
CHECK_DEADLOCK FALSE
