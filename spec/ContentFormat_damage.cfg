\* every bit flip / truncation of the generated files selected by CF_DAMAGE is rejected by the decoder
CONSTANT Part = "damage"
INIT Init
NEXT Next
INVARIANT JobInv
CHECK_DEADLOCK FALSE
